package main

// Model evaluation of the nearest-neighbour search (C12.R1–R3) and of the two point-to-box
// bounds (C12.R6).
//
// (a) Bounds.  Every function (Point, *Bounds) → float64 of the package is interpreted with
// symbolic coordinates for each placement of the point relative to the box (left of it, in its
// left half, in its right half, right of it — per axis) and compared, as a polynomial, with
// MINDIST² and MINMAXDIST² of Roussopoulos et al.  This also tells the checker which function
// is which without looking at names.
//
// (b) Traversal.  NearestNeighbor and NearestNeighbors are interpreted on hand-built trees
// (one leaf; two leaves; two levels of internal nodes) whose boxes are opaque: the two bounds
// are replaced by tables.  An object's distance is its rank in a weak ordering of the objects,
// and every weak ordering is enumerated, so the runs cover every geometry that can produce the
// tree.  For an inner entry MINDIST is any value not above the least distance in its subtree
// (tight, or lower) and MINMAXDIST any value not below it (tight, the largest distance in the
// subtree, or beyond everything): all that the definitions promise.  Whatever the search does
// with these numbers, it must return objects at the k smallest distances, in order.

import (
	"fmt"
	"go/types"
	"math/big"
	"sort"
	"strings"
)

type c12tree struct {
	name string
	// leaves[i] = number of objects in leaf i; groups = how the leaves hang under inner nodes
	// (nil: the root is the only inner node, or the root is the single leaf)
	leaves []int
	groups [][]int
}

type c12m struct {
	c        *Ctx
	it       *oInterp
	m        *clipModel
	p        *pkgT
	mindist  *types.Func
	minmax   *types.Func
	minTab   map[*oStruct]int64
	mmTab    map[*oStruct]int64
	objIndex map[*oStruct]int
}

func c12formulas(c *Ctx, p *pkgT, cands []*types.Func) (mindist, minmax *types.Func) {
	m := newClipModel(c)
	it := m.it
	it.symbolic = true
	it.valuation = map[string]float64{"__ranks": 1}
	it.maxDepth = 48
	// box (20,30)-(60,90): midpoints 40 and 60; placements per axis
	type place struct {
		v    int64
		what string
	}
	xs := []place{{5, "left of the box"}, {31, "in the left half"}, {49, "in the right half"}, {75, "right of the box"}}
	ys := []place{{11, "below the box"}, {47, "in the lower half"}, {71, "in the upper half"}, {97, "above the box"}}
	const sx, tx, sy, ty = 20, 60, 30, 90
	v := func(r int64) poly { return polyVar(rankVar(r)) }
	sq := func(a poly) poly { return symMul(a, a) }
	half := big.NewRat(1, 2)
	specMin := func(px, py int64) poly {
		s := poly{}
		if px < sx {
			s = s.add(sq(v(px).add(v(sx), -1)), 1)
		} else if px > tx {
			s = s.add(sq(v(px).add(v(tx), -1)), 1)
		}
		if py < sy {
			s = s.add(sq(v(py).add(v(sy), -1)), 1)
		} else if py > ty {
			s = s.add(sq(v(py).add(v(ty), -1)), 1)
		}
		return s
	}
	specMinMax := func(px, py int64) poly {
		near := func(pk, s, t int64) poly { // rm
			if 2*pk <= s+t {
				return v(s)
			}
			return v(t)
		}
		far := func(pk, s, t int64) poly { // rM
			if 2*pk >= s+t {
				return v(s)
			}
			return v(t)
		}
		c1 := sq(v(px).add(near(px, sx, tx), -1)).add(sq(v(py).add(far(py, sy, ty), -1)), 1)
		c2 := sq(v(py).add(near(py, sy, ty), -1)).add(sq(v(px).add(far(px, sx, tx), -1)), 1)
		a, _ := symEval(c1, it.valuation)
		b, _ := symEval(c2, it.valuation)
		if a <= b {
			return c1
		}
		return c2
	}
	_ = half
	for _, f := range cands {
		isMin, isMM := true, true
		isRootMin, isRootMM := true, true // the linear distance: its square is the bound
		why := ""
		firstBadMin, firstBadMM := "", ""
		for _, x := range xs {
			for _, y := range ys {
				c.Evals(1)
				res, w := it.Call(f, nil, []oval{it.point(m.ptT, x.v, y.v), oPtr{it.bounds(m.bt, m.ptT, sx, sy, tx, ty)}}, 0)
				if w != "" {
					why = w
					isMin, isMM = false, false
					continue
				}
				got, ok := symOf(res[0])
				if !ok {
					why = "result " + showVal(res[0])
					isMin, isMM = false, false
					continue
				}
				if g2 := symMul(got, got); !g2.equal(specMin(x.v, y.v)) || len(got) == 0 && len(specMin(x.v, y.v)) != 0 {
					isRootMin = false
				} else if !rootLike(got) {
					isRootMin = false
				}
				if g2 := symMul(got, got); !g2.equal(specMinMax(x.v, y.v)) || !rootLike(got) {
					isRootMM = false
				}
				if !got.equal(specMin(x.v, y.v)) {
					if isMin {
						firstBadMin = fmt.Sprintf("with the point %s and %s it returns %s, MINDIST² is %s", x.what, y.what, showVal(res[0]), specMin(x.v, y.v).canon())
					}
					isMin = false
				}
				if !got.equal(specMinMax(x.v, y.v)) {
					if isMM {
						firstBadMM = fmt.Sprintf("with the point %s and %s it returns %s, MINMAXDIST² is %s", x.what, y.what, showVal(res[0]), specMinMax(x.v, y.v).canon())
					}
					isMM = false
				}
			}
		}
		cons := c.P.FuncName(f) + "#formula"
		pos := c.P.Decl(f).Pos()
		switch {
		case isMin:
			mindist = f
			c.OK("C12.R6", cons, pos, "equals MINDIST² as a polynomial in the coordinates for all 16 placements of the point")
		case isMM:
			minmax = f
			c.OK("C12.R6", cons, pos, "equals MINMAXDIST² (Roussopoulos et al., definition 4) as a polynomial in the coordinates for all 16 placements of the point")
		case why != "":
			c.Unk("C12.R6", cons, pos, "a point-to-box function that is not interpretable: %s", why)
		case isRootMin:
			c.OK("C12.R6", cons, pos, "the square root of MINDIST² (a linear distance) for all 16 placements of the point")
		case isRootMM:
			c.OK("C12.R6", cons, pos, "the square root of MINMAXDIST² (a linear distance) for all 16 placements of the point")
		default:
			// neither: report against the nearer specification (fewest characters of difference is
			// no guide; use the name-free heuristic: a function that returns 0 inside the box is MINDIST)
			msg := firstBadMM
			if res, w := it.Call(f, nil, []oval{it.point(m.ptT, 31, 47), oPtr{it.bounds(m.bt, m.ptT, sx, sy, tx, ty)}}, 0); w == "" {
				if q, ok := symOf(res[0]); ok && len(q) == 0 {
					msg = firstBadMin
				}
			}
			c.Bad("C12.R6", cons, pos, "a point-to-box bound that is neither MINDIST² nor MINMAXDIST²: %s", msg)
		}
	}
	return
}

// hostSort sorts v (a sort.Interface implemented in the repository) by calling its methods.
func hostSort(it *oInterp, v oval) string {
	iv, ok := v.(oIface)
	if !ok || iv.dyn == nil {
		return "sort.Sort of " + showVal(v)
	}
	var t types.Type
	var recvVal, recvPtr oval
	switch x := iv.dyn.(type) {
	case *oStruct:
		t, recvVal = x.typ, x
	case oPtr:
		if x.s == nil {
			return "sort.Sort of a nil pointer"
		}
		t, recvPtr, recvVal = types.NewPointer(x.s.typ), x, x.s
	case oSlice:
		t, recvVal = x.typ, x
	default:
		return "sort.Sort of " + showVal(v)
	}
	meth := func(name string) (*types.Func, oval) {
		obj, _, _ := types.LookupFieldOrMethod(t, true, nil, name)
		f, _ := obj.(*types.Func)
		if f == nil || it.p.Decl(f) == nil {
			return nil, nil
		}
		if _, ptr := f.Type().(*types.Signature).Recv().Type().(*types.Pointer); ptr {
			if recvPtr == nil {
				return nil, nil
			}
			return f, recvPtr
		}
		if st, ok := recvVal.(*oStruct); ok {
			return f, st.clone()
		}
		return f, recvVal
	}
	lenF, lenR := meth("Len")
	lessF, _ := meth("Less")
	swapF, _ := meth("Swap")
	if lenF == nil || lessF == nil || swapF == nil {
		return "sort.Sort: Len/Less/Swap do not resolve to repository methods"
	}
	res, why := it.Call(lenF, lenR, nil, 1)
	if why != "" {
		return why
	}
	n, ok := res[0].(oInt)
	if !ok {
		return "sort.Sort: Len returns " + showVal(res[0])
	}
	// insertion sort (stable; sort.Sort promises no stability, and the model's orderings
	// include ties in both input orders)
	for i := 1; i < int(n); i++ {
		for j := i; j > 0; j-- {
			_, r := meth("Less")
			res, why := it.Call(lessF, r, []oval{oInt(j), oInt(j - 1)}, 1)
			if why != "" {
				return why
			}
			b, ok := res[0].(oBool)
			if !ok {
				return "sort.Sort: Less returns " + showVal(res[0])
			}
			if !bool(b) {
				break
			}
			_, r = meth("Swap")
			if _, why := it.Call(swapF, r, []oval{oInt(j), oInt(j - 1)}, 1); why != "" {
				return why
			}
		}
	}
	return ""
}

func (m *c12m) stub(f *types.Func, recv oval, args []oval) ([]oval, bool) {
	if (f == m.mindist || f == m.minmax) && len(args) == 2 {
		bb, ok := args[1].(oPtr)
		if !ok || bb.s == nil {
			return []oval{oTop{"bound of a nil box"}}, true
		}
		tab := m.minTab
		if f == m.minmax {
			tab = m.mmTab
		}
		r, ok := tab[bb.s]
		if !ok {
			return []oval{oTop{"bound of a box that is not in the tree"}}, true
		}
		return []oval{oFloat{r}}, true
	}
	if f.Pkg() != nil && f.Pkg().Path() == "sort" && m.it.p.Decl(f) == nil {
		switch f.Name() {
		case "Sort", "Stable":
			if why := hostSort(m.it, args[0]); why != "" {
				return []oval{}, false
			}
			return nil, true
		}
	}
	return nil, false
}

func c12model(c *Ctx, p *pkgT, mindist, minmax *types.Func) {
	nn := c.P.Method("index/rtree", "Rtree", "NearestNeighbor")
	knn := c.P.Method("index/rtree", "Rtree", "NearestNeighbors")
	treeT := c.P.NamedType("index/rtree", "Rtree")
	var nodeT, entryT types.Type
	if o := p.Types.Scope().Lookup("node"); o != nil {
		nodeT = o.Type()
	}
	if o := p.Types.Scope().Lookup("entry"); o != nil {
		entryT = o.Type()
	}
	pos := c.P.Decl(nn).Pos()
	if treeT == nil || nodeT == nil || entryT == nil || mindist == nil {
		c.Unk("C12.R2", "index/rtree#model", pos, "the tree, node or entry types, or the MINDIST function, do not resolve")
		return
	}
	cm := newClipModel(c)
	m := &c12m{c: c, it: cm.it, m: cm, p: p, mindist: mindist, minmax: minmax}
	m.it.symbolic = true
	m.it.valuation = map[string]float64{"__ranks": 1}
	m.it.maxDepth = 48
	m.it.maxLoop = 256
	m.it.stub = m.stub
	geomI := c.P.NamedType("geom", "Geom")

	trees := []c12tree{
		{"one leaf of three", []int{3}, nil},
		{"two leaves (2+2)", []int{2, 2}, nil},
		{"three leaves (1+2+2)", []int{1, 2, 2}, nil},
		{"two inner nodes over three leaves (2 | 1+2)", []int{2, 1, 2}, [][]int{{0}, {1, 2}}},
	}
	if c.Thorough {
		trees = append(trees, c12tree{"two inner nodes over four leaves (1+2 | 2+1)", []int{1, 2, 2, 1}, [][]int{{0, 1}, {2, 3}}})
	}
	type policy struct {
		name     string
		minLoose int // 0 tight, 1 just below, 2 zero
		mmPolicy int // 0 tight, 1 largest in the subtree, 2 beyond everything
	}
	policies := []policy{{"tight bounds", 0, 0}, {"MINDIST below the least, MINMAXDIST at the largest", 1, 1}, {"MINDIST zero, MINMAXDIST tight", 2, 0}, {"MINDIST tight, MINMAXDIST beyond everything", 0, 2}}

	type verdictT struct{ bad, unk string }
	verdicts := map[string]*verdictT{}
	var vorder []string
	vd := func(k string) *verdictT {
		if verdicts[k] == nil {
			verdicts[k] = &verdictT{}
			vorder = append(vorder, k)
		}
		return verdicts[k]
	}

	for _, tr := range trees {
		nObj := 0
		for _, n := range tr.leaves {
			nObj += n
		}
		orderings := weakOrderings(nObj)
		keyStrict := "index/rtree.(*Rtree).NearestNeighbor#" + tr.name
		keyTies := "index/rtree.(*Rtree).NearestNeighbor#ties, " + tr.name
		keyK := "index/rtree.(*Rtree).NearestNeighbors#" + tr.name
		vd(keyStrict)
		vd(keyTies)
		vd(keyK)
		for _, ord := range orderings {
			keyNN := keyStrict
			seenRank := map[int64]bool{}
			for _, r := range ord {
				if seenRank[r] {
					keyNN = keyTies // some objects are equally far: exclusion tests must not be strict
				}
				seenRank[r] = true
			}
			// distance of object i: 10 + 10·rank (ranks from weakOrderings are even numbers)
			dist := make([]int64, nObj)
			for i, r := range ord {
				dist[i] = 10 + 5*r
			}
			for _, pol := range policies {
				if vd(keyStrict).bad != "" && vd(keyTies).bad != "" && vd(keyK).bad != "" {
					break
				}
				// build the tree
				m.minTab, m.mmTab, m.objIndex = map[*oStruct]int64{}, map[*oStruct]int64{}, map[*oStruct]int{}
				newBox := func() *oStruct { return m.it.bounds(cm.bt, cm.ptT, 1000, 1002, 1004, 1006) }
				mkNode := func(leaf bool, entries []oval) *oStruct {
					n := m.it.zero(nodeT).(*oStruct)
					n.fields["leaf"] = oBool(leaf)
					n.fields["entries"] = cm.sliceOf(types.NewSlice(entryT), entries)
					return n
				}
				type sub struct {
					node     *oStruct
					min, max int64
				}
				var leafSubs []sub
				oi := 0
				for _, cnt := range tr.leaves {
					var es []oval
					lo, hi := int64(1<<40), int64(-1)
					for k := 0; k < cnt; k++ {
						bb := newBox()
						obj := newBox()
						m.objIndex[obj] = oi
						m.minTab[bb] = dist[oi]
						m.mmTab[bb] = 2000 - dist[oi] // a near box may be large: MINMAXDIST of the objects need not follow their MINDIST order
						e := m.it.zero(entryT).(*oStruct)
						e.fields["bb"] = oPtr{bb}
						e.fields["obj"] = oIface{dyn: oPtr{obj}, styp: geomI}
						es = append(es, e)
						if dist[oi] < lo {
							lo = dist[oi]
						}
						if dist[oi] > hi {
							hi = dist[oi]
						}
						oi++
					}
					leafSubs = append(leafSubs, sub{mkNode(true, es), lo, hi})
				}
				wrap := func(subs []sub) sub {
					var es []oval
					lo, hi := int64(1<<40), int64(-1)
					for _, s := range subs {
						bb := newBox()
						switch pol.minLoose {
						case 0:
							m.minTab[bb] = s.min
						case 1:
							m.minTab[bb] = s.min - 1
						default:
							m.minTab[bb] = 0
						}
						switch pol.mmPolicy {
						case 0:
							m.mmTab[bb] = s.min
						case 1:
							m.mmTab[bb] = s.max
						default:
							m.mmTab[bb] = 100000
						}
						e := m.it.zero(entryT).(*oStruct)
						e.fields["bb"] = oPtr{bb}
						e.fields["child"] = oPtr{s.node}
						es = append(es, e)
						if s.min < lo {
							lo = s.min
						}
						if s.max > hi {
							hi = s.max
						}
					}
					n := mkNode(false, es)
					for _, s := range subs {
						s.node.fields["parent"] = oPtr{n}
					}
					return sub{n, lo, hi}
				}
				var root sub
				switch {
				case len(tr.leaves) == 1:
					root = leafSubs[0]
				case tr.groups == nil:
					root = wrap(leafSubs)
				default:
					var inner []sub
					for _, g := range tr.groups {
						var ss []sub
						for _, li := range g {
							ss = append(ss, leafSubs[li])
						}
						inner = append(inner, wrap(ss))
					}
					root = wrap(inner)
				}
				tree := m.it.zero(treeT).(*oStruct)
				tree.fields["root"] = oPtr{root.node}
				tree.fields["size"] = oInt(nObj)
				tree.fields["MinChildren"] = oInt(1)
				tree.fields["MaxChildren"] = oInt(3)
				query := m.it.point(cm.ptT, 2000, 2002)
				sorted := append([]int64{}, dist...)
				sort.Slice(sorted, func(i, j int) bool { return sorted[i] < sorted[j] })
				describe := func() string {
					return fmt.Sprintf("object distances %v, %s", dist, pol.name)
				}
				// 1-NN
				if vd(keyNN).bad == "" && vd(keyNN).unk == "" {
					c.Evals(1)
					res, why := m.it.Call(nn, oPtr{tree}, []oval{query}, 0)
					switch {
					case why != "":
						if strings.HasPrefix(why, "panic:") {
							vd(keyNN).bad = fmt.Sprintf("with %s the search panics (%s)", describe(), why)
						} else {
							vd(keyNN).unk = "not interpretable: " + why
						}
					default:
						idx, ok := m.objectOf(res[0])
						if !ok {
							vd(keyNN).bad = fmt.Sprintf("with %s the result is %s, not a stored object", describe(), showVal(res[0]))
						} else if dist[idx] != sorted[0] {
							vd(keyNN).bad = fmt.Sprintf("with %s the object at distance %d is returned although one at %d is stored", describe(), dist[idx], sorted[0])
						}
					}
				}
				// k-NN
				if vd(keyK).bad == "" && vd(keyK).unk == "" {
					for _, k := range []int{1, 2, nObj, nObj + 1} {
						c.Evals(1)
						res, why := m.it.Call(knn, oPtr{tree}, []oval{oInt(k), query}, 0)
						if why != "" {
							if strings.HasPrefix(why, "panic:") {
								vd(keyK).bad = fmt.Sprintf("with %s and k=%d the search panics (%s)", describe(), k, why)
							} else {
								vd(keyK).unk = "not interpretable: " + why
							}
							break
						}
						out, ok := res[0].(oSlice)
						if !ok || out.length() != k {
							vd(keyK).bad = fmt.Sprintf("with %s and k=%d the result is %s, want a list of k slots", describe(), k, showVal(res[0]))
							break
						}
						var got []int64
						seen := map[int]bool{}
						msg := ""
						for i := 0; i < k; i++ {
							if eq, ok := oEqual(out.at(i), oNil{}); ok && eq {
								if i < nObj {
									msg = fmt.Sprintf("slot %d is nil although %d objects are stored", i, nObj)
								}
								continue
							}
							idx, ok := m.objectOf(out.at(i))
							if !ok {
								msg = fmt.Sprintf("slot %d holds %s, not a stored object", i, showVal(out.at(i)))
								break
							}
							if i >= nObj {
								msg = fmt.Sprintf("slot %d is filled although only %d objects are stored", i, nObj)
							}
							if seen[idx] {
								msg = "an object is returned twice"
							}
							seen[idx] = true
							got = append(got, dist[idx])
						}
						if msg == "" {
							for i, d := range got {
								if i < len(sorted) && d != sorted[i] {
									msg = fmt.Sprintf("the distances of the returned objects are %v, the %d smallest stored are %v", got, len(got), sorted[:len(got)])
									break
								}
							}
						}
						if msg != "" {
							vd(keyK).bad = fmt.Sprintf("with %s and k=%d: %s", describe(), k, msg)
							break
						}
					}
				}
			}
		}
	}
	for _, k := range vorder {
		v := verdicts[k]
		rule := "C12.R2"
		if strings.Contains(k, "NearestNeighbors#") {
			rule = "C12.R1"
		} else if strings.Contains(k, "#ties") {
			rule = "C12.R3"
		}
		switch {
		case v.bad != "":
			c.Bad(rule, k, pos, "%s", v.bad)
		case v.unk != "":
			c.Unk(rule, k, pos, "%s", v.unk)
		default:
			c.OK(rule, k, pos, "every weak ordering of the object distances and every admissible choice of inner bounds: the objects at the k smallest distances, in order")
		}
	}
}

func (m *c12m) objectOf(v oval) (int, bool) {
	if iv, ok := v.(oIface); ok {
		v = iv.dyn
	}
	p, ok := v.(oPtr)
	if !ok || p.s == nil {
		return 0, false
	}
	i, ok := m.objIndex[p.s]
	return i, ok
}

// rootLike: zero, or a single square-root atom with coefficient one (so that p·p = P means p = √P,
// not −√P or a sum that happens to square to P).
func rootLike(p poly) bool {
	if len(p) == 0 {
		return true
	}
	if len(p) != 1 {
		return false
	}
	for k, c := range p {
		if c.Cmp(big.NewRat(1, 1)) != 0 || strings.Contains(k, "*") {
			return false
		}
		return strings.HasPrefix(k, "sqrt(")
	}
	return false
}
