package main

// C11.R6: the box relations the tree is built on, found by signature and classified by value.
//
// Every package-level function over two boxes, or a box and a point, is interpreted on all weak
// orderings of the operands' coordinates (both boxes valid) and compared with the relations an
// R-tree needs: closed intersection, containment of the second box in the first, the lattice
// join (in place, as a result, or into a third box) and closed point containment.  A function
// the tree operations reach that is none of these is reported.

import (
	"go/ast"
	"go/types"
	"sort"
)

func c11predicates(c *Ctx, p *pkgT) {
	e := newC04E2(c)
	isBoundsPtr := func(t types.Type) bool {
		pt, ok := t.(*types.Pointer)
		return ok && isNamed(pt.Elem(), modPath, "Bounds")
	}
	isPoint := func(t types.Type) bool { return isNamed(t, modPath, "Point") }
	// functions reachable from the public operations
	reach := map[*types.Func]bool{}
	var visit func(f *types.Func)
	visit = func(f *types.Func) {
		if f == nil || reach[f] || c.P.Decl(f) == nil {
			return
		}
		reach[f] = true
		ast.Inspect(c.P.Decl(f).Body, func(n ast.Node) bool {
			if call, ok := n.(*ast.CallExpr); ok {
				visit(callee(p.TypesInfo, call))
			}
			return true
		})
	}
	for _, name := range []string{"Insert", "Delete", "SearchIntersect"} {
		visit(c.P.Method("index/rtree", "Rtree", name))
	}
	var funcs []*types.Func
	for _, fn := range c.P.RepoFuncs() {
		if c.P.DeclPkg(fn) == p && fn.Type().(*types.Signature).Recv() == nil {
			funcs = append(funcs, fn)
		}
	}
	sort.Slice(funcs, func(i, j int) bool { return c.P.PosLess(c.P.Decl(funcs[i]).Pos(), c.P.Decl(funcs[j]).Pos()) })
	pairs := e.boxPairs(false)
	found := map[string]bool{}
	for _, f := range funcs {
		sig := f.Type().(*types.Signature)
		ps, rs := sig.Params(), sig.Results()
		name, pos := c.P.FuncName(f), c.P.Decl(f).Pos()
		allBoxes := ps.Len() >= 2
		for i := 0; i < ps.Len(); i++ {
			if !isBoundsPtr(ps.At(i).Type()) {
				allBoxes = false
			}
		}
		switch {
		case allBoxes && ps.Len() == 2 && rs.Len() == 1 && types.Identical(rs.At(0).Type(), types.Typ[types.Bool]):
			// a relation between two boxes
			isInter, isCont, isContRev := true, true, true
			unk := ""
			n := 0
			for _, bp := range pairs {
				n++
				res, why := e.it.Call(f, nil, []oval{oPtr{e.mk(bp.a)}, oPtr{e.mk(bp.b)}}, 0)
				if why != "" {
					unk = why
					break
				}
				got, ok := res[0].(oBool)
				if !ok {
					unk = "result " + showVal(res[0])
					break
				}
				inter := bp.a.minx <= bp.b.maxx && bp.b.minx <= bp.a.maxx && bp.a.miny <= bp.b.maxy && bp.b.miny <= bp.a.maxy
				cont := bp.b.minx >= bp.a.minx && bp.b.miny >= bp.a.miny && bp.b.maxx <= bp.a.maxx && bp.b.maxy <= bp.a.maxy
				contRev := bp.a.minx >= bp.b.minx && bp.a.miny >= bp.b.miny && bp.a.maxx <= bp.b.maxx && bp.a.maxy <= bp.b.maxy
				isInter = isInter && bool(got) == inter
				isCont = isCont && bool(got) == cont
				isContRev = isContRev && bool(got) == contRev
			}
			c.Evals(n)
			switch {
			case unk != "":
				c.Unk("C11.R6", name, pos, "outside the order fragment: %s", unk)
			case isInter:
				found["intersect"] = true
				c.OK("C11.R6", name, pos, "true exactly when the closed boxes share a point, in all %d orderings", n)
			case isCont || isContRev:
				found["contains"] = true
				c.OK("C11.R6", name, pos, "true exactly when one box lies within the other (closed), in all %d orderings", n)
			case reach[f]:
				c.Bad("C11.R6", name, pos, "a relation between two boxes used by the tree that is neither closed intersection nor containment (touching, degenerate or coincident boxes are classified wrongly)")
			}
		case allBoxes && (ps.Len() == 2 || ps.Len() == 3) && (rs.Len() == 0 || (rs.Len() == 1 && isBoundsPtr(rs.At(0).Type()))):
			// a join: into the first argument, or returned
			good := true
			unk := ""
			n := 0
			for _, bp := range pairs {
				n++
				a, b := e.mk(bp.a), e.mk(bp.b)
				args := []oval{oPtr{a}, oPtr{b}}
				var target *oStruct
				if ps.Len() == 3 {
					target = e.mk(oBox{0, 0, 0, 0})
					args = []oval{oPtr{target}, oPtr{a}, oPtr{b}}
				}
				res, why := e.it.Call(f, nil, args, 0)
				if why != "" {
					unk = why
					break
				}
				want := join(bp.a, bp.b, false, false)
				var got oBox
				var ok bool
				switch {
				case rs.Len() == 1:
					got, ok = boxOf(res[0])
				case target != nil:
					got, ok = boxOf(target)
				default:
					got, ok = boxOf(a)
				}
				if !ok || got != want {
					good = false
					break
				}
				if gb, _ := boxOf(b); gb != bp.b {
					good = false
					break
				}
			}
			c.Evals(n)
			switch {
			case unk != "":
				c.Unk("C11.R6", name, pos, "outside the order fragment: %s", unk)
			case good:
				found["join"] = true
				c.OK("C11.R6", name, pos, "the smallest box holding both operands, in all %d orderings; the second operand is unchanged", n)
			case reach[f]:
				c.Bad("C11.R6", name, pos, "a box combination used by the tree that is not the smallest box holding both operands: envelopes computed with it are not exact")
			}
		case ps.Len() == 2 && isBoundsPtr(ps.At(0).Type()) && isPoint(ps.At(1).Type()) && rs.Len() == 1 && types.Identical(rs.At(0).Type(), types.Typ[types.Bool]):
			good, unk := true, ""
			n := 0
			for _, ox := range weakOrderings(3) {
				if ox[0] > ox[1] {
					continue
				}
				for _, oy := range weakOrderings(3) {
					if oy[0] > oy[1] {
						continue
					}
					n++
					res, why := e.it.Call(f, nil, []oval{oPtr{e.mk(oBox{ox[0], oy[0], ox[1], oy[1]})}, e.it.point(e.pt, ox[2], oy[2])}, 0)
					if why != "" {
						unk = why
						break
					}
					want := ox[2] >= ox[0] && ox[2] <= ox[1] && oy[2] >= oy[0] && oy[2] <= oy[1]
					if got, ok := res[0].(oBool); !ok || bool(got) != want {
						good = false
					}
				}
			}
			c.Evals(n)
			switch {
			case unk != "":
				c.Unk("C11.R6", name, pos, "outside the order fragment: %s", unk)
			case good:
				c.OK("C11.R6", name, pos, "closed point containment in all %d orderings", n)
			default:
				c.Bad("C11.R6", name, pos, "not closed point containment (border points are classified wrongly)")
			}
		}
	}
	for _, need := range []string{"intersect", "contains", "join"} {
		if !found[need] {
			c.Unk("C11.R6", "index/rtree#"+need, 0, "no package-level function over two boxes implements this relation: the search, the leaf lookup or the envelope maintenance computes it some other way")
		}
	}
}
