package main

// Premises shared between properties.  A property whose code relies on a helper that another
// property is about re-establishes that helper's obligations under a rule of its own: a change
// to the shared helper then fails the checks of every property that stands on it, not only of
// the one that names it.  The analyses are the other property's; only the rule they are filed
// under changes.

import (
	"go/token"
)

// premiseBounds: Len(), Bounds() and Points() of all eight geometry types are the vertex count,
// the smallest box and the vertices in order (C04.R2/R3's model), filed under rule.
func premiseBounds(c *Ctx, rule, why string) {
	c.Rule(rule, "premise shared with C04.R1–R3 (same analyses): Extend is the lattice join, Overlaps holds exactly when the closed boxes share a point (every weak ordering of the coordinates), Bounds() of every geometry type is the smallest box around its vertices, Len() their number and Points() yields them in storage order, on model geometries with empty members in every position — "+why)
	c04model(c, rule, rule)
	// … and the box algebra those boxes are combined with (C04.R1): Extend a lattice join,
	// Overlaps ⇔ the closed boxes share a point, Empty, Copy, box ∩ box — for every weak ordering
	c.Alias("C04.R1", rule)
	newC04E2(c).lattice()
	c.Alias("C04.R1", "")
}

// premiseEqual: SR.Equal decides sameness of references and NewTransform returns the identity
// exactly when it says so (C20.R5/R4's models), filed under rule.
func premiseEqual(c *Ctx, rule, why string) {
	c.Rule(rule, "premise shared with C20.R5/R4 (same model evaluation): SR.Equal is true for two parses of one text and false when any float, set/unset marker, string, flag or datum-shift value differs, and NewTransform returns the nil (identity) transformer exactly when Equal holds of its two references — "+why)
	p := c.P.Pkg("proj")
	m, parse := newC20m(c)
	if p == nil || m == nil {
		c.Unk(rule, "proj.(*SR).Equal", token.NoPos, "package proj or proj.Parse does not resolve")
		return
	}
	c.Alias("C20.R5", rule)
	c.Alias("C20.R4", rule)
	defer func() {
		c.Alias("C20.R5", "")
		c.Alias("C20.R4", "")
	}()
	run := func(text string) (*oStruct, string) { return m.run(parse, text) }
	c20equal(c, m, run, c.P.Decl(parse).Pos())
	(&c20{c: c, info: p.TypesInfo, p: p}).identity()
}

// premiseNearest: the nearest-neighbour queries of the R-tree return the nearest stored objects
// (C12.R1–R4, R6's models), filed under rule.
func premiseNearest(c *Ctx, rule, why string) {
	c.Rule(rule, "premise shared with C12.R1–R4 and R6 (same model evaluations): NearestNeighbor and NearestNeighbors return the stored objects at the least distances on hand-built trees under every ordering of the distances, the two point-to-box bounds are MINDIST² and MINMAXDIST², and both queries agree with a linear scan at three scales — "+why)
	for _, r := range []string{"C12.R1", "C12.R2", "C12.R3", "C12.R4", "C12.R5", "C12.R6"} {
		c.Alias(r, rule)
	}
	defer func() {
		for _, r := range []string{"C12.R1", "C12.R2", "C12.R3", "C12.R4", "C12.R5", "C12.R6"} {
			c.Alias(r, "")
		}
	}()
	c12run(c, false)
}
