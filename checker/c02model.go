package main

// Model evaluation of point-in-polygon (C02.R1–R4).
//
// Point.Within is interpreted on polygons whose vertices are distinct abstract values, with
// the two segment predicates — the package's (Point, Point, Point) bool functions — replaced
// by an oracle.  The query point lies inside (or on the border of) every ring's box, so the
// box pre-filter may not skip anything.
//
//	coverage : with the oracle answering false everywhere, each predicate is asked about exactly
//	           the segments of each closed ring — (v[k-1], v[k]) for every k plus the closing pair
//	           when the ring is not spelled closed — once each, for every ring of every member
//	on edge  : the oracle answering true for one segment under one predicate makes the result
//	           OnEdge (that predicate is the on-segment test), whatever the other says
//	parity   : with the other predicate (the ray test) true on a set S of segments across rings
//	           and member polygons, the result is Inside iff |S| is odd
//	receivers: MultiPoint / LineString / MultiLineString / Polygon.Within, with the per-vertex
//	           classifier replaced by an oracle, return Outside iff some vertex is Outside
//	           (also for empty receivers and empty members: not Outside)

import (
	"fmt"
	"go/token"
	"go/types"
)

type segCall struct {
	fn   *types.Func
	a, b oBoxPt
}

func c02model(c *Ctx, a *c02) {
	m := newClipModel(c)
	if m.ptT == nil || m.polyT == nil || m.mpolyT == nil || m.bt == nil {
		c.Unk("C02.R1", "geom#within-model", token.NoPos, "geometry types do not resolve")
		return
	}
	m.it.maxDepth = 48
	within := c.P.Method("geom", "Point", "Within")
	if within == nil || c.P.Decl(within) == nil {
		c.Unk("C02.R1", "geom.(Point).Within", token.NoPos, "API anchor does not resolve")
		return
	}
	pkg := c.P.Pkg("geom")
	var preds []*types.Func
	for _, fn := range c.P.RepoFuncs() {
		if c.P.DeclPkg(fn) == pkg && a.isSegPred(fn) {
			preds = append(preds, fn)
		}
	}
	isPred := func(f *types.Func) bool {
		for _, p := range preds {
			if p == f {
				return true
			}
		}
		return false
	}
	var calls []segCall
	truthy := map[string]bool{} // key fn|a|b (unordered segment)
	key := func(fn *types.Func, x, y oBoxPt) string {
		if x.x > y.x || (x.x == y.x && x.y > y.y) {
			x, y = y, x
		}
		return fmt.Sprintf("%s|%d,%d|%d,%d", fn.Name(), x.x, x.y, y.x, y.y)
	}
	pOf := func(v oval) (oBoxPt, bool) {
		st, ok := v.(*oStruct)
		if !ok {
			return oBoxPt{}, false
		}
		fx, ok1 := st.fields["X"].(oFloat)
		fy, ok2 := st.fields["Y"].(oFloat)
		return oBoxPt{fx.r, fy.r}, ok1 && ok2
	}
	m.it.stub = func(f *types.Func, recv oval, args []oval) ([]oval, bool) {
		if f.Pkg() != nil && f.Pkg().Path() == "reflect" {
			return []oval{oBool(false)}, true
		}
		if !isPred(f) || len(args) != 3 {
			return nil, false
		}
		x, ok1 := pOf(args[1])
		y, ok2 := pOf(args[2])
		if !ok1 || !ok2 {
			return []oval{oTop{"segment predicate on non-points"}}, true
		}
		calls = append(calls, segCall{f, x, y})
		return []oval{oBool(truthy[key(f, x, y)])}, true
	}
	sc := pkg.Types.Scope()
	val := func(n string) int64 { k, _ := constInt64Obj(sc.Lookup(n)); return k }
	outside, inside, onEdge := val("Outside"), val("Inside"), val("OnEdge")
	// ---- geometry: rings around the query point q = (0, 1)
	q := m.it.point(m.ptT, 0, 1)
	next := int64(0)
	ringT := m.polyT.Underlying().(*types.Slice).Elem()
	mkRing := func(n int, closed, far bool) (oSlice, []oBoxPt) {
		var pts []oBoxPt
		for i := 0; i < n; i++ {
			next += 4
			v := next
			if i%2 == 0 {
				v = -next
			}
			if far {
				v = next + 4000 // the whole ring up and to the right of the query point
			}
			pts = append(pts, oBoxPt{v, v + 2})
		}
		if closed && n > 0 {
			pts = append(pts, pts[0])
		}
		var vals []oval
		for _, p := range pts {
			vals = append(vals, m.it.point(m.ptT, p.x, p.y))
		}
		return m.sliceOf(ringT, vals), pts
	}
	type shape struct {
		name      string
		val       oval
		rings     [][]oBoxPt
		far       [][]oBoxPt // rings whose box does not hold the query point (they may be skipped)
		prefilter bool       // a shape that is about what the box pre-filter may skip
	}
	mkPolyFar := func(name string, spec [][3]int) shape { // {n, closed, far}
		var rs []oval
		sh := shape{name: name}
		for _, sp := range spec {
			r, pts := mkRing(sp[0], sp[1] == 1, sp[2] == 1)
			rs = append(rs, r)
			if sp[2] == 1 {
				sh.far = append(sh.far, pts)
				sh.prefilter = true
			} else {
				sh.rings = append(sh.rings, pts)
			}
		}
		sh.val = m.sliceOf(m.polyT, rs)
		return sh
	}
	mkPoly := func(name string, spec [][2]int) shape { // {n, closed}
		var s3 [][3]int
		for _, sp := range spec {
			s3 = append(s3, [3]int{sp[0], sp[1], 0})
		}
		return mkPolyFar(name, s3)
	}
	var shapes []shape
	shapes = append(shapes, mkPoly("Polygon(one open ring of 3)", [][2]int{{3, 0}}))
	shapes = append(shapes, mkPoly("Polygon(one closed ring of 4+1)", [][2]int{{4, 1}}))
	shapes = append(shapes, mkPoly("Polygon(closed degenerate ring a,b,a)", [][2]int{{2, 1}}))
	shapes = append(shapes, mkPoly("Polygon(shell and two holes, mixed spelling)", [][2]int{{4, 0}, {3, 1}, {3, 0}}))
	{
		p1 := mkPoly("", [][2]int{{3, 1}, {3, 0}})
		p2 := mkPoly("", [][2]int{{4, 0}})
		shapes = append(shapes, shape{name: "MultiPolygon(2 members)", val: m.sliceOf(m.mpolyT, []oval{p1.val, p2.val}), rings: append(append([][]oBoxPt{}, p1.rings...), p2.rings...)})
	}
	// rings in an unusual order: the ring around the query point comes after a ring that lies
	// away from it (a hole listed before its shell, two disjoint rings, an empty first ring)
	shapes = append(shapes, mkPolyFar("Polygon(a ring away from the query point listed before the ring around it)", [][3]int{{3, 1, 1}, {4, 0, 0}}))
	shapes = append(shapes, mkPolyFar("Polygon(rings around the query point before and after a ring away from it)", [][3]int{{3, 0, 0}, {4, 1, 1}, {3, 1, 0}}))
	shapes = append(shapes, mkPolyFar("Polygon(an empty ring listed before the ring around the query point)", [][3]int{{0, 0, 1}, {3, 0, 0}}))
	{
		p1 := mkPolyFar("", [][3]int{{4, 1, 1}})
		p2 := mkPolyFar("", [][3]int{{3, 0, 1}, {3, 1, 0}})
		shapes = append(shapes, shape{name: "MultiPolygon(a member away from the query point, then a member whose second ring is around it)", val: m.sliceOf(m.mpolyT, []oval{p1.val, p2.val}),
			rings: p2.rings, far: append(append([][]oBoxPt{}, p1.far...), p2.far...), prefilter: true})
	}
	// rings given vertex by vertex: the query point q = (0, 1) on the border of the ring's box, and
	// inside the box only thanks to the last vertex of an unclosed ring
	custom := func(name string, pts []oBoxPt) shape {
		var vals []oval
		for _, p := range pts {
			vals = append(vals, m.it.point(m.ptT, p.x, p.y))
		}
		return shape{name: name, val: m.sliceOf(m.polyT, []oval{m.sliceOf(ringT, vals)}), rings: [][]oBoxPt{pts}, prefilter: true}
	}
	shapes = append(shapes, custom("Polygon(query point on the left border of the ring's box)", []oBoxPt{{0, -601}, {604, 607}, {608, -611}}))
	shapes = append(shapes, custom("Polygon(query point on the top border of the ring's box)", []oBoxPt{{-700, 1}, {704, -707}, {-708, -711}}))
	shapes = append(shapes, custom("Polygon(open ring whose last vertex alone extends the box over the query point)", []oBoxPt{{804, -807}, {808, 811}, {-812, 815}}))
	segsOf := func(r []oBoxPt) [][2]oBoxPt {
		var out [][2]oBoxPt
		for k := 1; k < len(r); k++ {
			out = append(out, [2]oBoxPt{r[k-1], r[k]})
		}
		if len(r) > 0 && r[len(r)-1] != r[0] {
			out = append(out, [2]oBoxPt{r[len(r)-1], r[0]})
		}
		return out
	}
	run := func(sh shape) (int64, string) {
		calls = nil
		res, why := m.it.Call(within, q, []oval{m.it.ifaceOf(sh.val)}, 0)
		if why != "" {
			return -1, why
		}
		st, ok := res[0].(oInt)
		if !ok {
			return -1, "result is " + showVal(res[0])
		}
		return int64(st), ""
	}
	var onSeg, ray *types.Func
	covMsg, edgeMsg, parMsg, unk := "", "", "", ""
	runs := 0
	var last shape
	for _, sh := range shapes {
		if covMsg != "" || edgeMsg != "" || parMsg != "" || unk != "" {
			break
		}
		last = sh
		var segs, farSegs [][2]oBoxPt
		for _, r := range sh.rings {
			segs = append(segs, segsOf(r)...)
		}
		for _, r := range sh.far {
			farSegs = append(farSegs, segsOf(r)...)
		}
		// --- coverage
		truthy = map[string]bool{}
		runs++
		st, why := run(sh)
		if why != "" {
			if len(why) > 6 && why[:6] == "panic:" {
				covMsg = fmt.Sprintf("%s: Point.Within panics: %s", sh.name, why)
			} else {
				unk = fmt.Sprintf("%s: not interpretable: %s", sh.name, why)
			}
			break
		}
		if st != outside {
			parMsg = fmt.Sprintf("%s: no segment is crossed and none contains the point, yet the result is %d (want Outside)", sh.name, st)
			break
		}
		covCalls := append([]segCall{}, calls...) // the questions of the all-false run
		for _, pf := range preds {
			count := map[string]int{}
			n := 0
			for _, cl := range calls {
				if cl.fn == pf {
					count[key(pf, cl.a, cl.b)]++
					n++
				}
			}
			if n == 0 {
				continue // a predicate not used by the classifier (e.g. used elsewhere only)
			}
			doneKeys := map[string]bool{}
			for _, s := range segs {
				k := key(pf, s[0], s[1])
				if doneKeys[k] {
					continue
				}
				doneKeys[k] = true
				want := 0
				for _, t := range segs {
					if key(pf, t[0], t[1]) == k {
						want++
					}
				}
				if count[k] != want && covMsg == "" {
					covMsg = fmt.Sprintf("%s: %s is asked %d times about the segment v%d–v%d of a ring, want %d (every segment of the closed ring, the closing pair included, exactly once)", sh.name, pf.Name(), count[k], s[0].x/4, s[1].x/4, want)
				}
				delete(count, k)
			}
			// a ring whose box does not hold the point may be skipped, or scanned like the others
			for _, s := range farSegs {
				k := key(pf, s[0], s[1])
				if count[k] > 1 && covMsg == "" {
					covMsg = fmt.Sprintf("%s: %s is asked %d times about the segment v%d–v%d of a ring", sh.name, pf.Name(), count[k], s[0].x/4, s[1].x/4)
				}
				delete(count, k)
			}
			for k, v := range count {
				if v > 0 && covMsg == "" {
					covMsg = fmt.Sprintf("%s: %s is asked about %s, which is not a segment of any ring", sh.name, pf.Name(), k)
				}
			}
		}
		if covMsg != "" {
			break
		}
		// --- roles and single-segment effects
		for _, pf := range preds {
			used := false
			for _, cl := range covCalls {
				if cl.fn == pf {
					used = true
				}
			}
			if !used {
				continue
			}
			for _, s := range segs {
				truthy = map[string]bool{key(pf, s[0], s[1]): true}
				runs++
				st, why := run(sh)
				if why != "" {
					unk = fmt.Sprintf("%s: not interpretable: %s", sh.name, why)
					break
				}
				dup := 0
				for _, t := range segs {
					if key(pf, t[0], t[1]) == key(pf, s[0], s[1]) {
						dup++
					}
				}
				switch {
				case st == onEdge:
					if ray == pf {
						edgeMsg = fmt.Sprintf("%s: %s behaves as the on-segment test for one segment and as the ray test for another", sh.name, pf.Name())
					}
					onSeg = pf
				case st == inside && dup%2 == 1, st == outside && dup%2 == 0:
					if onSeg == pf {
						edgeMsg = fmt.Sprintf("%s: the point lies on the segment v%d–v%d (%s says so) but the result is %d, want OnEdge at once", sh.name, s[0].x/4, s[1].x/4, pf.Name(), st)
					}
					ray = pf
				default:
					parMsg = fmt.Sprintf("%s: with %s true for the single segment v%d–v%d the result is %d (one crossing must give Inside, a point on a segment OnEdge)", sh.name, pf.Name(), s[0].x/4, s[1].x/4, st)
				}
			}
		}
		if onSeg == nil || ray == nil {
			if unk == "" && edgeMsg == "" && parMsg == "" {
				unk = fmt.Sprintf("%s: could not tell the on-segment test and the ray test apart among %d (Point, Point, Point) bool functions", sh.name, len(preds))
			}
			break
		}
		// --- on-edge dominates crossings
		if len(segs) >= 2 {
			truthy = map[string]bool{key(onSeg, segs[len(segs)-1][0], segs[len(segs)-1][1]): true}
			for _, s := range segs {
				truthy[key(ray, s[0], s[1])] = true
			}
			runs++
			if st, why := run(sh); why == "" && st != onEdge && edgeMsg == "" {
				edgeMsg = fmt.Sprintf("%s: the point lies on the last segment of the last ring, but with crossings elsewhere the result is %d, want OnEdge", sh.name, st)
			}
		}
		// --- parity across rings and members
		var subsets [][]int
		for i := range segs {
			for j := i + 1; j < len(segs); j++ {
				subsets = append(subsets, []int{i, j})
			}
		}
		all := []int{}
		for i := range segs {
			all = append(all, i)
		}
		subsets = append(subsets, all)
		if len(segs) >= 3 {
			subsets = append(subsets, []int{0, len(segs) / 2, len(segs) - 1})
		}
		for _, sub := range subsets {
			truthy = map[string]bool{}
			cnt := map[string]int{}
			for _, i := range sub {
				cnt[key(ray, segs[i][0], segs[i][1])]++
			}
			crossings := 0
			for k := range cnt {
				truthy[k] = true
				// a segment listed twice in the polygon (degenerate ring) is crossed twice
				for _, t := range segs {
					if key(ray, t[0], t[1]) == k {
						crossings++
					}
				}
			}
			runs++
			st, why := run(sh)
			if why != "" {
				unk = fmt.Sprintf("%s: not interpretable: %s", sh.name, why)
				break
			}
			want := outside
			if crossings%2 == 1 {
				want = inside
			}
			if st != want && parMsg == "" {
				parMsg = fmt.Sprintf("%s: the ray crosses %d segments (across rings and member polygons) and the result is %d, want %d (even-odd rule)", sh.name, crossings, st, want)
			}
		}
	}
	c.Evals(runs)
	a.onSeg, a.ray = onSeg, ray
	pos := c.P.Decl(within).Pos()
	if unk != "" {
		c.Unk("C02.R1", "geom#point-in-polygon(coverage)", pos, "%s", unk)
		c.Unk("C02.R2", "geom#point-in-polygon(combination)", pos, "%s", unk)
	} else {
		report3(c, "C02.R1", "geom#point-in-polygon(coverage)", pos, covMsg, "", "both segment predicates are asked about exactly the segments of every closed ring of every member, once each")
		// C02.R3: the pre-filter skips nothing it must not — the same runs, on the rings whose box
		// the query point only touches or enters only thanks to the last vertex of an unclosed ring
		boxMsg := ""
		for _, msg := range []string{covMsg, edgeMsg, parMsg} {
			if msg != "" && last.prefilter {
				boxMsg = msg
			}
		}
		report3(c, "C02.R3", "geom#point-in-polygon(prefilter)", pos, boxMsg, "", "with the query point on the left or top border of a ring's box, inside the box only thanks to the last vertex of an unclosed ring, or in a ring listed after a ring (or member) that lies away from it, every segment of the rings whose box holds the point is still asked and the results are those of the full scan")
		m2 := edgeMsg
		if m2 == "" {
			m2 = parMsg
		}
		report3(c, "C02.R2", "geom#point-in-polygon(combination)", pos, m2, "", "a point on any segment gives OnEdge at once; otherwise Inside iff the number of crossed segments over all rings and members is odd")
	}
	// ---- receivers (R4): per-vertex classifier replaced by an oracle
	c02receivers(c, m, a, q)
}

func c02receivers(c *Ctx, m *clipModel, a *c02, q *oStruct) {
	sc := c.P.Pkg("geom").Types.Scope()
	val := func(n string) int64 { k, _ := constInt64Obj(sc.Lookup(n)); return k }
	outside, inside, onEdge := val("Outside"), val("Inside"), val("OnEdge")
	classifier := a.polyal
	answers := map[int64]int64{} // vertex x-rank → status
	var asked []int64
	m.it.stub = func(f *types.Func, recv oval, args []oval) ([]oval, bool) {
		if f.Pkg() != nil && f.Pkg().Path() == "reflect" {
			return []oval{oBool(false)}, true
		}
		if f != classifier || len(args) != 2 {
			return nil, false
		}
		st, ok := args[0].(*oStruct)
		if !ok {
			return []oval{oTop{"classifier on a non-point"}}, true
		}
		fx, _ := st.fields["X"].(oFloat)
		asked = append(asked, fx.r)
		if v, ok := answers[fx.r]; ok {
			return []oval{oInt(v)}, true
		}
		return []oval{oInt(inside)}, true
	}
	// the polygon argument: a square around everything the receivers contain
	big := func() oval {
		r := []oval{m.it.point(m.ptT, -9000, -8998), m.it.point(m.ptT, 9000, -8996), m.it.point(m.ptT, 9004, 9006), m.it.point(m.ptT, -9008, 9010)}
		ringT := m.polyT.Underlying().(*types.Slice).Elem()
		return m.it.ifaceOf(m.sliceOf(m.polyT, []oval{m.sliceOf(ringT, r)}))
	}()
	mpT := c.P.NamedType("geom", "MultiPoint")
	type recvCase struct {
		tn, name string
		val      oval
		verts    []oBoxPt
	}
	flat := func(rs [][]oBoxPt) []oBoxPt {
		var o []oBoxPt
		for _, r := range rs {
			o = append(o, r...)
		}
		return o
	}
	var cases []recvCase
	if mpT != nil {
		for _, n := range []int{0, 1, 3} {
			s, pts := m.ring(mpT, m.ptT, n)
			cases = append(cases, recvCase{"MultiPoint", fmt.Sprintf("MultiPoint(%d)", n), s, pts})
		}
	}
	for _, n := range []int{0, 1, 3} {
		s, pts := m.ring(m.lsT, m.ptT, n)
		cases = append(cases, recvCase{"LineString", fmt.Sprintf("LineString(%d)", n), s, pts})
	}
	for _, sh := range [][]int{{}, {2}, {2, 0, 3}, {0, 2}, {3, 0}} {
		var ls []oval
		var all [][]oBoxPt
		for _, n := range sh {
			l, pts := m.ring(m.lsT, m.ptT, n)
			ls, all = append(ls, l), append(all, pts)
		}
		cases = append(cases, recvCase{"MultiLineString", fmt.Sprintf("MultiLineString%v", sh), m.sliceOf(m.mlsT, ls), flat(all)})
		pg, pr := m.polygon(sh...)
		cases = append(cases, recvCase{"Polygon", fmt.Sprintf("Polygon%v", sh), pg, flat(pr)})
	}
	verdict := map[string]*[2]string{}
	runs := 0
	for _, cs := range cases {
		fn := c.P.Method("geom", cs.tn, "Within")
		if fn == nil || c.P.Decl(fn) == nil {
			continue
		}
		v := verdict[cs.tn]
		if v == nil {
			v = &[2]string{}
			verdict[cs.tn] = v
		}
		if v[0] != "" || v[1] != "" {
			continue
		}
		// scenarios: nobody outside; exactly vertex k outside (each k); some on edge
		scen := []map[int64]int64{{}}
		for _, p := range cs.verts {
			scen = append(scen, map[int64]int64{p.x: outside})
		}
		if len(cs.verts) > 0 {
			e := map[int64]int64{}
			for _, p := range cs.verts {
				e[p.x] = onEdge
			}
			scen = append(scen, e)
			last := cs.verts[len(cs.verts)-1]
			scen = append(scen, map[int64]int64{cs.verts[0].x: onEdge, last.x: outside})
		}
		for _, sn := range scen {
			answers, asked = sn, nil
			runs++
			res, why := m.it.Call(fn, cs.val, []oval{big}, 0)
			if why != "" {
				if len(why) > 6 && why[:6] == "panic:" {
					v[0] = fmt.Sprintf("%s.Within panics: %s", cs.name, why)
				} else {
					v[1] = fmt.Sprintf("%s.Within: not interpretable: %s", cs.name, why)
				}
				break
			}
			if len(cs.verts) > 0 && len(asked) == 0 {
				// the vertices are classified without the function the oracle stands in for (inlined,
				// or through a copy of it specialised for this receiver): its answers decide nothing here
				v[1] = fmt.Sprintf("%s.Within classifies its vertices without calling %s, which Point.Within goes through and the oracle replaces: the per-vertex classification of this receiver is not modelled", cs.name, c.P.FuncName(classifier))
				break
			}
			st, ok := res[0].(oInt)
			anyOut := false
			for _, s := range sn {
				if s == outside {
					anyOut = true
				}
			}
			if !ok {
				v[1] = fmt.Sprintf("%s.Within returns %s", cs.name, showVal(res[0]))
				break
			}
			if anyOut != (int64(st) == outside) {
				if anyOut {
					v[0] = fmt.Sprintf("%s: a vertex is Outside the polygon but Within returns %d, want Outside", cs.name, int64(st))
				} else {
					v[0] = fmt.Sprintf("%s: no vertex is Outside the polygon (the receiver has %d vertices) but Within returns Outside", cs.name, len(cs.verts))
				}
				break
			}
		}
	}
	c.Evals(runs)
	for _, tn := range []string{"MultiPoint", "LineString", "MultiLineString", "Polygon"} {
		fn := c.P.Method("geom", tn, "Within")
		label, pos := "geom."+tn+".Within", token.NoPos
		if fn != nil && c.P.Decl(fn) != nil {
			label, pos = c.P.FuncName(fn), c.P.Decl(fn).Pos()
		}
		v := verdict[tn]
		switch {
		case v == nil:
			c.Unk("C02.R4", label, pos, "no model case")
		default:
			report3(c, "C02.R4", label, pos, v[0], v[1], "Outside exactly when the vertex classifier reports some vertex Outside (empty receivers and empty members included)")
		}
	}
	_ = q
}
