package main

// Segment coverage helpers (E3) shared by C02.R1, C03.R1.
//
// A "segment use" is a site where two vertices V[e1], V[e2] of one vertex list
// are combined.  Inside a counting loop with index k the use denotes the pair
// family {(k+c1, k+c2) | Lo ≤ k < Hi}; outside loops, with e1 = len(V)-1 and
// e2 = 0, it is the wrap pair.

import (
	"fmt"
	"go/ast"
	"go/types"
)

type segFamily struct {
	// chain family: pairs (k+C, k+C+1) for Lo ≤ k < Hi, normalised to first = [A, B)
	// i.e. pairs (m, m+1) for A ≤ m < B
	A, B Aff
	Wrap bool // the single pair (len-1, 0)
	Node ast.Node
	Cond ast.Expr // innermost enclosing if-condition that is not the use itself (nil if none)
}

func (f segFamily) String() string {
	if f.Wrap {
		return "(len-1,0)"
	}
	return fmt.Sprintf("{(m,m+1) | %s ≤ m < %s}", f.A, f.B)
}

// elemIndex: if e denotes V[idx] returns idx.
func elemIndex(info *types.Info, sc *fnScope, e ast.Expr, isV func(ast.Expr) bool) ast.Expr {
	ix, ok := unparen(e).(*ast.IndexExpr)
	if !ok || !isV(ix.X) {
		return nil
	}
	return ix.Index
}

// pairFamily classifies the use of V[e1], V[e2] given the enclosing loops.
func pairFamily(info *types.Info, sc *fnScope, loops []*Loop, e1, e2 ast.Expr, vOf ast.Expr) (segFamily, string) {
	// inside a loop whose index appears in e1/e2
	for i := len(loops) - 1; i >= 0; i-- {
		l := loops[i]
		if l.Idx == nil {
			continue
		}
		c1, ok1 := sc.idxOffset(e1, l.Idx)
		c2, ok2 := sc.idxOffset(e2, l.Idx)
		if ok1 && ok2 {
			if c2 < c1 {
				c1, c2 = c2, c1
			}
			if c2 != c1+1 {
				return segFamily{}, fmt.Sprintf("vertices at offsets %+d and %+d are not consecutive", c1, c2)
			}
			if !l.Lo.ok || !l.Hi.ok {
				return segFamily{}, "loop bounds not affine"
			}
			return segFamily{A: l.Lo.plus(c1), B: l.Hi.plus(c1)}, ""
		}
		if ok1 != ok2 {
			return segFamily{}, "one vertex index follows the loop, the other does not"
		}
	}
	a1, a2 := sc.aff(e1), sc.aff(e2)
	if a1.ok && a2.ok {
		isLast := func(a Aff) bool { return a.Of != nil && a.K == -1 && sameExpr(info, a.Of, sc.canon(vOf)) }
		isFirst := func(a Aff) bool { return a.Of == nil && a.K == 0 }
		if (isLast(a1) && isFirst(a2)) || (isFirst(a1) && isLast(a2)) {
			return segFamily{Wrap: true}, ""
		}
	}
	return segFamily{}, "vertex indices `" + src(e1) + "`, `" + src(e2) + "` not recognised"
}

// coversChain: the families together visit exactly the open chain
// {(m,m+1) | 0 ≤ m < len(V)-1} once.
func coversChain(info *types.Info, fams []segFamily, v ast.Expr) string {
	n := 0
	for _, f := range fams {
		if f.Wrap {
			continue
		}
		n++
		if !(f.A.ok && f.A.Of == nil && f.A.K == 0) {
			return "first segment visited starts at vertex " + f.A.String() + ", not 0"
		}
		if !(f.B.ok && f.B.Of != nil && f.B.K == -1 && sameExpr(info, f.B.Of, v)) {
			return "last segment visited ends the range at " + f.B.String() + ", want len-1 (segments 0..len-2)"
		}
	}
	if n == 0 {
		return "no loop over consecutive vertex pairs"
	}
	if n > 1 {
		return "consecutive pairs are visited more than once"
	}
	return ""
}

func hasWrap(fams []segFamily) int {
	n := 0
	for _, f := range fams {
		if f.Wrap {
			n++
		}
	}
	return n
}

// enclosing returns the chain of statements from the function body down to n.
func enclosing(root ast.Node, n ast.Node) []ast.Node {
	var path, out []ast.Node
	ast.Inspect(root, func(m ast.Node) bool {
		if out != nil {
			return false
		}
		if m == nil {
			path = path[:len(path)-1]
			return false
		}
		path = append(path, m)
		if m == n {
			out = append([]ast.Node(nil), path...)
			return false
		}
		return true
	})
	return out
}

// loopsAround returns the recognised counting loops enclosing n (outermost first)
// and any unrecognised loop statement met.
func loopsAround(sc *fnScope, root ast.Node, n ast.Node) (loops []*Loop, unknown ast.Node) {
	for _, a := range enclosing(root, n) {
		switch a.(type) {
		case *ast.ForStmt, *ast.RangeStmt:
			if l := sc.loopOf(a.(ast.Stmt)); l != nil {
				loops = append(loops, l)
			} else {
				unknown = a
			}
		}
	}
	return
}
