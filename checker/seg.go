package main

// Segment coverage helpers (E3) shared by C02.R1, C03.R1.
//
// A "segment use" is a site where two vertices V[e1], V[e2] of one vertex list
// are combined.  Inside a counting loop with index k the use denotes the pair
// family {(k+c1, k+c2) | Lo ≤ k < Hi}; outside loops, with e1 = len(V)-1 and
// e2 = 0, it is the wrap pair.

import (
	"go/ast"
)

type segFamily struct {
	// chain family: pairs (k+C, k+C+1) for Lo ≤ k < Hi, normalised to first = [A, B)
	// i.e. pairs (m, m+1) for A ≤ m < B
	A, B Aff
	Wrap bool // the single pair (len-1, 0)
	Node ast.Node
	Cond ast.Expr // innermost enclosing if-condition that is not the use itself (nil if none)
}

// enclosing returns the chain of statements from the function body down to n.
func enclosing(root ast.Node, n ast.Node) []ast.Node {
	var path, out []ast.Node
	ast.Inspect(root, func(m ast.Node) bool {
		if out != nil {
			return false
		}
		if m == nil {
			path = path[:len(path)-1]
			return false
		}
		path = append(path, m)
		if m == n {
			out = append([]ast.Node(nil), path...)
			return false
		}
		return true
	})
	return out
}
