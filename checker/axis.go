package main

// Axis discipline (C04.R5): an ordering or equality comparison never relates an
// X ordinate to a Y ordinate.
//
// Every coordinate predicate of the library (box containment and overlap,
// point-on-segment pre-tests, lexicographic vertex order, hole pre-filters …) is
// unchanged when one axis is translated independently of the other; `a.X < b.Y`
// is not.  The rule is type-like: an expression has axis X (Y) if it is the X
// (Y) field of a geom.Point, a local all of whose definitions have that axis,
// math.Min/Max of two such values, or such a value plus/minus an axis-free one.

import (
	"fmt"
	"go/ast"
	"go/token"
	"go/types"
)

func checkAxisDiscipline(c *Ctx, rule string, pkgs ...string) {
	ptT := c.P.NamedType("geom", "Point")
	if ptT == nil {
		c.Unk(rule, "geom.Point", token.NoPos, "type anchor does not resolve")
		return
	}
	st := ptT.Underlying().(*types.Struct)
	var fx, fy *types.Var
	for i := 0; i < st.NumFields(); i++ {
		switch st.Field(i).Name() {
		case "X":
			fx = st.Field(i)
		case "Y":
			fy = st.Field(i)
		}
	}
	if fx == nil || fy == nil {
		c.Unk(rule, "geom.Point#fields", token.NoPos, "fields X and Y not found")
		return
	}
	total := 0
	for _, short := range pkgs {
		p := c.P.Pkg(short)
		if p == nil {
			c.Unk(rule, short, token.NoPos, "package not loaded")
			continue
		}
		info := p.TypesInfo
		nCmp, nBad := 0, 0
		for _, fn := range c.P.RepoFuncs() {
			if c.P.DeclPkg(fn) != p {
				continue
			}
			fd := c.P.Decl(fn)
			sc := newFnScope(info, fd.Body)
			memo := map[types.Object]string{}
			var axis func(e ast.Expr, depth int) string
			axis = func(e ast.Expr, depth int) string {
				e = unparen(e)
				if depth > 5 {
					return ""
				}
				switch x := e.(type) {
				case *ast.SelectorExpr:
					if sl := info.Selections[x]; sl != nil && sl.Kind() == types.FieldVal {
						switch sl.Obj() {
						case fx:
							return "X"
						case fy:
							return "Y"
						}
					}
				case *ast.Ident:
					o := objOf(info, x)
					if o == nil || !isFloat64(o.Type()) {
						return ""
					}
					if a, ok := memo[o]; ok {
						return a
					}
					memo[o] = ""
					ds := sc.defs[o]
					a := ""
					for i, d := range ds {
						da := ""
						if d != nil {
							da = axis(d, depth+1)
						}
						if i == 0 {
							a = da
						} else if da != a {
							a = ""
							break
						}
					}
					memo[o] = a
					return a
				case *ast.CallExpr:
					f := callee(info, x)
					if (isFuncIn(f, "math", "Min") || isFuncIn(f, "math", "Max")) && len(x.Args) == 2 {
						l, r := axis(x.Args[0], depth+1), axis(x.Args[1], depth+1)
						if l == r {
							return l
						}
						if l == "" {
							return r
						}
						if r == "" {
							return l
						}
					}
				case *ast.BinaryExpr:
					if x.Op == token.ADD || x.Op == token.SUB {
						l, r := axis(x.X, depth+1), axis(x.Y, depth+1)
						if l != "" && r == "" {
							return l
						}
						if r != "" && l == "" && x.Op == token.ADD {
							return r
						}
						if l == r && x.Op == token.ADD {
							return l
						}
					}
				}
				return ""
			}
			ast.Inspect(fd.Body, func(n ast.Node) bool {
				b, ok := n.(*ast.BinaryExpr)
				if !ok {
					return true
				}
				switch b.Op {
				case token.LSS, token.LEQ, token.GTR, token.GEQ, token.EQL, token.NEQ:
				default:
					return true
				}
				l, r := axis(b.X, 0), axis(b.Y, 0)
				if l == "" || r == "" {
					return true
				}
				nCmp++
				if l != r {
					nBad++
					c.Bad(rule, fmt.Sprintf("%s#cmp:%s", c.P.FuncName(fn), src(b)), b.Pos(), "`%s` compares an %s ordinate (%s) with a %s ordinate (%s): the predicate changes when one axis is shifted, which no box/segment/ordering test of the library may do (a transposed field name)", src(b), l, src(b.X), r, src(b.Y))
				}
				return true
			})
		}
		total += nCmp
		if nBad == 0 {
			c.OK(rule, short+"#axis-discipline", token.NoPos, "%d ordinate-to-ordinate comparisons, each X with X or Y with Y", nCmp)
		}
	}
	c.Evals(total)
}
