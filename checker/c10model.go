package main

// Model evaluation of the eight Transform methods (C10.R4, and the panic-freedom half of
// C10.R3): each method is interpreted on a small geometry with pairwise distinct vertices
// and a host transformer T that maps vertex (x, y) to (x', y') = (x+K, y+K) and can be made
// to fail at its k-th call.
//
//	t == nil            → the receiver itself is returned, no error
//	t succeeds          → a value of the receiver's shape whose i-th vertex is T(i-th vertex),
//	                      sharing no storage with the receiver, the receiver unchanged, T called
//	                      once per vertex in storage order; *Bounds → the ring of its 4 corners
//	t fails at call k   → a non-nil error comes back (for every k) and nothing panics
//
// Values are compared, so helper extraction, loop style or append-vs-index do not matter.

import (
	"fmt"
	"go/token"
	"go/types"
)

type oHostFunc struct {
	name string
	fn   func(args []oval) []oval
}

const c10shift = 100000

func c10model(c *Ctx, rule string) {
	m := newClipModel(c) // reuses the geometry builders
	if m.ptT == nil || m.polyT == nil {
		c.Unk(rule, "geom#transform-model", token.NoPos, "geometry types do not resolve")
		return
	}
	m.it.stub = nil
	mpT, gcT := c.P.NamedType("geom", "MultiPoint"), c.P.NamedType("geom", "GeometryCollection")
	errVal := oIface{opaque: &oOpaque{name: "transformer error"}}
	type input struct {
		tn    string
		val   oval
		verts []oBoxPt // in storage order
	}
	flat := func(rs [][]oBoxPt) []oBoxPt {
		var out []oBoxPt
		for _, r := range rs {
			out = append(out, r...)
		}
		return out
	}
	build := func() []input {
		var ins []input
		p := m.fresh()
		ins = append(ins, input{"Point", m.it.point(m.ptT, p.x, p.y), []oBoxPt{p}})
		if mpT != nil {
			s, pts := m.ring(mpT, m.ptT, 3)
			ins = append(ins, input{"MultiPoint", s, pts})
		}
		ls, lp := m.ring(m.lsT, m.ptT, 3)
		ins = append(ins, input{"LineString", ls, lp})
		l1, p1 := m.ring(m.lsT, m.ptT, 2)
		l2, p2 := m.ring(m.lsT, m.ptT, 3)
		ins = append(ins, input{"MultiLineString", m.sliceOf(m.mlsT, []oval{l1, l2}), append(append([]oBoxPt{}, p1...), p2...)})
		pg, pr := m.polygon(3, 2)
		ins = append(ins, input{"Polygon", pg, flat(pr)})
		mp, mr := m.multiPolygon([]int{2, 1}, []int{3})
		ins = append(ins, input{"MultiPolygon", mp, flat(mr)})
		a, b := m.fresh(), m.fresh()
		bs := m.it.bounds(m.bt, m.ptT, a.x, a.y, b.x, b.y)
		ins = append(ins, input{"Bounds", oPtr{bs}, []oBoxPt{{a.x, a.y}, {b.x, a.y}, {b.x, b.y}, {a.x, b.y}}})
		if gcT != nil {
			q := m.fresh()
			g1 := m.it.ifaceOf(m.it.point(m.ptT, q.x, q.y))
			gl, gp := m.ring(m.lsT, m.ptT, 2)
			g2 := m.it.ifaceOf(gl)
			gpg, gpr := m.polygon(2)
			g3 := m.it.ifaceOf(gpg)
			verts := append(append([]oBoxPt{q}, gp...), flat(gpr)...)
			ins = append(ins, input{"GeometryCollection", m.sliceOf(gcT, []oval{g1, g2, g3}), verts})
		}
		return ins
	}
	// flatten a result value into its vertices in storage order, and collect backing arrays
	var collect func(v oval, out *[]oBoxPt, arrs map[*[]oval]bool) bool
	collect = func(v oval, out *[]oBoxPt, arrs map[*[]oval]bool) bool {
		switch x := v.(type) {
		case oIface:
			if x.dyn == nil {
				return false
			}
			return collect(x.dyn, out, arrs)
		case oPtr:
			return x.s != nil && collect(x.s, out, arrs)
		case *oStruct:
			if fx, ok := x.fields["X"].(oFloat); ok {
				fy, ok2 := x.fields["Y"].(oFloat)
				if !ok2 {
					return false
				}
				*out = append(*out, oBoxPt{fx.r, fy.r})
				return true
			}
			return false
		case oSlice:
			if x.arr != nil {
				arrs[x.arr] = true
			}
			for i := 0; i < x.length(); i++ {
				if !collect(x.at(i), out, arrs) {
					return false
				}
			}
			return true
		}
		return false
	}
	for _, in0 := range build() {
		fn := c.P.Method("geom", in0.tn, "Transform")
		label := "geom." + in0.tn + ".Transform"
		if fn == nil || c.P.Decl(fn) == nil {
			c.Unk(rule, label, token.NoPos, "API anchor does not resolve")
			continue
		}
		label = c.P.FuncName(fn)
		pos := c.P.Decl(fn).Pos()
		msg, unk := "", ""
		runs := 0
		// --- nil transformer
		{
			in := in0
			runs++
			res, why := m.it.Call(fn, in.val, []oval{oNil{}}, 0)
			switch {
			case why != "":
				unk = "nil transformer: not interpretable: " + why
			default:
				var got []oBoxPt
				arrs := map[*[]oval]bool{}
				okc := collect(res[0], &got, arrs)
				if eq, ok := oEqual(res[1], oNil{}); !ok {
					unk = "nil transformer: the error result is " + showVal(res[1])
				} else if !eq {
					msg = "a nil transformer yields a non-nil error"
				} else if in.tn == "Bounds" {
					var got0 oval = res[0]
					if p, ok := got0.(oIface); ok {
						got0 = p.dyn
					}
					if got0 != in.val {
						msg = "with a nil transformer (what NewTransform returns for equal references) *Bounds.Transform does not return the receiver itself but " + showVal(res[0])
					}
				} else if !okc || !samePts(got, in.verts) {
					msg = "with a nil transformer the result is not the receiver: " + showVal(res[0])
				}
			}
		}
		// --- succeeding and failing transformers
		n := len(in0.verts)
		for failAt := 0; failAt <= n && msg == "" && unk == ""; failAt++ {
			// rebuild the input so that every run starts from untouched storage
			var in input
			for _, cand := range build() {
				if cand.tn == in0.tn {
					in = cand
				}
			}
			calls := 0
			var seen []oBoxPt
			host := oHostFunc{name: "T", fn: func(args []oval) []oval {
				calls++
				if len(args) != 2 {
					return []oval{oTop{"arity"}, oTop{"arity"}, errVal}
				}
				x, okx := args[0].(oFloat)
				y, oky := args[1].(oFloat)
				if !okx || !oky {
					return []oval{oTop{"T applied to a non-coordinate"}, oTop{"T applied to a non-coordinate"}, oNil{}}
				}
				seen = append(seen, oBoxPt{x.r, y.r})
				if failAt > 0 && calls == failAt {
					return []oval{oTop{"value returned with an error"}, oTop{"value returned with an error"}, errVal}
				}
				return []oval{oFloat{x.r + c10shift}, oFloat{y.r + c10shift}, oNil{}}
			}}
			runs++
			res, why := m.it.Call(fn, in.val, []oval{host}, 0)
			if why != "" {
				if len(why) > 6 && why[:6] == "panic:" {
					msg = fmt.Sprintf("when the transformer fails at vertex %d the method panics (%s): an error must be returned instead", failAt, why)
				} else if failAt > 0 && containsStr(why, "value returned with an error") {
					msg = fmt.Sprintf("when the transformer fails at vertex %d its (meaningless) coordinates are used before the error is looked at: %s", failAt, why)
				} else {
					unk = "not interpretable: " + why
				}
				break
			}
			if failAt > 0 {
				if eq, ok := oEqual(res[1], oNil{}); !ok || eq {
					msg = fmt.Sprintf("the transformer failed at vertex %d of %d but Transform returns a nil error: the caller receives coordinates that were never computed", failAt, n)
				}
				continue
			}
			// success run
			if eq, ok := oEqual(res[1], oNil{}); !ok {
				unk = "the error result is " + showVal(res[1])
				break
			} else if !eq {
				msg = "every vertex transformed without error but Transform returns an error"
				break
			}
			var got []oBoxPt
			arrs := map[*[]oval]bool{}
			if !collect(res[0], &got, arrs) {
				msg = "the result is not a geometry made of transformed vertices: " + showVal(res[0])
				break
			}
			var want []oBoxPt
			for _, p := range in.verts {
				want = append(want, oBoxPt{p.x + c10shift, p.y + c10shift})
			}
			if !samePts(got, want) {
				msg = fmt.Sprintf("vertices %s transform to %s, want T applied to each vertex in storage order", showRings([][]oBoxPt{in.verts}), showRings([][]oBoxPt{unshift(got)}))
				break
			}
			if !samePts(seen, in.verts) {
				msg = "the transformer is not called exactly once per vertex in storage order"
				break
			}
			// result type and freshness; receiver untouched
			if dt := dynTypeOfResult(res[0]); dt != nil && in.tn != "Bounds" {
				wantT := c.P.NamedType("geom", in.tn)
				if wantT != nil && !types.Identical(dt, wantT) {
					msg = fmt.Sprintf("a %s is transformed into a %s", in.tn, dt.String())
					break
				}
			}
			var after []oBoxPt
			inArrs := map[*[]oval]bool{}
			collect(in.val, &after, inArrs)
			if in.tn != "Bounds" && !samePts(after, in.verts) {
				msg = "the receiver's vertices are modified by Transform"
				break
			}
			for a := range arrs {
				if inArrs[a] {
					msg = "the result shares a backing array with the receiver: later changes to one show in the other"
				}
			}
		}
		c.Evals(runs)
		switch {
		case msg != "":
			c.Bad(rule, label, pos, "%s", msg)
		case unk != "":
			c.Unk(rule, label, pos, "%s", unk)
		default:
			c.OK(rule, label, pos, "nil transformer → receiver; otherwise T(vertex) per vertex in storage order into fresh storage of the same shape; a failure at any of the %d vertices is reported as an error without panicking (%d model runs)", n, runs)
		}
	}
}

func samePts(a, b []oBoxPt) bool {
	if len(a) != len(b) {
		return false
	}
	for i := range a {
		if a[i] != b[i] {
			return false
		}
	}
	return true
}

func unshift(ps []oBoxPt) []oBoxPt {
	out := make([]oBoxPt, len(ps))
	for i, p := range ps {
		out[i] = oBoxPt{p.x - c10shift, p.y - c10shift}
	}
	return out
}

func containsStr(s, sub string) bool {
	for i := 0; i+len(sub) <= len(s); i++ {
		if s[i:i+len(sub)] == sub {
			return true
		}
	}
	return false
}

func dynTypeOfResult(v oval) types.Type {
	if iv, ok := v.(oIface); ok {
		if p, ok := iv.dyn.(oPtr); ok && p.s != nil {
			return types.NewPointer(p.s.typ)
		}
		return dynType(iv.dyn)
	}
	return dynType(v)
}
