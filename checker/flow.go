package main

// E4: path rules.  A structured abstract interpreter over the statement tree of
// one function body.  It forks at branches with the condition assumed true or
// false (so `&&`/`||` can be decomposed by the client), joins states at merge
// points, iterates loops to a fixpoint, and follows break/continue/return.
// The repo uses no goto/fallthrough/select in analysed code; meeting one makes
// the walk undecided (Unsupported is set) rather than silently wrong.

import (
	"go/ast"
	"go/token"
	"go/types"
)

// FlowClient supplies the abstract domain.  A nil *S state means "unreachable".
type FlowClient[S any] interface {
	Copy(s S) S
	Join(a, b S) S // must-join (intersection of facts)
	Equal(a, b S) bool
	// Simple statement or expression evaluated for effect (assign, incdec,
	// expr, decl, defer, go, send; also a RangeStmt header once per iteration
	// and the init statement of if/for/switch).
	Stmt(n ast.Node, s S) S
	// Branch refines the state under cond == truth.
	Branch(cond ast.Expr, truth bool, s S) S
	// Return is called at every return (r == nil for the implicit return at
	// the end of a body without results).
	Return(r *ast.ReturnStmt, s S)
	// TypeCase is called on entering a clause of a type switch.
	TypeCase(sw *ast.TypeSwitchStmt, cc *ast.CaseClause, s S) S
}

type Flow[S any] struct {
	C           FlowClient[S]
	Info        *types.Info
	Unsupported []ast.Node
	frames      []*flowFrame[S]
	MaxIter     int
}

type flowFrame[S any] struct {
	label     string
	isLoop    bool
	breaks    *S
	continues *S
}

func (f *Flow[S]) join(a, b *S) *S {
	if a == nil {
		return b
	}
	if b == nil {
		return a
	}
	j := f.C.Join(*a, *b)
	return &j
}

func (f *Flow[S]) cp(a *S) *S {
	if a == nil {
		return nil
	}
	c := f.C.Copy(*a)
	return &c
}

// Run interprets a function body from the initial state.
func (f *Flow[S]) Run(body *ast.BlockStmt, init S) {
	if f.MaxIter == 0 {
		f.MaxIter = 50
	}
	s := f.block(body.List, &init)
	if s != nil {
		f.C.Return(nil, *s)
	}
}

func (f *Flow[S]) block(list []ast.Stmt, s *S) *S {
	for _, st := range list {
		if s == nil {
			return nil
		}
		s = f.stmt(st, s, "")
	}
	return s
}

func isPanicCall(info *types.Info, e ast.Expr) bool {
	call, ok := ast.Unparen(e).(*ast.CallExpr)
	if !ok {
		return false
	}
	id, ok := ast.Unparen(call.Fun).(*ast.Ident)
	if !ok {
		return false
	}
	if b, ok := info.Uses[id].(*types.Builtin); ok && b.Name() == "panic" {
		return true
	}
	return false
}

func (f *Flow[S]) branch(cond ast.Expr, truth bool, s *S) *S {
	if s == nil {
		return nil
	}
	// constant conditions
	if tv, ok := f.Info.Types[cond]; ok && tv.Value != nil {
		if tv.Value.String() == "true" && !truth {
			return nil
		}
		if tv.Value.String() == "false" && truth {
			return nil
		}
	}
	c := f.C.Copy(*s)
	r := f.C.Branch(cond, truth, c)
	return &r
}

func (f *Flow[S]) simple(n ast.Node, s *S) *S {
	if s == nil || n == nil {
		return s
	}
	r := f.C.Stmt(n, *s)
	return &r
}

func (f *Flow[S]) findFrame(label string, needLoop bool) *flowFrame[S] {
	for i := len(f.frames) - 1; i >= 0; i-- {
		fr := f.frames[i]
		if label != "" {
			if fr.label == label {
				return fr
			}
			continue
		}
		if needLoop && !fr.isLoop {
			continue
		}
		return fr
	}
	return nil
}

func (f *Flow[S]) stmt(st ast.Stmt, s *S, label string) *S {
	switch st := st.(type) {
	case nil:
		return s
	case *ast.BlockStmt:
		return f.block(st.List, s)
	case *ast.LabeledStmt:
		return f.stmt(st.Stmt, s, st.Label.Name)
	case *ast.EmptyStmt:
		return s
	case *ast.ExprStmt:
		s = f.simple(st, s)
		if isPanicCall(f.Info, st.X) {
			return nil
		}
		return s
	case *ast.AssignStmt, *ast.IncDecStmt, *ast.DeclStmt, *ast.DeferStmt, *ast.GoStmt, *ast.SendStmt:
		return f.simple(st, s)
	case *ast.ReturnStmt:
		if s != nil {
			f.C.Return(st, *s)
		}
		return nil
	case *ast.BranchStmt:
		lbl := ""
		if st.Label != nil {
			lbl = st.Label.Name
		}
		switch st.Tok {
		case token.BREAK:
			if fr := f.findFrame(lbl, false); fr != nil {
				fr.breaks = f.join(fr.breaks, f.cp(s))
				return nil
			}
		case token.CONTINUE:
			if fr := f.findFrame(lbl, true); fr != nil {
				fr.continues = f.join(fr.continues, f.cp(s))
				return nil
			}
		}
		f.Unsupported = append(f.Unsupported, st)
		return nil
	case *ast.IfStmt:
		s = f.simple(st.Init, s)
		t := f.branch(st.Cond, true, s)
		e := f.branch(st.Cond, false, s)
		t = f.block(st.Body.List, t)
		if st.Else != nil {
			e = f.stmt(st.Else, e, "")
		}
		return f.join(t, e)
	case *ast.ForStmt:
		s = f.simple(st.Init, s)
		fr := &flowFrame[S]{label: label, isLoop: true}
		head := f.cp(s)
		var exit *S
		for iter := 0; ; iter++ {
			fr.breaks, fr.continues = nil, nil
			f.frames = append(f.frames, fr)
			var body *S
			exit = nil
			if st.Cond != nil {
				body = f.branch(st.Cond, true, head)
				exit = f.branch(st.Cond, false, head)
			} else {
				body = f.cp(head)
			}
			body = f.block(st.Body.List, body)
			f.frames = f.frames[:len(f.frames)-1]
			body = f.join(body, fr.continues)
			body = f.simple(st.Post, body)
			exit = f.join(exit, fr.breaks)
			nh := f.join(f.cp(s), body)
			if f.same(nh, head) || iter > f.MaxIter {
				if iter > f.MaxIter {
					f.Unsupported = append(f.Unsupported, st)
				}
				break
			}
			head = nh
		}
		return exit
	case *ast.RangeStmt:
		fr := &flowFrame[S]{label: label, isLoop: true}
		head := f.cp(s)
		var exit *S
		for iter := 0; ; iter++ {
			fr.breaks, fr.continues = nil, nil
			f.frames = append(f.frames, fr)
			body := f.simple(st, f.cp(head)) // header: binds key/value
			exit = f.cp(head)                // zero or more iterations
			body = f.block(st.Body.List, body)
			f.frames = f.frames[:len(f.frames)-1]
			body = f.join(body, fr.continues)
			exit = f.join(exit, fr.breaks)
			nh := f.join(f.cp(s), body)
			if f.same(nh, head) || iter > f.MaxIter {
				if iter > f.MaxIter {
					f.Unsupported = append(f.Unsupported, st)
				}
				break
			}
			head = nh
		}
		return exit
	case *ast.SwitchStmt:
		s = f.simple(st.Init, s)
		fr := &flowFrame[S]{label: label}
		f.frames = append(f.frames, fr)
		var out *S
		rest := f.cp(s) // state in which no earlier case matched
		var deflt *ast.CaseClause
		for _, c := range st.Body.List {
			cc := c.(*ast.CaseClause)
			if cc.List == nil {
				deflt = cc
				continue
			}
			var in *S
			for _, e := range cc.List {
				cond := e
				if st.Tag != nil {
					cond = &ast.BinaryExpr{X: st.Tag, Op: token.EQL, Y: e, OpPos: e.Pos()}
				}
				in = f.join(in, f.branchSynth(cond, true, rest))
				rest = f.branchSynth(cond, false, rest)
			}
			for _, b := range cc.Body {
				if bs, ok := b.(*ast.BranchStmt); ok && bs.Tok == token.FALLTHROUGH {
					f.Unsupported = append(f.Unsupported, bs)
				}
			}
			out = f.join(out, f.block(cc.Body, in))
		}
		if deflt != nil {
			out = f.join(out, f.block(deflt.Body, rest))
		} else {
			out = f.join(out, rest)
		}
		f.frames = f.frames[:len(f.frames)-1]
		return f.join(out, fr.breaks)
	case *ast.TypeSwitchStmt:
		s = f.simple(st.Init, s)
		s = f.simple(st.Assign, s)
		fr := &flowFrame[S]{label: label}
		f.frames = append(f.frames, fr)
		var out *S
		hasDefault := false
		for _, c := range st.Body.List {
			cc := c.(*ast.CaseClause)
			if cc.List == nil {
				hasDefault = true
			}
			var in *S
			if s != nil {
				r := f.C.TypeCase(st, cc, f.C.Copy(*s))
				in = &r
			}
			out = f.join(out, f.block(cc.Body, in))
		}
		if !hasDefault {
			out = f.join(out, f.cp(s))
		}
		f.frames = f.frames[:len(f.frames)-1]
		return f.join(out, fr.breaks)
	default:
		f.Unsupported = append(f.Unsupported, st)
		return s
	}
}

// branchSynth is branch for synthesized conditions (no type info for the
// synthesized node itself).
func (f *Flow[S]) branchSynth(cond ast.Expr, truth bool, s *S) *S {
	if s == nil {
		return nil
	}
	c := f.C.Copy(*s)
	r := f.C.Branch(cond, truth, c)
	return &r
}

func (f *Flow[S]) same(a, b *S) bool {
	if a == nil || b == nil {
		return a == nil && b == nil
	}
	return f.C.Equal(*a, *b)
}

// ---------------------------------------------------------------- fact sets

// Facts is a simple must-set of string facts, the domain most rules use.
type Facts map[string]bool

func (a Facts) Copy() Facts {
	c := Facts{}
	for k := range a {
		c[k] = true
	}
	return c
}
func (a Facts) Meet(b Facts) Facts {
	c := Facts{}
	for k := range a {
		if b[k] {
			c[k] = true
		}
	}
	return c
}
func (a Facts) Eq(b Facts) bool {
	if len(a) != len(b) {
		return false
	}
	for k := range a {
		if !b[k] {
			return false
		}
	}
	return true
}

// FactsClient adapts closures to FlowClient[Facts].
type FactsClient struct {
	OnStmt     func(n ast.Node, s Facts) Facts
	OnBranch   func(cond ast.Expr, truth bool, s Facts) Facts
	OnReturn   func(r *ast.ReturnStmt, s Facts)
	OnTypeCase func(sw *ast.TypeSwitchStmt, cc *ast.CaseClause, s Facts) Facts
	OnJoin     func(a, b Facts) Facts // nil: the facts that hold on both sides
}

func (c *FactsClient) Copy(s Facts) Facts { return s.Copy() }
func (c *FactsClient) Join(a, b Facts) Facts {
	if c.OnJoin != nil {
		return c.OnJoin(a, b)
	}
	return a.Meet(b)
}
func (c *FactsClient) Equal(a, b Facts) bool { return a.Eq(b) }
func (c *FactsClient) Stmt(n ast.Node, s Facts) Facts {
	if c.OnStmt != nil {
		return c.OnStmt(n, s)
	}
	return s
}
func (c *FactsClient) Branch(cond ast.Expr, truth bool, s Facts) Facts {
	if c.OnBranch != nil {
		return c.OnBranch(cond, truth, s)
	}
	return s
}
func (c *FactsClient) Return(r *ast.ReturnStmt, s Facts) {
	if c.OnReturn != nil {
		c.OnReturn(r, s)
	}
}
func (c *FactsClient) TypeCase(sw *ast.TypeSwitchStmt, cc *ast.CaseClause, s Facts) Facts {
	if c.OnTypeCase != nil {
		return c.OnTypeCase(sw, cc, s)
	}
	return s
}

// conjuncts decomposes a condition assumed to have the given truth value into
// atomic (expr, truth) facts that all hold: (a && b)=true ⇒ a,b true;
// (a || b)=false ⇒ a,b false; !a flips.  Other shapes yield the expr itself.
func conjuncts(e ast.Expr, truth bool) []condAtom {
	e = ast.Unparen(e)
	switch x := e.(type) {
	case *ast.UnaryExpr:
		if x.Op == token.NOT {
			return conjuncts(x.X, !truth)
		}
	case *ast.BinaryExpr:
		if (x.Op == token.LAND && truth) || (x.Op == token.LOR && !truth) {
			return append(conjuncts(x.X, truth), conjuncts(x.Y, truth)...)
		}
		if x.Op == token.LAND || x.Op == token.LOR {
			return nil // a disjunction of possibilities: no definite atom
		}
	}
	return []condAtom{{e, truth}}
}

type condAtom struct {
	E     ast.Expr
	Truth bool
}
