package main

// Model evaluation of the clipping plumbing (C01.R1–R3, C14.R1/R2/R5).
//
// The set-operation methods are interpreted by the order-domain interpreter on small
// geometries whose vertices are pairwise distinct abstract values; the external clipper's
// Construct is replaced by a stub that records its three operands and returns a fixed
// two-contour result.  What reaches the clipper and what comes back is then compared,
// as values, with what the property needs:
//
//	operation  = the constant belonging to the method
//	subject    = every ring of the receiver (all member polygons; the rectangle of a box), in order
//	clipping   = every ring of every polygon of the argument, in order
//	result     = each returned contour, closed with its first vertex (Polygon/MultiPolygon/
//	             *Bounds receivers); each contour unchanged (Clip of line strings)
//
// Because values are compared, it does not matter how the code is organised (helpers,
// append or indexed stores, loop direction, fast paths that are correct).  Bounds: the
// operand shapes enumerated below (1–3 rings/members, 1–3 vertices per ring); loops in the
// fragment are uniform in the element index, so a defect that only shows beyond three
// elements would have to be written on purpose.

import (
	"fmt"
	"go/token"
	"go/types"
	"strings"
)

type clipCapture struct {
	calls   int
	op      int64
	subject [][]oBoxPt
	clip    [][]oBoxPt
	bad     string
}

type oBoxPt struct{ x, y int64 }

func ptsOf(v oval) ([]oBoxPt, bool) {
	s, ok := v.(oSlice)
	if !ok {
		return nil, false
	}
	var out []oBoxPt
	for i := 0; i < s.length(); i++ {
		st, ok := s.at(i).(*oStruct)
		if !ok {
			return nil, false
		}
		x, okx := st.fields["X"].(oFloat)
		y, oky := st.fields["Y"].(oFloat)
		if !okx || !oky {
			return nil, false
		}
		out = append(out, oBoxPt{x.r, y.r})
	}
	return out, true
}

func ringsOf(v oval) ([][]oBoxPt, bool) {
	if iv, ok := v.(oIface); ok {
		v = iv.dyn
	}
	s, ok := v.(oSlice)
	if !ok {
		if _, isNil := v.(oNil); isNil || v == nil {
			return nil, true
		}
		return nil, false
	}
	var out [][]oBoxPt
	for i := 0; i < s.length(); i++ {
		r, ok := ptsOf(s.at(i))
		if !ok {
			return nil, false
		}
		out = append(out, r)
	}
	return out, true
}

func sameRings(a, b [][]oBoxPt) bool {
	if len(a) != len(b) {
		return false
	}
	for i := range a {
		if len(a[i]) != len(b[i]) {
			return false
		}
		for j := range a[i] {
			if a[i][j] != b[i][j] {
				return false
			}
		}
	}
	return true
}

func showRings(r [][]oBoxPt) string {
	var parts []string
	for _, ring := range r {
		var ps []string
		for _, p := range ring {
			ps = append(ps, fmt.Sprintf("v%d", p.x/4))
		}
		parts = append(parts, "("+strings.Join(ps, " ")+")")
	}
	return "[" + strings.Join(parts, " ") + "]"
}

// clipModel builds abstract geometries and runs API methods with Construct stubbed.
type clipModel struct {
	c       *Ctx
	it      *oInterp
	ptT     types.Type
	polyT   types.Type // geom.Polygon
	mpolyT  types.Type
	pathT   types.Type
	lsT     types.Type
	mlsT    types.Type
	bt      types.Type
	pcPoly  types.Type
	pcCont  types.Type
	pcPoint types.Type
	next    int64
	cap     *clipCapture
	ret     [][]oBoxPt // what the stubbed clipper returns
}

func newClipModel(c *Ctx) *clipModel {
	symResetEval()
	m := &clipModel{c: c, it: &oInterp{p: c.P, maxDepth: 48}}
	g := func(n string) types.Type {
		if t := c.P.NamedType("geom", n); t != nil {
			return t
		}
		return nil
	}
	m.ptT, m.polyT, m.mpolyT, m.pathT, m.lsT, m.mlsT, m.bt = g("Point"), g("Polygon"), g("MultiPolygon"), g("Path"), g("LineString"), g("MultiLineString"), g("Bounds")
	if dep := c.P.Dep(polyclipPath); dep != nil {
		look := func(n string) types.Type {
			if o := dep.Types.Scope().Lookup(n); o != nil {
				return o.Type()
			}
			return nil
		}
		m.pcPoly, m.pcCont, m.pcPoint = look("Polygon"), look("Contour"), look("Point")
	}
	m.it.stub = func(f *types.Func, recv oval, args []oval) ([]oval, bool) {
		if !isConstruct(f) || m.cap == nil {
			return nil, false
		}
		m.cap.calls++
		if len(args) != 2 {
			m.cap.bad = "Construct called with an unexpected number of arguments"
			return []oval{oTop{"stub"}}, true
		}
		if op, ok := args[0].(oInt); ok {
			m.cap.op = int64(op)
		} else {
			m.cap.bad = "the operation passed to Construct is not a constant on this path: " + showVal(args[0])
		}
		var ok1, ok2 bool
		m.cap.subject, ok1 = ringsOf(recv)
		m.cap.clip, ok2 = ringsOf(args[1])
		if w := poisonIn(recv, map[*oStruct]bool{}, 0) + poisonIn(args[1], map[*oStruct]bool{}, 0); w != "" || ((!ok1 || !ok2) && (hasTop(recv) || hasTop(args[1]))) {
			m.cap.bad = "?the operands handed to Construct could not be determined: " + w
		} else if !ok1 || !ok2 {
			m.cap.bad = "operands of Construct are not lists of contours of the inputs' vertices"
		}
		return []oval{m.pcValue(m.ret)}, true
	}
	return m
}

func (m *clipModel) ok() bool {
	return m.ptT != nil && m.polyT != nil && m.mpolyT != nil && m.bt != nil && m.pcPoly != nil && m.pcCont != nil && m.pcPoint != nil
}

func (m *clipModel) fresh() oBoxPt {
	p := oBoxPt{m.next, m.next + 2}
	m.next += 4
	return p
}

func (m *clipModel) sliceOf(t types.Type, elems []oval) oSlice {
	arr := append([]oval{}, elems...)
	return oSlice{typ: t, arr: &arr, lo: 0, hi: len(arr), capEnd: len(arr)}
}

func (m *clipModel) ring(t types.Type, pt types.Type, n int) (oSlice, []oBoxPt) {
	var vals []oval
	var pts []oBoxPt
	for i := 0; i < n; i++ {
		p := m.fresh()
		pts = append(pts, p)
		st := m.it.point(pt, p.x, p.y)
		vals = append(vals, st)
	}
	return m.sliceOf(t, vals), pts
}

// polygon with the given ring sizes.
func (m *clipModel) polygon(sizes ...int) (oSlice, [][]oBoxPt) {
	ringT := m.polyT.Underlying().(*types.Slice).Elem()
	var rs []oval
	var all [][]oBoxPt
	for _, n := range sizes {
		r, pts := m.ring(ringT, m.ptT, n)
		rs = append(rs, r)
		all = append(all, pts)
	}
	return m.sliceOf(m.polyT, rs), all
}

func (m *clipModel) multiPolygon(shapes ...[]int) (oSlice, [][]oBoxPt) {
	var ps []oval
	var all [][]oBoxPt
	for _, sh := range shapes {
		p, rings := m.polygon(sh...)
		ps = append(ps, p)
		all = append(all, rings...)
	}
	return m.sliceOf(m.mpolyT, ps), all
}

func (m *clipModel) pcValue(rings [][]oBoxPt) oSlice {
	var cs []oval
	for _, r := range rings {
		var vals []oval
		for _, p := range r {
			vals = append(vals, m.it.point(m.pcPoint, p.x, p.y))
		}
		cs = append(cs, m.sliceOf(m.pcCont, vals))
	}
	return m.sliceOf(m.pcPoly, cs)
}

type clipOperand struct {
	name  string
	val   oval
	rings [][]oBoxPt
}

func (m *clipModel) operands() []clipOperand {
	var out []clipOperand
	p1, r1 := m.polygon(3)
	out = append(out, clipOperand{"Polygon(1 ring)", p1, r1})
	p2, r2 := m.polygon(3, 2, 1)
	out = append(out, clipOperand{"Polygon(3 rings)", p2, r2})
	mp1, mr1 := m.multiPolygon([]int{3})
	out = append(out, clipOperand{"MultiPolygon(1 member)", mp1, mr1})
	mp2, mr2 := m.multiPolygon([]int{2, 1}, []int{3}, []int{1, 2})
	out = append(out, clipOperand{"MultiPolygon(3 members)", mp2, mr2})
	return out
}

// boxAcross builds a *Bounds operand that partly overlaps the given rings: it starts below
// every coordinate and ends strictly between two of them, so neither the "disjoint" nor the
// "contained" shortcut applies and the general clip is reached.
func (m *clipModel) boxAcross(rings [][]oBoxPt) clipOperand {
	var xs []int64
	for _, r := range rings {
		for _, p := range r {
			xs = append(xs, p.x, p.y)
		}
	}
	lo, hi := xs[0], xs[0]
	for _, v := range xs {
		if v < lo {
			lo = v
		}
		if v > hi {
			hi = v
		}
	}
	// the first vertex is (lo, lo+2): a box reaching to lo+3 on both axes contains it and nothing else
	_ = hi
	box := oBox{lo - 11, lo - 9, lo + 3, lo + 3}
	bs := m.it.bounds(m.bt, m.ptT, box.minx, box.miny, box.maxx, box.maxy)
	return clipOperand{"*Bounds", oPtr{bs}, [][]oBoxPt{{{box.minx, box.miny}, {box.maxx, box.miny}, {box.maxx, box.maxy}, {box.minx, box.maxy}}}}
}

// boxRingMatches: got lists the four corners of want[0] in ring order (any start/direction, optionally closed).
func boxRingMatches(got, want [][]oBoxPt) bool {
	if len(got) != 1 || len(want) != 1 {
		return false
	}
	g := got[0]
	if len(g) == 5 && g[4] == g[0] {
		g = g[:4]
	}
	if len(g) != 4 {
		return false
	}
	w := want[0]
	for _, dir := range []int{1, -1} {
		for s := 0; s < 4; s++ {
			ok := true
			for k := 0; k < 4; k++ {
				if g[k] != w[((s+dir*k)%4+4)%4] {
					ok = false
				}
			}
			if ok {
				return true
			}
		}
	}
	return false
}

// runSetOps evaluates the twelve receiver×method combinations against every operand and files
// obligations under the given rule ids.
func (m *clipModel) runSetOps(ruleOp, rulePlumb, ruleClose string) {
	c := m.c
	opVal := map[string]int64{}
	if dep := c.P.Dep(polyclipPath); dep != nil {
		for mn, cn := range c01ops {
			if cst, ok := dep.Types.Scope().Lookup(cn).(*types.Const); ok {
				if v, ok := constInt64Obj(cst); ok {
					opVal[mn] = v
				}
			}
		}
	}
	m.ret = [][]oBoxPt{{{9000, 9001}, {9002, 9003}, {9004, 9005}}, {{9006, 9007}, {9008, 9009}}}
	var closedWant [][]oBoxPt
	for _, r := range m.ret {
		closedWant = append(closedWant, append(append([]oBoxPt{}, r...), r[0]))
	}
	for _, tn := range []string{"Polygon", "MultiPolygon", "Bounds"} {
		var meths []string
		for mn := range c01ops {
			meths = append(meths, mn)
		}
		sortStrings(meths)
		for _, mn := range meths {
			fn := c.P.Method("geom", tn, mn)
			label := "geom." + tn + "." + mn
			if fn == nil || c.P.Decl(fn) == nil {
				c.Unk(ruleOp, label, token.NoPos, "API anchor does not resolve")
				continue
			}
			label = c.P.FuncName(fn)
			pos := c.P.Decl(fn).Pos()
			var opMsg, plumbMsg, closeMsg string
			reached, runs := 0, 0
			type pair struct{ recv, arg clipOperand }
			var pairs []pair
			ops := m.operands()
			for _, x := range ops {
				for _, y := range ops {
					if (tn == "Polygon" && strings.HasPrefix(x.name, "Polygon")) || (tn == "MultiPolygon" && strings.HasPrefix(x.name, "MultiPolygon")) {
						pairs = append(pairs, pair{x, y})
					}
				}
				if tn == "Bounds" {
					pairs = append(pairs, pair{m.boxAcross(x.rings), x})
				} else if (tn == "Polygon" && strings.HasPrefix(x.name, "Polygon")) || (tn == "MultiPolygon" && strings.HasPrefix(x.name, "MultiPolygon")) {
					pairs = append(pairs, pair{x, m.boxAcross(x.rings)})
				}
			}
			for _, pr := range pairs {
				recv, arg := pr.recv, pr.arg
				isBox := recv.name == "*Bounds"
				{
					runs++
					m.cap = &clipCapture{}
					res, why := m.it.Call(fn, recv.val, []oval{m.it.ifaceOf(arg.val)}, 0)
					cp := m.cap
					m.cap = nil
					ctx := fmt.Sprintf("%s.%s(%s)", recv.name, mn, arg.name)
					if cp.calls == 0 {
						if why != "" {
							if plumbMsg == "" {
								plumbMsg = "?" + ctx + ": not interpretable: " + why
							}
						}
						continue // a shortcut that never reaches the clipper: judged by C01.R4
					}
					reached++
					if cp.bad != "" && (plumbMsg == "" || strings.HasPrefix(cp.bad, "?")) {
						plumbMsg = ctx + ": " + cp.bad
						if strings.HasPrefix(cp.bad, "?") {
							plumbMsg = "?" + ctx + ": " + cp.bad[1:]
						}
					}
					if cp.calls > 1 && plumbMsg == "" {
						plumbMsg = fmt.Sprintf("%s: the clipper is called %d times", ctx, cp.calls)
					}
					if want, ok := opVal[mn]; ok && cp.op != want && opMsg == "" {
						opMsg = fmt.Sprintf("%s reaches Construct with operation %d, want polyclip.%s (%d)", ctx, cp.op, c01ops[mn], want)
					}
					subjOK := sameRings(cp.subject, recv.rings)
					if isBox {
						subjOK = boxRingMatches(cp.subject, recv.rings)
					}
					if !subjOK && plumbMsg == "" {
						plumbMsg = fmt.Sprintf("%s: the subject handed to the clipper is %s, but the receiver's rings are %s (every ring and vertex of the receiver, and nothing else, in order)", ctx, showRings(cp.subject), showRings(recv.rings))
					}
					clipOK := sameRings(cp.clip, arg.rings)
					if arg.name == "*Bounds" {
						clipOK = boxRingMatches(cp.clip, arg.rings)
					}
					if !clipOK && plumbMsg == "" {
						plumbMsg = fmt.Sprintf("%s: the clipping operand handed to the clipper is %s, but the argument's rings are %s (every ring of every polygon of the argument, in order)", ctx, showRings(cp.clip), showRings(arg.rings))
					}
					if why != "" {
						if closeMsg == "" {
							closeMsg = "?" + ctx + ": result not interpretable: " + why
						}
						continue
					}
					got, ok := ringsOf(res[0])
					if !ok {
						// a MultiPolygon result: flatten one level
						got, ok = flattenPolys(res[0])
					}
					if (!ok || !sameRings(got, closedWant)) && closeMsg == "" {
						closeMsg = fmt.Sprintf("%s: the clipper returned contours %s and the method returns %s; want every contour with its first vertex repeated at the end (closed rings), nothing dropped", ctx, showRings(m.ret), showRings(got))
					}
				}
			}
			c.Evals(runs)
			report := func(rule, cons, msg, okText string) {
				switch {
				case msg == "":
					c.OK(rule, cons, pos, "%s", okText)
				case strings.HasPrefix(msg, "?"):
					c.Unk(rule, cons, pos, "%s", msg[1:])
				default:
					c.Bad(rule, cons, pos, "%s", msg)
				}
			}
			if reached == 0 && strings.HasPrefix(plumbMsg, "?") {
				c.Unk(ruleOp, label, pos, "no operand combination could be followed to the clipper: %s", plumbMsg[1:])
				continue
			} else if reached == 0 {
				c.Bad(ruleOp, label, pos, "no operand combination reaches the clipper")
				continue
			}
			report(ruleOp, label, opMsg, fmt.Sprintf("reaches Construct with polyclip.%s for every operand shape (%d model runs)", c01ops[mn], reached))
			report(rulePlumb, label+"#operands", plumbMsg, "subject = all rings of the receiver, clipping = all rings of all polygons of the argument, vertex for vertex")
			report(ruleClose, label+"#result", closeMsg, "every contour the clipper returns comes back as a ring closed with its first vertex")
		}
	}
}

func flattenPolys(v oval) ([][]oBoxPt, bool) {
	if iv, ok := v.(oIface); ok {
		v = iv.dyn
	}
	s, ok := v.(oSlice)
	if !ok {
		return nil, false
	}
	var out [][]oBoxPt
	for i := 0; i < s.length(); i++ {
		r, ok := ringsOf(s.at(i))
		if !ok {
			return nil, false
		}
		out = append(out, r...)
	}
	return out, true
}

func (it *oInterp) ifaceOf(v oval) oval {
	switch x := v.(type) {
	case oIface:
		return x
	}
	return oIface{dyn: v}
}

func sortStrings(s []string) {
	for i := 1; i < len(s); i++ {
		for j := i; j > 0 && s[j] < s[j-1]; j-- {
			s[j], s[j-1] = s[j-1], s[j]
		}
	}
}

// runClip evaluates LineString.Clip / MultiLineString.Clip with the clipper stubbed.
func (m *clipModel) runClip(ruleRoles, ruleStrip string) {
	c := m.c
	var clipline int64 = -1
	if dep := c.P.Dep(polyclipPath); dep != nil {
		if cst, ok := dep.Types.Scope().Lookup("CLIPLINE").(*types.Const); ok {
			clipline, _ = constInt64Obj(cst)
		}
	}
	m.ret = [][]oBoxPt{{{9000, 9002}, {9004, 9006}, {9008, 9010}}, {{9012, 9014}, {9016, 9018}}}
	line := func(n int) (oSlice, []oBoxPt) { return m.ring(m.lsT, m.ptT, n) }
	type subj struct {
		name  string
		val   oval
		lines [][]oBoxPt
	}
	mk := func(tn string) []subj {
		var out []subj
		if tn == "LineString" {
			for _, n := range []int{2, 3} {
				l, pts := line(n)
				out = append(out, subj{fmt.Sprintf("LineString(%d points)", n), l, [][]oBoxPt{pts}})
			}
			// an axis-parallel line: both vertices share their Y coordinate
			a, b := m.fresh(), m.fresh()
			pts := []oBoxPt{{a.x, a.y}, {b.x, a.y}}
			vals := []oval{m.it.point(m.ptT, a.x, a.y), m.it.point(m.ptT, b.x, a.y)}
			out = append(out, subj{"LineString(horizontal)", m.sliceOf(m.lsT, vals), [][]oBoxPt{pts}})
			return out
		}
		for _, sizes := range [][]int{{3}, {2, 3}, {2, 1, 3}} {
			var ls []oval
			var all [][]oBoxPt
			for _, n := range sizes {
				l, pts := line(n)
				ls = append(ls, l)
				all = append(all, pts)
			}
			out = append(out, subj{fmt.Sprintf("MultiLineString(%d lines)", len(sizes)), m.sliceOf(m.mlsT, ls), all})
		}
		// a member that is axis-parallel, between two ordinary members
		l1, p1 := line(2)
		a, b := m.fresh(), m.fresh()
		hp := []oBoxPt{{a.x, a.y}, {b.x, a.y}}
		hl := m.sliceOf(m.lsT, []oval{m.it.point(m.ptT, a.x, a.y), m.it.point(m.ptT, b.x, a.y)})
		l3, p3 := line(3)
		out = append(out, subj{"MultiLineString(with a horizontal member)", m.sliceOf(m.mlsT, []oval{l1, hl, l3}), [][]oBoxPt{p1, hp, p3}})
		return out
	}
	for _, tn := range []string{"LineString", "MultiLineString"} {
		fn := c.P.Method("geom", tn, "Clip")
		if fn == nil || c.P.Decl(fn) == nil {
			c.Unk(ruleRoles, "geom."+tn+".Clip", token.NoPos, "API anchor does not resolve")
			continue
		}
		label, pos := c.P.FuncName(fn), c.P.Decl(fn).Pos()
		var rolesMsg, stripMsg string
		runs, reached := 0, 0
		for _, s := range mk(tn) {
			args := m.operands()
			// a polygon argument whose extent covers the line, and a box across it
			args = append(args, m.boxAcross(s.lines))
			for _, arg := range args {
				runs++
				m.cap = &clipCapture{}
				res, why := m.it.Call(fn, s.val, []oval{m.it.ifaceOf(arg.val)}, 0)
				cp := m.cap
				m.cap = nil
				ctx := fmt.Sprintf("%s.Clip(%s)", s.name, arg.name)
				if cp.calls == 0 {
					if why != "" {
						if rolesMsg == "" {
							rolesMsg = "?" + ctx + ": not interpretable: " + why
						}
						continue
					}
					// returned without clipping: only right when the operands' closed boxes are disjoint
					if !boxesDisjoint(s.lines, arg.rings) && rolesMsg == "" {
						rolesMsg = fmt.Sprintf("%s returns %s without calling the clipper although the extents of the line and of the polygon overlap", ctx, showVal(res[0]))
					}
					continue
				}
				reached++
				if cp.bad != "" && (rolesMsg == "" || strings.HasPrefix(cp.bad, "?")) {
					rolesMsg = ctx + ": " + cp.bad
					if strings.HasPrefix(cp.bad, "?") {
						rolesMsg = "?" + ctx + ": " + cp.bad[1:]
					}
				}
				if cp.op != clipline && rolesMsg == "" {
					rolesMsg = fmt.Sprintf("%s reaches Construct with operation %d, want polyclip.CLIPLINE (%d)", ctx, cp.op, clipline)
				}
				if !sameRings(cp.subject, s.lines) && rolesMsg == "" {
					rolesMsg = fmt.Sprintf("%s: the subject handed to the clipper is %s but the lines are %s (every line a contour, vertex for vertex, in order)", ctx, showRings(cp.subject), showRings(s.lines))
				}
				clipOK := sameRings(cp.clip, arg.rings)
				if arg.name == "*Bounds" {
					clipOK = boxRingMatches(cp.clip, arg.rings)
				}
				if !clipOK && rolesMsg == "" {
					rolesMsg = fmt.Sprintf("%s: the clipping operand handed to the clipper is %s but the polygon's rings are %s", ctx, showRings(cp.clip), showRings(arg.rings))
				}
				if why != "" {
					if stripMsg == "" {
						stripMsg = "?" + ctx + ": result not interpretable: " + why
					}
					continue
				}
				got, ok := ringsOf(res[0])
				if (!ok || !sameRings(got, m.ret)) && stripMsg == "" {
					stripMsg = fmt.Sprintf("%s: the clipper returned the pieces %s and Clip returns %s; want exactly those pieces (the closing vertex the result converter adds must be stripped again, nothing else dropped)", ctx, showRings(m.ret), showRings(got))
				}
			}
		}
		c.Evals(runs)
		report := func(rule, cons, msg, okText string) {
			switch {
			case msg == "":
				c.OK(rule, cons, pos, "%s", okText)
			case strings.HasPrefix(msg, "?"):
				c.Unk(rule, cons, pos, "%s", msg[1:])
			default:
				c.Bad(rule, cons, pos, "%s", msg)
			}
		}
		if reached == 0 && rolesMsg == "" {
			rolesMsg = "no model input reaches the clipper"
		}
		report(ruleRoles, label, rolesMsg, fmt.Sprintf("line(s) → subject contours, polygon → clipping operand, CLIPLINE; %d model runs, %d reach the clipper, the others return empty for disjoint extents", runs, reached))
		report(ruleStrip, label, stripMsg, "the pieces the clipper returns come back vertex for vertex")
	}
}

// boxesDisjoint: the closed bounding boxes of the two vertex sets share no point.
func boxesDisjoint(a, b [][]oBoxPt) bool {
	box := func(rs [][]oBoxPt) (oBox, bool) {
		first := true
		var o oBox
		for _, r := range rs {
			for _, p := range r {
				if first {
					o = oBox{p.x, p.y, p.x, p.y}
					first = false
					continue
				}
				o.minx, o.maxx = min64(o.minx, p.x), max64(o.maxx, p.x)
				o.miny, o.maxy = min64(o.miny, p.y), max64(o.maxy, p.y)
			}
		}
		return o, !first
	}
	x, okx := box(a)
	y, oky := box(b)
	if !okx || !oky {
		return true
	}
	return x.maxx < y.minx || y.maxx < x.minx || x.maxy < y.miny || y.maxy < x.miny
}
