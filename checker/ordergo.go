package main

// Goroutines, channels and wait groups under one sequential schedule (opt-in: seqGo).
//
// A `go` statement, and a function handed to (*errgroup.Group).Go, is recorded and run when the
// spawning code waits — (*errgroup.Group).Wait, (*sync.WaitGroup).Wait — or receives from a
// channel that is still empty.  Channels are unbounded FIFO queues; ranging over a channel ends
// when it is empty and closed.  For a producer that only sends and then closes before it waits,
// this is the schedule in which the first worker takes every item in the order sent: one of the
// schedules the program allows, so what it computes must be right.  It is not a claim about the
// other schedules (C18.R1/R2/R4/R6 are about those).

import (
	"go/ast"
	"go/token"
	"go/types"
	"strings"
)

type oChan struct {
	q      *[]oval
	closed *bool
	typ    types.Type
}

type goThunk func() (errVal oval, why string)

// runPending runs the recorded goroutines (and those they spawn) to completion; it returns the
// first non-nil error value a goroutine function returned, or nil.
func (it *oInterp) runPending() (oval, string) {
	var firstErr oval
	for rounds := 0; len(it.pending) > 0; rounds++ {
		if rounds > 4096 {
			return nil, "goroutines keep spawning goroutines"
		}
		t := it.pending[0]
		it.pending = it.pending[1:]
		ev, why := t()
		if why != "" {
			it.pending = nil
			return nil, why
		}
		if ev != nil && firstErr == nil {
			if eq, ok := oEqual(ev, oNil{}); ok && !eq {
				firstErr = ev
			} else if !ok {
				return nil, "a goroutine returns the error " + showVal(ev)
			}
		}
	}
	return firstErr, ""
}

func (fr *oFrame) goStmt(s *ast.GoStmt) oCtl {
	if !fr.it.seqGo {
		return fr.abort("go statement at %s", fr.it.p.Position(s.Pos()))
	}
	fv := fr.eval(s.Call.Fun)
	var args []oval
	for _, a := range s.Call.Args {
		args = append(args, fr.rvalue(fr.eval(a)))
	}
	if isTop(fv) {
		return fr.abort("go of %s at %s", showVal(fv), fr.it.p.Position(s.Pos()))
	}
	it := fr.it
	it.pending = append(it.pending, func() (oval, string) {
		_, why := it.CallValue(fv, args)
		return nil, why
	})
	return oNormal
}

func (fr *oFrame) sendStmt(s *ast.SendStmt) oCtl {
	ch, ok := fr.eval(s.Chan).(oChan)
	if !ok || !fr.it.seqGo {
		return fr.abort("send on %s at %s", showVal(fr.eval(s.Chan)), fr.it.p.Position(s.Pos()))
	}
	if *ch.closed {
		return fr.abort("panic: send on closed channel at %s", fr.it.p.Position(s.Pos()))
	}
	v := fr.rvalue(fr.eval(s.Value))
	if et, ok := ch.typ.Underlying().(*types.Chan); ok {
		if _, isIface := et.Elem().Underlying().(*types.Interface); isIface {
			v = fr.toIface(v)
		}
	}
	*ch.q = append(*ch.q, v)
	return oNormal
}

// recv takes the next item: (value, ok); blocked=true when the channel is open and empty even after
// the pending goroutines ran.
func (fr *oFrame) recv(ch oChan) (v oval, ok bool, why string) {
	if len(*ch.q) == 0 && !*ch.closed && len(fr.it.pending) > 0 {
		if _, w := fr.it.runPending(); w != "" {
			return nil, false, w
		}
	}
	if len(*ch.q) > 0 {
		v = (*ch.q)[0]
		*ch.q = (*ch.q)[1:]
		return v, true, ""
	}
	if *ch.closed {
		if ct, isChan := ch.typ.Underlying().(*types.Chan); isChan {
			return fr.it.zero(ct.Elem()), false, ""
		}
		return oNil{}, false, ""
	}
	return nil, false, "receive from an open, empty channel with nothing left to run (the sequential schedule blocks)"
}

// rangeChan: `for v := range ch`.
func (fr *oFrame) rangeChan(s *ast.RangeStmt, ch oChan, saved *oEnv, myLabel string) oCtl {
	for iter := 0; ; iter++ {
		if iter > fr.it.loopLimit() {
			return fr.abort("range over a channel: more than %d items", fr.it.loopLimit())
		}
		v, ok, why := fr.recv(ch)
		if why != "" {
			return fr.abort("%s at %s", why, fr.it.p.Position(s.Pos()))
		}
		if !ok {
			return oNormal
		}
		fr.env = &oEnv{vars: map[types.Object]*oval{}, parent: saved}
		if s.Key != nil {
			if c := fr.store(s.Key, v, s.Tok == token.DEFINE); c != oNormal {
				return c
			}
		}
		c := fr.block(s.Body.List)
		if c == oLabelled && myLabel != "" && fr.pendingLabel == myLabel {
			fr.pendingLabel = ""
			if fr.pendingTok == token.BREAK {
				return oNormal
			}
			continue
		}
		switch c {
		case oBreak:
			return oNormal
		case oContinue, oNormal:
		default:
			return c
		}
	}
}

// goLib: errgroup and WaitGroup under the sequential schedule.
func (it *oInterp) goLib(f *types.Func, recv oval, args []oval) ([]oval, bool) {
	if !it.seqGo || f.Pkg() == nil {
		return nil, false
	}
	switch f.FullName() {
	case "(*golang.org/x/sync/errgroup.Group).Go", "(*golang.org/x/sync/errgroup.Group).TryGo":
		if len(args) != 1 || isTop(args[0]) {
			return nil, false
		}
		fv := args[0]
		it.pending = append(it.pending, func() (oval, string) {
			res, why := it.CallValue(fv, nil)
			if why != "" {
				return nil, why
			}
			if len(res) == 1 {
				return res[0], ""
			}
			return nil, ""
		})
		if f.Name() == "TryGo" {
			return []oval{oBool(true)}, true
		}
		return nil, true
	case "(*golang.org/x/sync/errgroup.Group).Wait":
		ev, why := it.runPending()
		if why != "" {
			return []oval{abortedTop("a goroutine of the group: " + why)}, true
		}
		if ev == nil {
			return []oval{oNil{}}, true
		}
		return []oval{ev}, true
	case "(*golang.org/x/sync/errgroup.Group).SetLimit":
		return nil, true
	case "golang.org/x/sync/errgroup.WithContext":
		if len(args) == 1 {
			if rt, ok := f.Type().(*types.Signature).Results().At(0).Type().(*types.Pointer); ok {
				if st, ok := it.zero(rt.Elem()).(*oStruct); ok {
					return []oval{oPtr{st}, args[0]}, true
				}
			}
		}
	case "(*sync.WaitGroup).Wait":
		if _, why := it.runPending(); why != "" {
			return []oval{abortedTop("a goroutine waited for: " + why)}, true
		}
		return nil, true
	case "(*sync.WaitGroup).Add", "(*sync.WaitGroup).Done":
		return nil, true
	case "(*sync.WaitGroup).Go":
		if len(args) == 1 && !isTop(args[0]) {
			fv := args[0]
			it.pending = append(it.pending, func() (oval, string) {
				_, why := it.CallValue(fv, nil)
				return nil, why
			})
			return nil, true
		}
	}
	return nil, false
}

// atomicLib: sync/atomic with its sequential meaning (functions on a pointer to an integer, and
// the methods of atomic.Int32/Int64/Uint32/Uint64/Bool, whose value lives in the field v).
func (it *oInterp) atomicLib(f *types.Func, recv oval, args []oval) ([]oval, bool) {
	if f.Pkg() == nil || f.Pkg().Path() != "sync/atomic" {
		return nil, false
	}
	var cell oRef
	rest := args
	name := f.Name()
	if f.Type().(*types.Signature).Recv() != nil {
		p, ok := recv.(oPtr)
		if !ok || p.s == nil {
			return nil, false
		}
		if _, has := p.s.fields["v"]; !has {
			return nil, false
		}
		cell = oRef{st: p.s, field: "v"}
	} else {
		if len(args) == 0 {
			return nil, false
		}
		r, ok := args[0].(oRef)
		if !ok {
			return nil, false
		}
		cell, rest = r, args[1:]
		for _, suf := range []string{"Int32", "Int64", "Uint32", "Uint64", "Uintptr", "Pointer"} {
			if len(name) > len(suf) && name[len(name)-len(suf):] == suf {
				name = name[:len(name)-len(suf)]
			}
		}
	}
	isBool := false
	if cur, ok := cell.load().(oInt); ok && f.Type().(*types.Signature).Recv() != nil {
		// atomic.Bool keeps 0/1 in a uint32
		if nt, ok := f.Type().(*types.Signature).Recv().Type().(*types.Pointer); ok {
			if n, ok := nt.Elem().(*types.Named); ok && n.Obj().Name() == "Bool" {
				isBool = true
				_ = cur
			}
		}
	}
	toCell := func(v oval) oval {
		if b, ok := v.(oBool); ok && isBool {
			if b {
				return oInt(1)
			}
			return oInt(0)
		}
		return v
	}
	fromCell := func(v oval) oval {
		if i, ok := v.(oInt); ok && isBool {
			return oBool(i != 0)
		}
		return v
	}
	switch name {
	case "Load":
		if len(rest) == 0 {
			return []oval{fromCell(cell.load())}, true
		}
	case "Store":
		if len(rest) == 1 {
			cell.storeVal(toCell(rest[0]))
			return nil, true
		}
	case "Swap":
		if len(rest) == 1 {
			old := cell.load()
			cell.storeVal(toCell(rest[0]))
			return []oval{fromCell(old)}, true
		}
	case "Add":
		if len(rest) == 1 {
			a, ok1 := cell.load().(oInt)
			b, ok2 := rest[0].(oInt)
			if ok1 && ok2 {
				v := wrapInt(a+b, f.Type().(*types.Signature).Results().At(0).Type())
				cell.storeVal(v)
				return []oval{v}, true
			}
		}
	case "CompareAndSwap":
		if len(rest) == 2 {
			eq, ok := oEqual(cell.load(), toCell(rest[0]))
			if !ok {
				return nil, false
			}
			if eq {
				cell.storeVal(toCell(rest[1]))
			}
			return []oval{oBool(eq)}, true
		}
	}
	return nil, false
}

// mutexLib: sync.Mutex and sync.RWMutex in a sequential interpretation.  Locking cannot block a
// single thread of control, but the state still matters: releasing a mutex that is not held is a
// fatal error of the run-time system, and acquiring one the same thread already holds never
// returns.  The state is kept per mutex value (the struct the receiver points to).
func (it *oInterp) mutexLib(f *types.Func, recv oval, args []oval) ([]oval, bool) {
	if f.Pkg() == nil || f.Pkg().Path() != "sync" {
		return nil, false
	}
	full := f.FullName()
	if !strings.HasPrefix(full, "(*sync.Mutex).") && !strings.HasPrefix(full, "(*sync.RWMutex).") {
		return nil, false
	}
	var p oPtr
	switch r := recv.(type) {
	case oPtr:
		p = r
	case *oStruct:
		p = oPtr{r}
	}
	if p.s == nil {
		return nil, false
	}
	if it.mutexState == nil {
		it.mutexState = map[*oStruct]int{}
	}
	st := it.mutexState[p.s]
	switch f.Name() {
	case "Lock":
		if st != 0 {
			it.libPanic = "deadlock: " + full + " on a mutex this thread of control already holds"
			return nil, true
		}
		it.mutexState[p.s] = -1
	case "Unlock":
		if st != -1 {
			it.libPanic = "panic: fatal error: sync: unlock of unlocked mutex (" + full + ")"
			return nil, true
		}
		it.mutexState[p.s] = 0
	case "RLock":
		if st == -1 {
			it.libPanic = "deadlock: " + full + " on a mutex this thread of control holds exclusively"
			return nil, true
		}
		it.mutexState[p.s] = st + 1
	case "RUnlock":
		if st <= 0 {
			it.libPanic = "panic: fatal error: sync: RUnlock of unlocked RWMutex (" + full + ")"
			return nil, true
		}
		it.mutexState[p.s] = st - 1
	case "TryLock":
		if st != 0 {
			return []oval{oBool(false)}, true
		}
		it.mutexState[p.s] = -1
		return []oval{oBool(true)}, true
	default:
		return nil, false
	}
	return nil, true
}
