package main

// C09.R6 — the geocentric datum shift (3- and 7-parameter), by model evaluation.
//
// The datum of a reference parsed from symbolic +towgs84 values is handed, with a symbolic
// geocentric position (X, Y, Z), to every function of package proj that takes one datum and three
// ordinates and gives three ordinates back.  Those whose results are rational in the position and
// mention a shift parameter are the shift functions, whatever they are called and however they
// are split into helpers.  With t = (p0, p1, p2) the translation, r = (p3, p4, p5) the rotations
// and m = p6 the scale as the datum stores them, the two directions must be exactly
//
//	to WGS84:    m·(X − r_z·Y + r_y·Z) + t_x,  m·(r_z·X + Y − r_x·Z) + t_y,  m·(−r_y·X + r_x·Y + Z) + t_z
//	from WGS84:  with (X', Y', Z') = ((X,Y,Z) − t)/m:   X' + r_z·Y' − r_y·Z',  −r_z·X' + Y' + r_x·Z',  r_y·X' − r_x·Y' + Z'
//
// (3 parameters: (X,Y,Z) + t and (X,Y,Z) − t) — equality of rational terms, so sign, axis,
// transposition, scale and ordering-of-updates mistakes all differ from the specification.  The
// whole shift (the function taking two datums) is then evaluated with those functions and the
// geodetic↔geocentric conversions left as named operations: the source datum's "to" must be
// applied before the destination datum's "from", inside the conversions, the height must travel
// with the position, and neither datum may be changed by the call (C10.R1).

import (
	"fmt"
	"go/ast"
	"go/token"
	"go/types"
	"math/big"
	"regexp"
	"sort"
	"strings"
)

type shiftFn struct {
	fn       *types.Func
	datumPos int // -1: receiver
}

var shiftParamSym = regexp.MustCompile(`\bp(9|10|11|2[1-7])\b`)

func c09shiftModel(cc *Ctx, rule, ruleState string) {
	c := &ruleGate{cc}
	m, parse := newC20m(cc)
	if m == nil {
		c.Unk(rule, "proj.Parse", token.NoPos, "API anchor does not resolve")
		return
	}
	pk := cc.P.Pkg("proj")
	datumT := cc.P.NamedType("proj", "datum")
	if datumT == nil {
		c.Unk(rule, "proj.datum", token.NoPos, "type anchor does not resolve")
		return
	}
	isDatumPtr := func(t types.Type) bool {
		pt, ok := t.(*types.Pointer)
		return ok && types.Identical(pt.Elem(), datumT)
	}
	// the class: one datum, three ordinates in, three ordinates (and perhaps an error) out
	var class []shiftFn
	var whole *types.Func
	for _, fn := range cc.P.RepoFuncs() {
		if cc.P.DeclPkg(fn) != pk || cc.P.Decl(fn) == nil {
			continue
		}
		sig := fn.Type().(*types.Signature)
		nd, nf, dpos, okSig := 0, 0, -2, true
		if sig.Recv() != nil {
			if isDatumPtr(sig.Recv().Type()) {
				nd, dpos = 1, -1
			} else {
				continue
			}
		}
		for i := 0; i < sig.Params().Len(); i++ {
			switch t := sig.Params().At(i).Type(); {
			case isDatumPtr(t):
				nd++
				if dpos == -2 {
					dpos = i
				}
			case isFloat64(t):
				nf++
			default:
				okSig = false
			}
		}
		if !okSig || nf != 3 || sig.Results().Len() < 3 {
			continue
		}
		for i := 0; i < 3; i++ {
			if !isFloat64(sig.Results().At(i).Type()) {
				okSig = false
			}
		}
		if !okSig {
			continue
		}
		switch nd {
		case 1:
			class = append(class, shiftFn{fn, dpos})
		case 2:
			if sig.Recv() == nil && whole == nil {
				whole = fn
			}
		}
	}
	sort.Slice(class, func(i, j int) bool { return cc.P.FuncName(class[i].fn) < cc.P.FuncName(class[j].fn) })
	if len(class) == 0 {
		c.Unk(rule, "proj#datum-shift", token.NoPos, "no function of one datum and three ordinates found")
		return
	}
	m.it.maxLoop = 64
	val := m.it.valuation
	val["gx"], val["gy"], val["gz"] = 4.1e6, 1.2e6, 4.7e6
	val["lam"], val["phi"], val["hh"] = -1.62, 0.72, 120
	symWiden = val
	defer func() { symWiden = nil }()
	datumOf := func(text string) (*oStruct, string) {
		sr, why := m.run(parse, text)
		if why != "" {
			return nil, why
		}
		for _, name := range sr.order {
			if p, ok := sr.fields[name].(oPtr); ok && p.s != nil && p.s.typ != nil && types.Identical(p.s.typ, datumT) {
				return p.s, ""
			}
		}
		return nil, "the parsed reference has no datum"
	}
	d7, why7 := datumOf("+proj=longlat +a=P7 +rf=P8 +towgs84=P21,P22,P23,P24,P25,P26,P27 +no_defs")
	d3, why3 := datumOf("+proj=longlat +a=P7 +rf=P8 +towgs84=P9,P10,P11 +no_defs")
	if why7 != "" || why3 != "" {
		c.Unk(rule, "proj#datum-shift", token.NoPos, "the references with a datum shift are not interpretable: %s%s", why7, why3)
		return
	}
	params := func(d *oStruct) []poly {
		for _, name := range d.order {
			if sl, ok := d.fields[name].(oSlice); ok && sl.length() >= 3 {
				var out []poly
				for i := 0; i < sl.length(); i++ {
					p, ok := symOf(sl.at(i))
					if !ok {
						return nil
					}
					out = append(out, p)
				}
				return out
			}
		}
		return nil
	}
	X, Y, Z := polyVar("gx"), polyVar("gy"), polyVar("gz")
	callOn := func(sf shiftFn, d *oStruct, x, y, z poly) ([]poly, string) {
		cc.Evals(1)
		var recv oval
		var args []oval
		sig := sf.fn.Type().(*types.Signature)
		if sf.datumPos == -1 {
			recv = oPtr{d}
		}
		ord := []poly{x, y, z}
		k := 0
		for i := 0; i < sig.Params().Len(); i++ {
			if i == sf.datumPos {
				args = append(args, oPtr{d})
			} else {
				args = append(args, oSym{ord[k]})
				k++
			}
		}
		res, why := m.it.Call(sf.fn, recv, args, 0)
		if why != "" {
			return nil, why
		}
		var out []poly
		for i := 0; i < 3; i++ {
			p, ok := symOf(res[i])
			if !ok {
				return nil, "result " + showVal(res[i])
			}
			out = append(out, p)
		}
		return out, ""
	}
	rational := func(ps []poly) bool {
		for _, p := range ps {
			for k := range p {
				for _, f := range strings.Split(k, "*") {
					if strings.Contains(f, "(") && !strings.HasPrefix(f, "inv(") {
						return false
					}
				}
			}
		}
		return true
	}
	mentions := func(ps []poly) bool {
		for _, p := range ps {
			if shiftParamSym.MatchString(p.canon()) {
				return true
			}
		}
		return false
	}
	type specT struct {
		name string
		v    [3]poly
	}
	specsAt := func(dp []poly, X, Y, Z poly) []specT {
		neg := func(p poly) poly { return p.scale(ratInt(-1)) }
		sum := func(ps ...poly) poly {
			out := poly{}
			for _, p := range ps {
				out = out.add(p, 1)
			}
			return out
		}
		if len(dp) == 3 {
			return []specT{
				{"to WGS84", [3]poly{sum(X, dp[0]), sum(Y, dp[1]), sum(Z, dp[2])}},
				{"from WGS84", [3]poly{sum(X, neg(dp[0])), sum(Y, neg(dp[1])), sum(Z, neg(dp[2]))}},
			}
		}
		tx, ty, tz, rx, ry, rz, s := dp[0], dp[1], dp[2], dp[3], dp[4], dp[5], dp[6]
		to := [3]poly{
			sum(symMul(s, sum(X, neg(symMul(rz, Y)), symMul(ry, Z))), tx),
			sum(symMul(s, sum(symMul(rz, X), Y, neg(symMul(rx, Z)))), ty),
			sum(symMul(s, sum(neg(symMul(ry, X)), symMul(rx, Y), Z)), tz),
		}
		inv, _ := symInv(s)
		x1, y1, z1 := symMul(sum(X, neg(tx)), inv), symMul(sum(Y, neg(ty)), inv), symMul(sum(Z, neg(tz)), inv)
		from := [3]poly{
			sum(x1, symMul(rz, y1), neg(symMul(ry, z1))),
			sum(neg(symMul(rz, x1)), y1, symMul(rx, z1)),
			sum(symMul(ry, x1), neg(symMul(rx, y1)), z1),
		}
		return []specT{{"to WGS84", to}, {"from WGS84", from}}
	}
	specs := func(dp []poly) []specT { return specsAt(dp, X, Y, Z) }
	// the conversions between geodetic and geocentric coordinates: members of the class whose
	// evaluation needs a transcendental function
	conv := map[*types.Func]shiftFn{}
	sawMath := false
	// while the functions are classified, anything transcendental ends the evaluation: a shift is
	// rational in the position (the conversions, with their iterative solvers, are not evaluated)
	plain := m.it.stub
	m.it.stub = func(f *types.Func, recv oval, args []oval) ([]oval, bool) {
		if f.Pkg() != nil && f.Pkg().Path() == "math" {
			sawMath = true
			n := f.Type().(*types.Signature).Results().Len()
			out := make([]oval, n)
			for i := range out {
				out[i] = oTop{"math." + f.Name() + " in a datum shift"}
			}
			return out, true
		}
		return plain(f, recv, args)
	}
	axis := [3]string{"X", "Y", "Z"}
	role := map[*types.Func]string{} // function → "to WGS84" / "from WGS84" (by the 7-parameter formulas)
	for _, dcase := range []struct {
		what string
		d    *oStruct
		n    int
	}{{"7-parameter", d7, 7}, {"3-parameter", d3, 3}} {
		dp := params(dcase.d)
		if len(dp) != dcase.n {
			c.Unk(rule, "proj#shift("+dcase.what+")", token.NoPos, "the datum of a %s reference does not hold %d parameters", dcase.what, dcase.n)
			continue
		}
		sp := specs(dp)
		found := map[string]*types.Func{}
		for _, sf := range class {
			// a conversion: needs a transcendental function on a geodetic or on a geocentric position
			sawMath = false
			callOn(sf, dcase.d, polyVar("lam"), polyVar("phi"), polyVar("hh"))
			res, why := callOn(sf, dcase.d, X, Y, Z)
			if sawMath {
				conv[sf.fn] = sf
			}
			if why != "" {
				// not interpretable on a geocentric position: a conversion with an iterative solver; not a
				// shift function unless nothing else is found (reported below)
				continue
			}
			if !rational(res) || !mentions(res) {
				continue
			}
			cons := fmt.Sprintf("%s#shift(%s)", cc.P.FuncName(sf.fn), dcase.what)
			pos := cc.P.Decl(sf.fn).Pos()
			match, firstDiff := "", ""
			for _, s := range sp {
				ok := true
				for i := 0; i < 3; i++ {
					if !symRationalEqual(res[i], s.v[i]) {
						ok = false
						if firstDiff == "" || s.name == role[sf.fn] {
							firstDiff = fmt.Sprintf("%s' = %s, the shift %s gives %s", axis[i], short(res[i].canon()), s.name, short(s.v[i].canon()))
						}
						break
					}
				}
				if ok {
					match = s.name
				}
			}
			switch {
			case match == "":
				c.Bad(rule, cons, pos, "the %s shift is neither direction of the Helmert formula: %s (translation t = p0..p2, rotations r = p3..p5, scale m = p6 as stored in the datum)", dcase.what, firstDiff)
			case role[sf.fn] != "" && role[sf.fn] != match:
				c.Bad(rule, cons, pos, "%s is the shift %s for seven parameters and the shift %s for three", sf.fn.Name(), role[sf.fn], match)
			default:
				// several functions may compute the same direction (a method and the helper it forwards
				// to); that the pair used by the whole shift is "to, then from" is decided below
				if found[match] == nil {
					found[match] = sf.fn
				}
				role[sf.fn] = match
				c.OK(rule, cons, pos, "equals the %s shift %s as a rational term in (X, Y, Z) and the stored parameters", dcase.what, match)
			}
		}
	}
	m.it.stub = plain
	// ---- the whole shift, as one identity.  The outermost function of two datums and three
	// ordinates is evaluated between the 7-parameter and the 3-parameter datum with the conversions
	// left as named operations and everything else interpreted: the position must go through the
	// source's conversion to geocentric coordinates G, then the destination's conversion back must
	// be given exactly from₃(to₇(G)), and its three results must be what the shift returns.
	var wholes []*types.Func
	for _, fn := range cc.P.RepoFuncs() {
		if cc.P.DeclPkg(fn) != pk || cc.P.Decl(fn) == nil {
			continue
		}
		sig := fn.Type().(*types.Signature)
		// two datums and a position of two (λ, φ: the height is zero) or three ordinates
		np := sig.Params().Len()
		if sig.Recv() != nil || (np != 4 && np != 5) || sig.Results().Len() < np-2 {
			continue
		}
		floats := true
		for i := 2; i < np; i++ {
			floats = floats && isFloat64(sig.Params().At(i).Type())
		}
		if isDatumPtr(sig.Params().At(0).Type()) && isDatumPtr(sig.Params().At(1).Type()) && floats && isFloat64(sig.Results().At(0).Type()) {
			wholes = append(wholes, fn)
		}
	}
	calledByAnother := map[*types.Func]bool{}
	for _, a := range wholes {
		ast.Inspect(cc.P.Decl(a).Body, func(n ast.Node) bool {
			if call, ok := n.(*ast.CallExpr); ok {
				if g := callee(pk.TypesInfo, call); g != nil && g != a {
					calledByAnother[g] = true
				}
			}
			return true
		})
	}
	whole = nil
	for _, a := range wholes {
		if !calledByAnother[a] && whole == nil {
			whole = a
		}
	}
	if whole == nil || cc.P.Decl(whole) == nil {
		c.Unk(rule, "proj#datum-shift(order)", token.NoPos, "no function of two datums and three ordinates found")
		return
	}
	if len(conv) == 0 {
		c.Unk(rule, cc.P.FuncName(whole)+"#steps", cc.P.Decl(whole).Pos(), "no conversion between geodetic and geocentric coordinates (a function of one datum and three ordinates that uses a transcendental function) found")
		return
	}
	type step struct {
		fn    *types.Func
		label string
		args  [3]poly
	}
	var steps []step
	labels := map[*oStruct]string{d7: "source", d3: "destination"}
	inner := m.it.stub
	m.it.stub = func(f *types.Func, recv oval, args []oval) ([]oval, bool) {
		sf, ok := conv[f]
		if !ok {
			return inner(f, recv, args)
		}
		var d *oStruct
		var ord []poly
		if sf.datumPos == -1 {
			if p, ok := recv.(oPtr); ok {
				d = p.s
			}
		}
		for i, a := range args {
			if i == sf.datumPos {
				if p, ok := a.(oPtr); ok {
					d = p.s
				}
				continue
			}
			p, ok := symOf(a)
			if !ok {
				return nil, false
			}
			ord = append(ord, p)
		}
		if d == nil || len(ord) != 3 {
			return nil, false
		}
		l := labels[d]
		name := fmt.Sprintf("%s@%s/%d", f.Name(), l, len(steps))
		steps = append(steps, step{f, l, [3]poly{ord[0], ord[1], ord[2]}})
		sig := f.Type().(*types.Signature)
		out := []oval{oSym{symAtom(name+"#0", ord...)}, oSym{symAtom(name+"#1", ord...)}, oSym{symAtom(name+"#2", ord...)}}
		for i := 3; i < sig.Results().Len(); i++ {
			out = append(out, oIface{})
		}
		return out, true
	}
	defer func() { m.it.stub = inner }()
	nOrd := whole.Type().(*types.Signature).Params().Len() - 2
	wholeArgs := func(ds, dd *oStruct) []oval {
		args := []oval{oPtr{ds}, oPtr{dd}, oSym{polyVar("lam")}, oSym{polyVar("phi")}}
		if nOrd == 3 {
			args = append(args, oSym{polyVar("hh")})
		}
		return args
	}
	height := poly{} // what the first conversion must be given as the height
	if nOrd == 3 {
		height = polyVar("hh")
	}
	cons := cc.P.FuncName(whole) + "#steps"
	pos := cc.P.Decl(whole).Pos()
	before := showVal(d7) + "|" + showVal(d3)
	cc.Evals(1)
	res, why := m.it.Call(whole, nil, wholeArgs(d7, d3), 0)
	switch {
	case why != "":
		c.Unk(rule, cons, pos, "the shift between a 7-parameter and a 3-parameter datum is not interpretable: %s", why)
		return
	case len(res) < nOrd:
		c.Unk(rule, cons, pos, "result count")
		return
	}
	outAtom := func(i int, k int) poly {
		st := steps[i]
		return symAtom(fmt.Sprintf("%s@%s/%d#%d", st.fn.Name(), st.label, i, k), st.args[0], st.args[1], st.args[2])
	}
	bad := ""
	var seq []string
	for _, st := range steps {
		seq = append(seq, fmt.Sprintf("%s (%s datum)", st.fn.Name(), st.label))
	}
	switch {
	case len(steps) != 2:
		bad = fmt.Sprintf("between a 7-parameter and a 3-parameter datum the position goes through %d conversions between geodetic and geocentric coordinates (%s), not one to geocentric coordinates and one back", len(steps), strings.Join(seq, ", "))
	case steps[0].label != "source" || steps[1].label != "destination":
		bad = "the conversions are not the source datum's to geocentric coordinates followed by the destination datum's back (" + strings.Join(seq, ", ") + ")"
	case !steps[0].args[0].equal(polyVar("lam")) || !steps[0].args[1].equal(polyVar("phi")) || !steps[0].args[2].equal(height):
		bad = "the conversion to geocentric coordinates is not given the longitude, latitude and height the shift was called with"
	default:
		g := [3]poly{outAtom(0, 0), outAtom(0, 1), outAtom(0, 2)}
		mid := specsAt(params(d7), g[0], g[1], g[2])[0].v
		want := specsAt(params(d3), mid[0], mid[1], mid[2])[1].v
		for k := 0; k < 3 && bad == ""; k++ {
			if !symRationalEqual(steps[1].args[k], want[k]) {
				bad = fmt.Sprintf("with (X, Y, Z) the geocentric position of the source, the conversion back is given %s' = %s; the source's shift to WGS84 followed by the destination's shift from WGS84 gives %s (translation t = p0..p2, rotations r = p3..p5, scale m = p6 of each datum)", axis[k], short(steps[1].args[k].canon()), short(want[k].canon()))
			}
		}
		for k := 0; k < nOrd && bad == ""; k++ {
			if got, ok := symOf(res[k]); !ok || !got.equal(outAtom(1, k)) {
				bad = fmt.Sprintf("result %d of the shift is not ordinate %d of the conversion back to geodetic coordinates", k+1, k+1)
			}
		}
	}
	if bad != "" {
		c.Bad(rule, cons, pos, "%s", bad)
	} else {
		c.OK(rule, cons, pos, "geodetic → geocentric with the source datum, then exactly from₃(to₇(·)) as a rational term, then geocentric → geodetic with the destination datum; all three ordinates travel through")
	}
	// ---- the closed-form conversion.  Of the conversions, the one from geodetic to geocentric
	// coordinates has no iteration: evaluated on a symbolic (λ, φ, h) it must be, term for term,
	//   N = a / sqrt(1 − e²·sin²φ),  X = (N + h)·cosφ·cosλ,  Y = (N + h)·cosφ·sinλ,  Z = (N·(1 − e²) + h)·sinφ
	// with a and e² the datum's own.  (The way back is iterative and is not compared.)
	{
		var convFns []*types.Func
		for f := range conv {
			convFns = append(convFns, f)
		}
		sort.Slice(convFns, func(i, j int) bool { return cc.P.FuncName(convFns[i]) < cc.P.FuncName(convFns[j]) })
		aP, okA := symOf(d3.fields["a"])
		esP, okE := symOf(d3.fields["es"])
		closed := 0
		convStub := m.it.stub
		m.it.stub = inner // the conversions interpreted, not named
		for _, f := range convFns {
			if len(steps) == 0 || steps[0].fn != f {
				continue // only the conversion the shift starts with (geodetic → geocentric)
			}
			sf := conv[f]
			loops := false
			ast.Inspect(cc.P.Decl(f).Body, func(n ast.Node) bool {
				switch n.(type) {
				case *ast.ForStmt, *ast.RangeStmt:
					loops = true
				}
				return !loops
			})
			if loops {
				continue // the iterative way back
			}
			lam, phi, hh := polyVar("lam"), polyVar("phi"), polyVar("hh")
			res, why := callOn(sf, d3, lam, phi, hh)
			if why != "" || !okA || !okE {
				continue // iterative (the way back), or a datum whose fields have other names
			}
			closed++
			cons := cc.P.FuncName(f) + "#closed-form"
			pos := cc.P.Decl(f).Pos()
			sinP, _ := symMath("Sin", []poly{phi})
			cosP, _ := symMath("Cos", []poly{phi})
			sinL, _ := symMath("Sin", []poly{lam})
			cosL, _ := symMath("Cos", []poly{lam})
			one := polyConst(ratInt(1))
			root := symSqrt(one.add(symMul(esP, symMul(sinP, sinP)), -1))
			invRoot, ok := symInv(root)
			if !ok {
				c.Unk(rule, cons, pos, "the reference formula has no term (1/sqrt)")
				continue
			}
			N := symMul(aP, invRoot)
			want := [3]poly{
				symMul(symMul(N.add(hh, 1), cosP), cosL),
				symMul(symMul(N.add(hh, 1), cosP), sinL),
				symMul(symMul(N, one.add(esP, -1)).add(hh, 1), sinP),
			}
			bad := ""
			for i := 0; i < 3 && bad == ""; i++ {
				if !res[i].equal(want[i]) && !symRationalEqual(res[i], want[i]) {
					bad = fmt.Sprintf("%s' = %s; the geocentric %s of (λ, φ, h) on the datum's ellipsoid is %s", axis[i], short(res[i].canon()), axis[i], short(want[i].canon()))
				}
			}
			if bad != "" {
				c.Bad(rule, cons, pos, "%s", bad)
			} else {
				c.OK(rule, cons, pos, "equals (N + h)·cosφ·cosλ, (N + h)·cosφ·sinλ, (N·(1 − e²) + h)·sinφ with N = a/sqrt(1 − e²·sin²φ), term for term")
			}
		}
		_ = closed
		m.it.stub = convStub
	}
	// ---- when may the shift be skipped?  Only between datums that agree in everything: kind,
	// ellipsoid and every shift parameter.  Pairs of references that differ in exactly one of these
	// must go through geocentric coordinates (two conversions); a pair that was skipped must return
	// the position unchanged.
	{
		base3 := [3]string{"P9", "P10", "P11"}
		base7 := [7]string{"P21", "P22", "P23", "P24", "P25", "P26", "P27"}
		val["p30"], val["p31"] = 6.3e6, 2.5
		type pairT struct {
			what, src, dst string
			differ         bool
		}
		ell := "+proj=longlat +a=P7 +rf=P8 "
		pairs := []pairT{
			{"two references with the same three shift values and the same ellipsoid", ell + "+towgs84=" + strings.Join(base3[:], ",") + " +no_defs", ell + "+towgs84=" + strings.Join(base3[:], ",") + " +no_defs", false},
			{"the same three shift values on ellipsoids of different size", ell + "+towgs84=" + strings.Join(base3[:], ",") + " +no_defs", "+proj=longlat +a=P30 +rf=P8 +towgs84=" + strings.Join(base3[:], ",") + " +no_defs", true},
		}
		for k := 0; k < 3; k++ {
			v := base3
			v[k] = "P31"
			pairs = append(pairs, pairT{fmt.Sprintf("three-value shifts that differ in value %d only", k+1), ell + "+towgs84=" + strings.Join(base3[:], ",") + " +no_defs", ell + "+towgs84=" + strings.Join(v[:], ",") + " +no_defs", true})
		}
		for k := 0; k < 7; k++ {
			v := base7
			v[k] = "P31"
			pairs = append(pairs, pairT{fmt.Sprintf("seven-value shifts that differ in value %d only", k+1), ell + "+towgs84=" + strings.Join(base7[:], ",") + " +no_defs", ell + "+towgs84=" + strings.Join(v[:], ",") + " +no_defs", true})
		}
		consS := cc.P.FuncName(whole) + "#skipped-only-between-equal-datums"
		badS, unkS := "", ""
		for _, pr := range pairs {
			if badS != "" || unkS != "" {
				break
			}
			ds, why1 := datumOf(pr.src)
			dd, why2 := datumOf(pr.dst)
			if why1 != "" || why2 != "" {
				unkS = pr.what + ": the references are not interpretable: " + why1 + why2
				break
			}
			labels[ds], labels[dd] = "source", "destination"
			steps = nil
			cc.Evals(1)
			res, why := m.it.Call(whole, nil, wholeArgs(ds, dd), 0)
			switch {
			case strings.HasPrefix(why, "panic:"):
				badS = pr.what + ": the shift panics: " + why
			case why != "" || len(res) < nOrd:
				unkS = pr.what + ": the shift is not interpretable: " + why
			case pr.differ && len(steps) != 2:
				badS = fmt.Sprintf("%s: the position goes through %d conversions between geodetic and geocentric coordinates, not two — datums that differ are treated as equal and the shift is skipped", pr.what, len(steps))
			case len(steps) == 0:
				for k, in := range []string{"lam", "phi", "hh"}[:nOrd] {
					if got, ok := symOf(res[k]); !ok || !got.equal(polyVar(in)) {
						badS = fmt.Sprintf("%s: the shift is skipped but ordinate %d comes back as %s", pr.what, k+1, showVal(res[k]))
					}
				}
			}
		}
		switch {
		case badS != "":
			c.Bad(rule, consS, pos, "%s", badS)
		case unkS != "":
			c.Unk(rule, consS, pos, "%s", unkS)
		default:
			c.OK(rule, consS, pos, "%d pairs of references: equal datums may skip the shift and then return the position unchanged; datums differing in the ellipsoid or in any single shift value go through geocentric coordinates", len(pairs))
		}
	}
	if ruleState != "" {
		cons := cc.P.FuncName(whole) + "#datums-unchanged"
		if after := showVal(d7) + "|" + showVal(d3); after != before {
			c.Bad(ruleState, cons, pos, "the datum shift changes one of the two datums it is given (%s): the next transformation through the same reference sees different parameters", firstDiff(before, after))
		} else {
			c.OK(ruleState, cons, pos, "both datums are as they were after a shift through geocentric coordinates")
		}
	}
}

func ratInt(n int64) *big.Rat { return big.NewRat(n, 1) }

// ruleGate drops reports filed under an empty rule (a model shared by two properties files each
// facet under the rule of the property that is being checked).
type ruleGate struct{ c *Ctx }

func (g *ruleGate) OK(rule, cons string, pos token.Pos, format string, a ...interface{}) {
	if rule != "" {
		g.c.OK(rule, cons, pos, format, a...)
	}
}
func (g *ruleGate) Bad(rule, cons string, pos token.Pos, format string, a ...interface{}) {
	if rule != "" {
		g.c.Bad(rule, cons, pos, format, a...)
	}
}
func (g *ruleGate) Unk(rule, cons string, pos token.Pos, format string, a ...interface{}) {
	if rule != "" {
		g.c.Unk(rule, cons, pos, format, a...)
	}
}
