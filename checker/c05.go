package main

// C05 — WKB / hex: byte-exact OGC layout, lossless.
//
// R1 layout: the format tree extracted from the writers and readers equals the
//    OGC simple-features WKB layout for each of the seven types (E7).
// R2 byte-order threading.  R3 code/type/flag tables.  R4 hex wraps the same bytes.

import (
	"fmt"
	"go/ast"
	"go/token"
	"go/types"
	"sort"
	"strings"

	"golang.org/x/tools/go/ssa"
)

func init() { register("C05", true, checkC05) }

var wkbCodes = map[string]int64{"Point": 1, "LineString": 2, "Polygon": 3, "MultiPoint": 4, "MultiLineString": 5, "MultiPolygon": 6, "GeometryCollection": 7}
var wkbMember = map[string]string{"MultiPoint": "Point", "MultiLineString": "LineString", "MultiPolygon": "Polygon", "GeometryCollection": "Geom"}

func wkbTypeNames() []string {
	var ns []string
	for n := range wkbCodes {
		ns = append(ns, n)
	}
	sort.Slice(ns, func(i, j int) bool { return wkbCodes[ns[i]] < wkbCodes[ns[j]] })
	return ns
}

type c05 struct {
	c       *Ctx
	info    *types.Info
	write   *types.Func
	read    *types.Func
	undec   string
	readers map[int64]*types.Func
}

func checkC05(c *Ctx) {
	c.Rule("C05.R1", "writer, evaluated with encoding/binary replaced by a typed stream: for model geometries of all seven types (empty members, nested collections) and both byte orders the stream Write produces is the OGC layout U8 order · U32 code · body, counts = number of members that follow, Multi*/Collection members complete WKB of their own, every multi-byte item in the requested order")
	c.Rule("C05.R2", "reader: Read on each reference stream returns the geometry (type, shape, vertices) and consumes the stream exactly; members written in the other byte order decode correctly (each element is read in the order its own flag announces); point arrays longer than the allocation chunk come back complete")
	c.Rule("C05.R3", "code and flag tables by behaviour: truncated messages, unknown type codes, flag bytes other than 0/1 and members of the wrong kind are rejected with an error")
	c.Rule("C05.R4", "hex.Encode is EncodeToString of exactly wkb.Encode's bytes; hex.Decode passes DecodeString's bytes unchanged to wkb.Decode")
	c.Rule("C05.R5", "the bytes/string Encode returns are freshly allocated in the call: they do not share storage with a package-level buffer or a sync.Pool object (an encoding the caller keeps stays the encoding of its geometry)")
	pk := c.P.Pkg("encoding/wkb")
	if pk == nil {
		c.Unk("C05.R1", "encoding/wkb", token.NoPos, "package not loaded")
		return
	}
	a := &c05{c: c, info: pk.TypesInfo, write: c.P.Func("encoding/wkb", "Write"), read: c.P.Func("encoding/wkb", "Read"), readers: map[int64]*types.Func{}}
	if c.P.Decl(a.write) == nil || c.P.Decl(a.read) == nil {
		c.Unk("C05.R1", "encoding/wkb.Read/Write", token.NoPos, "API anchors do not resolve")
		return
	}
	c05model(c, "C05.R1", "C05.R2", "C05.R3")
	a.hexWrap()
	checkFreshResult(c, "C05.R5", c.P.Func("encoding/wkb", "Encode"), c.P.Func("encoding/hex", "Encode"))
	c.Floor("C05.R5", 2)
	c.Floor("C05.R1", 7)
	c.Floor("C05.R2", 7)
	c.Floor("C05.R3", 1)
	c.Floor("C05.R4", 2)
}

func isByteOrderType(t types.Type) bool { return isNamed(t, "encoding/binary", "ByteOrder") }

func isBinaryRW(f *types.Func, name string) bool { return isFuncIn(f, "encoding/binary", name) }

// ---------------------------------------------------------------- R3 tables

// geomTypeName: "Point" for geom.Point etc.; "Geom" for the interface; "" otherwise.
func geomTypeName(t types.Type) string {
	n, ok := types.Unalias(t).(*types.Named)
	if !ok || n.Obj().Pkg() == nil || n.Obj().Pkg().Path() != modPath {
		return ""
	}
	return n.Obj().Name()
}

func (a *c05) tables() {
	c := a.c
	wfd := c.P.Decl(a.write)
	// (1) writer code table: type switch assigning a constant to a uint32 variable
	codeOf := map[string]int64{}
	var codePos token.Pos
	ast.Inspect(wfd.Body, func(n ast.Node) bool {
		sw, ok := n.(*ast.TypeSwitchStmt)
		if !ok {
			return true
		}
		_, cls := typeSwitch(a.info, sw)
		for _, cl := range cls {
			if len(cl.Clause.Body) != 1 {
				continue
			}
			as, ok := cl.Clause.Body[0].(*ast.AssignStmt)
			if !ok || len(as.Rhs) != 1 {
				continue
			}
			k, ok := constInt(a.info, as.Rhs[0])
			if !ok {
				continue
			}
			for _, t := range cl.Types {
				if t != nil {
					if tn := geomTypeName(t); tn != "" {
						codeOf[tn] = k
						codePos = sw.Pos()
					}
				}
			}
		}
		return true
	})
	for _, tn := range wkbTypeNames() {
		cons := "encoding/wkb.Write#code(" + tn + ")"
		got, ok := codeOf[tn]
		switch {
		case !ok:
			c.Bad("C05.R3", cons, codePos, "no type code is assigned for geom.%s", tn)
		case got != wkbCodes[tn]:
			c.Bad("C05.R3", cons, codePos, "geom.%s is written with type code %d, OGC code is %d", tn, got, wkbCodes[tn])
		default:
			c.OK("C05.R3", cons, codePos, "code %d", got)
		}
	}
	for tn := range codeOf {
		if _, ok := wkbCodes[tn]; !ok {
			c.Bad("C05.R3", "encoding/wkb.Write#code("+tn+")", codePos, "geom.%s has no OGC 2-D WKB code but is given one", tn)
		}
	}
	// (2) reader registry from init(): m[const] = fn
	for _, f := range pk(c, "encoding/wkb").Syntax {
		for _, d := range f.Decls {
			fd, ok := d.(*ast.FuncDecl)
			if !ok || fd.Name.Name != "init" || fd.Recv != nil {
				continue
			}
			ast.Inspect(fd.Body, func(n ast.Node) bool {
				as, ok := n.(*ast.AssignStmt)
				if !ok || len(as.Lhs) != 1 || len(as.Rhs) != 1 {
					return true
				}
				ix, ok := unparen(as.Lhs[0]).(*ast.IndexExpr)
				if !ok {
					return true
				}
				k, ok := constInt(a.info, ix.Index)
				fn, _ := objOf(a.info, as.Rhs[0]).(*types.Func)
				if ok && fn != nil {
					if prev, dup := a.readers[k]; dup && prev != fn {
						c.Bad("C05.R3", fmt.Sprintf("encoding/wkb#reader(%d)", k), as.Pos(), "type code %d is registered twice", k)
					}
					a.readers[k] = fn
				}
				return true
			})
		}
	}
	// also accept a composite-literal registry
	if len(a.readers) == 0 {
		for _, f := range pk(c, "encoding/wkb").Syntax {
			ast.Inspect(f, func(n ast.Node) bool {
				cl, ok := n.(*ast.CompositeLit)
				if !ok {
					return true
				}
				if _, isMap := a.info.TypeOf(cl).Underlying().(*types.Map); !isMap {
					return true
				}
				for _, el := range cl.Elts {
					kv, ok := el.(*ast.KeyValueExpr)
					if !ok {
						continue
					}
					k, ok := constInt(a.info, kv.Key)
					fn, _ := objOf(a.info, kv.Value).(*types.Func)
					if ok && fn != nil {
						a.readers[k] = fn
					}
				}
				return true
			})
		}
	}
	for _, tn := range wkbTypeNames() {
		code := wkbCodes[tn]
		cons := fmt.Sprintf("encoding/wkb#reader(%d)", code)
		fn := a.readers[code]
		if fn == nil {
			c.Bad("C05.R3", cons, token.NoPos, "no reader is registered for OGC type code %d (%s)", code, tn)
			continue
		}
		// concrete type returned: dynamic type of the MakeInterface at non-error returns
		sf := c.P.SSAFunc(fn)
		ret := map[string]bool{}
		if sf != nil {
			for _, b := range sf.Blocks {
				for _, in := range b.Instrs {
					r, ok := in.(*ssa.Return)
					if !ok || len(r.Results) < 1 {
						continue
					}
					switch v := r.Results[0].(type) {
					case *ssa.MakeInterface:
						ret[geomTypeName(v.X.Type())] = true
					case *ssa.Const:
						// nil (error path)
					default:
						ret["?"] = true
					}
				}
			}
		}
		var got []string
		for k := range ret {
			got = append(got, k)
		}
		sort.Strings(got)
		if len(got) == 1 && got[0] == tn {
			c.OK("C05.R3", cons, c.P.Decl(fn).Pos(), "%s returns geom.%s", fn.Name(), tn)
		} else {
			c.Bad("C05.R3", cons, c.P.Decl(fn).Pos(), "the reader registered for code %d (%s) returns %v, want geom.%s", code, fn.Name(), got, tn)
		}
		// member type asserted
		if want, isMulti := wkbMember[tn]; isMulti {
			mcons := fmt.Sprintf("encoding/wkb#member(%d)", code)
			fd := c.P.Decl(fn)
			var asserted []string
			ast.Inspect(fd.Body, func(n ast.Node) bool {
				if ta, ok := n.(*ast.TypeAssertExpr); ok && ta.Type != nil {
					asserted = append(asserted, geomTypeName(a.info.TypeOf(ta.Type)))
				}
				return true
			})
			switch {
			case len(asserted) == 1 && asserted[0] == want:
				c.OK("C05.R3", mcons, fd.Pos(), "members asserted to geom.%s", want)
			case len(asserted) == 0 && want == "Geom":
				c.OK("C05.R3", mcons, fd.Pos(), "members of any geometry type")
			default:
				c.Bad("C05.R3", mcons, fd.Pos(), "members of a %s are asserted to %v, want geom.%s", tn, asserted, want)
			}
		}
	}
	for k, fn := range a.readers {
		known := false
		for _, code := range wkbCodes {
			if code == k {
				known = true
			}
		}
		if !known {
			c.Bad("C05.R3", fmt.Sprintf("encoding/wkb#reader(%d)", k), c.P.Decl(fn).Pos(), "a reader is registered for type code %d, which is not a 2-D OGC code this package can write", k)
		}
	}
	a.flagTables()
}

func pk(c *Ctx, short string) *pkgT { return c.P.Pkg(short) }

// flagTables: Write: switch order {case XDR: flag=0; case NDR: flag=1; default: error};
// Read: switch flag {case 0: order=BigEndian; case 1: order=LittleEndian; default: error}.
func (a *c05) flagTables() {
	c := a.c
	orderName := func(e ast.Expr) string {
		e = unparen(e)
		// binary.BigEndian / binary.LittleEndian, or package vars initialised with them
		if sel, ok := e.(*ast.SelectorExpr); ok {
			if v, ok := a.info.Uses[sel.Sel].(*types.Var); ok && v.Pkg() != nil && v.Pkg().Path() == "encoding/binary" {
				return v.Name()
			}
		}
		if v, ok := objOf(a.info, e).(*types.Var); ok && v.Pkg() != nil && v.Parent() == v.Pkg().Scope() {
			// package-level var: find its initialiser
			for _, f := range pk(c, "encoding/wkb").Syntax {
				for _, d := range f.Decls {
					gd, ok := d.(*ast.GenDecl)
					if !ok {
						continue
					}
					for _, sp := range gd.Specs {
						vs, ok := sp.(*ast.ValueSpec)
						if !ok {
							continue
						}
						for i, nm := range vs.Names {
							if a.info.Defs[nm] == v && i < len(vs.Values) {
								if sel, ok := unparen(vs.Values[i]).(*ast.SelectorExpr); ok {
									if bv, ok := a.info.Uses[sel.Sel].(*types.Var); ok && bv.Pkg() != nil && bv.Pkg().Path() == "encoding/binary" {
										// must not be reassigned anywhere
										return bv.Name()
									}
								}
							}
						}
					}
				}
			}
		}
		return ""
	}
	want := map[string]int64{"BigEndian": 0, "LittleEndian": 1}
	// writer direction
	wfd := c.P.Decl(a.write)
	var orderParam types.Object
	for _, p := range paramVars(a.info, wfd.Type) {
		if p != nil && isByteOrderType(p.Type()) {
			orderParam = p
		}
	}
	found := false
	ast.Inspect(wfd.Body, func(n ast.Node) bool {
		sw, ok := n.(*ast.SwitchStmt)
		if !ok || sw.Tag == nil || objOf(a.info, sw.Tag) != orderParam || orderParam == nil {
			return true
		}
		found = true
		got := map[string]int64{}
		defaultErr := false
		for _, cl := range sw.Body.List {
			cc := cl.(*ast.CaseClause)
			if cc.List == nil {
				for _, s := range cc.Body {
					if r, ok := s.(*ast.ReturnStmt); ok && len(r.Results) == 1 && !isNilConst(a.info, r.Results[0]) {
						defaultErr = true
					}
				}
				continue
			}
			if len(cc.Body) == 1 {
				if as, ok := cc.Body[0].(*ast.AssignStmt); ok && len(as.Rhs) == 1 {
					if k, ok := constInt(a.info, as.Rhs[0]); ok {
						for _, e := range cc.List {
							if nm := orderName(e); nm != "" {
								got[nm] = k
							}
						}
					}
				}
			}
		}
		ok2 := defaultErr && len(got) == 2
		for k, v := range want {
			if got[k] != v {
				ok2 = false
			}
		}
		if ok2 {
			c.OK("C05.R3", "encoding/wkb.Write#flag", sw.Pos(), "BigEndian→0, LittleEndian→1, other orders rejected")
		} else {
			c.Bad("C05.R3", "encoding/wkb.Write#flag", sw.Pos(), "byte-order flag table is %v (default is error: %v), OGC is BigEndian→0, LittleEndian→1 and nothing else", got, defaultErr)
		}
		return true
	})
	if !found {
		c.Unk("C05.R3", "encoding/wkb.Write#flag", wfd.Pos(), "switch on the byte-order argument not found")
	}
	// reader direction
	rfd := c.P.Decl(a.read)
	found = false
	ast.Inspect(rfd.Body, func(n ast.Node) bool {
		sw, ok := n.(*ast.SwitchStmt)
		if !ok || sw.Tag == nil {
			return true
		}
		tv := objOf(a.info, sw.Tag)
		if tv == nil {
			return true
		}
		if b, ok := tv.Type().Underlying().(*types.Basic); !ok || b.Kind() != types.Uint8 {
			return true
		}
		found = true
		got := map[string]int64{}
		defaultErr := false
		for _, cl := range sw.Body.List {
			cc := cl.(*ast.CaseClause)
			if cc.List == nil {
				for _, s := range cc.Body {
					if r, ok := s.(*ast.ReturnStmt); ok && len(r.Results) == 2 && !isNilConst(a.info, r.Results[1]) {
						defaultErr = true
					}
				}
				continue
			}
			if len(cc.Body) == 1 {
				if as, ok := cc.Body[0].(*ast.AssignStmt); ok && len(as.Rhs) == 1 {
					if nm := orderName(as.Rhs[0]); nm != "" {
						for _, e := range cc.List {
							if k, ok := constInt(a.info, e); ok {
								got[nm] = k
							}
						}
					}
				}
			}
		}
		ok2 := defaultErr && len(got) == 2
		for k, v := range want {
			if got[k] != v {
				ok2 = false
			}
		}
		if ok2 {
			c.OK("C05.R3", "encoding/wkb.Read#flag", sw.Pos(), "0→BigEndian, 1→LittleEndian, other flags rejected")
		} else {
			c.Bad("C05.R3", "encoding/wkb.Read#flag", sw.Pos(), "byte-order flag table is %v (default is error: %v), OGC is 0→BigEndian, 1→LittleEndian and nothing else", got, defaultErr)
		}
		return true
	})
	if !found {
		c.Unk("C05.R3", "encoding/wkb.Read#flag", rfd.Pos(), "switch on the flag byte not found")
	}
}

// ---------------------------------------------------------------- R1 writers

// wnode is a node of the extracted format tree.
type wnode struct {
	kind string // U8 CODE COUNT POINT POINTS REPEAT WRITE READ
	of   string // data path: $ = the geometry, [] = element
	sub  []*wnode
}

func (n *wnode) String() string {
	switch n.kind {
	case "REPEAT":
		var ss []string
		for _, s := range n.sub {
			ss = append(ss, s.String())
		}
		return "REPEAT(" + n.of + "){" + strings.Join(ss, " ") + "}"
	case "U8", "CODE":
		return n.kind
	}
	return n.kind + "(" + n.of + ")"
}

func treeString(ns []*wnode) string {
	var ss []string
	for _, n := range ns {
		ss = append(ss, n.String())
	}
	return strings.Join(ss, " ")
}

type wenv struct {
	paths map[types.Object]string // variable → data path
	typ   types.Type              // dynamic type assumed for the interface-typed data parameter (Write)
	data  types.Object            // the interface-typed data parameter
}

// callFromStmt extracts CALL from `if err := CALL; err != nil {return err}`,
// `return CALL`, or `err := CALL` / `err = CALL` followed by a check.
func (a *c05) emitCall(st ast.Stmt) *ast.CallExpr {
	switch s := st.(type) {
	case *ast.IfStmt:
		if s.Init != nil {
			if as, ok := s.Init.(*ast.AssignStmt); ok && len(as.Rhs) == 1 {
				if call, ok := unparen(as.Rhs[0]).(*ast.CallExpr); ok {
					return call
				}
			}
		}
	case *ast.ReturnStmt:
		if len(s.Results) == 1 {
			if call, ok := unparen(s.Results[0]).(*ast.CallExpr); ok {
				return call
			}
		}
	case *ast.AssignStmt:
		if len(s.Rhs) == 1 {
			if call, ok := unparen(s.Rhs[0]).(*ast.CallExpr); ok {
				return call
			}
		}
	case *ast.ExprStmt:
		if call, ok := unparen(s.X).(*ast.CallExpr); ok {
			return call
		}
	}
	return nil
}

func (a *c05) pathOf(env *wenv, e ast.Expr) string {
	e = unparen(e)
	if u, ok := e.(*ast.UnaryExpr); ok && u.Op == token.AND {
		e = unparen(u.X)
	}
	// conversions and assertions keep the data
	for {
		switch x := e.(type) {
		case *ast.CallExpr:
			if tv, ok := a.info.Types[x.Fun]; ok && tv.IsType() && len(x.Args) == 1 {
				e = unparen(x.Args[0])
				continue
			}
		case *ast.TypeAssertExpr:
			e = unparen(x.X)
			continue
		}
		break
	}
	if o := objOf(a.info, e); o != nil {
		if p, ok := env.paths[o]; ok {
			return p
		}
	}
	return ""
}

func isPointT(t types.Type) bool {
	if p, ok := t.(*types.Pointer); ok {
		t = p.Elem()
	}
	return geomTypeName(t) == "Point"
}

func isPointsT(t types.Type) bool {
	if p, ok := t.(*types.Pointer); ok {
		t = p.Elem()
	}
	s, ok := t.Underlying().(*types.Slice)
	return ok && geomTypeName(s.Elem()) == "Point"
}

// writerTree extracts the emission sequence of a writer function body.
func (a *c05) writerTree(fn *types.Func, env *wenv, depth int) []*wnode {
	fd := a.c.P.Decl(fn)
	if fd == nil || depth > 6 {
		a.undec = "cannot follow " + fn.Name()
		return nil
	}
	return a.writerStmts(fd.Body.List, env, depth)
}

func (a *c05) writerStmts(list []ast.Stmt, env *wenv, depth int) []*wnode {
	var out []*wnode
	for _, st := range list {
		switch s := st.(type) {
		case *ast.DeclStmt:
			continue
		case *ast.SwitchStmt:
			// the byte-order flag switch (R3): emits nothing
			continue
		case *ast.TypeSwitchStmt:
			op, cls := typeSwitch(a.info, s)
			if op == nil || objOf(a.info, op) != env.data || env.typ == nil {
				a.undec = "type switch on `" + src(op) + "` not understood"
				return out
			}
			var chosen *tsClause
			for i := range cls {
				for _, t := range cls[i].Types {
					if t != nil && types.Identical(t, env.typ) {
						chosen = &cls[i]
					}
				}
			}
			if chosen == nil {
				for i := range cls {
					if cls[i].Default {
						chosen = &cls[i]
					}
				}
			}
			if chosen == nil {
				continue
			}
			sub := env
			if chosen.Bound != nil {
				sub = &wenv{paths: map[types.Object]string{}, typ: env.typ, data: env.data}
				for k, v := range env.paths {
					sub.paths[k] = v
				}
				sub.paths[chosen.Bound] = "$"
			}
			out = append(out, a.writerStmts(chosen.Clause.Body, sub, depth)...)
			continue
		case *ast.RangeStmt:
			p := a.pathOf(env, s.X)
			if p == "" {
				a.undec = "range over `" + src(s.X) + "` is not over the data being written"
				return out
			}
			if s.Key != nil {
				if id, ok := s.Key.(*ast.Ident); !ok || id.Name != "_" {
					// index form: elements addressed as X[i]
				}
			}
			sub := &wenv{paths: map[types.Object]string{}, typ: env.typ, data: env.data}
			for k, v := range env.paths {
				sub.paths[k] = v
			}
			if s.Value != nil {
				if o := objOf(a.info, s.Value); o != nil {
					sub.paths[o] = p + "[]"
				}
			}
			brk, cont, _ := earlyExits(s.Body)
			if len(brk)+len(cont) > 0 {
				a.undec = "writer loop has break/continue"
			}
			out = append(out, &wnode{kind: "REPEAT", of: p, sub: a.writerStmts(s.Body.List, sub, depth)})
			continue
		case *ast.ForStmt:
			a.undec = "three-clause loop in a writer is not modelled"
			return out
		case *ast.ReturnStmt:
			if len(s.Results) == 1 && (isNilConst(a.info, s.Results[0]) || objOf(a.info, s.Results[0]) != nil) {
				continue
			}
			if len(s.Results) == 1 {
				if _, isCall := unparen(s.Results[0]).(*ast.CallExpr); !isCall {
					continue // error value construction
				}
			}
		case *ast.AssignStmt:
			// constant assignments (type code) emit nothing
			if len(s.Rhs) == 1 {
				if _, ok := unparen(s.Rhs[0]).(*ast.CallExpr); !ok {
					continue
				}
			}
		}
		call := a.emitCall(st)
		if call == nil {
			if is, ok := st.(*ast.IfStmt); ok && is.Init == nil {
				// if err != nil { return err }
				continue
			}
			a.undec = "statement `" + src(st) + "` in a writer is not understood"
			return out
		}
		f := callee(a.info, call)
		switch {
		case isBinaryRW(f, "Write") && len(call.Args) == 3:
			x := call.Args[2]
			t := a.info.TypeOf(x)
			bt, _ := t.Underlying().(*types.Basic)
			switch {
			case bt != nil && bt.Kind() == types.Uint8:
				out = append(out, &wnode{kind: "U8"})
			case bt != nil && bt.Kind() == types.Uint32:
				// uint32(len(P)) or the code variable
				if cv, ok := unparen(x).(*ast.CallExpr); ok && len(cv.Args) == 1 {
					if la := lenArg(a.info, cv.Args[0]); la != nil {
						p := a.pathOf(env, la)
						if p == "" {
							a.undec = "count `" + src(x) + "` is not the length of the data being written"
						}
						out = append(out, &wnode{kind: "COUNT", of: p})
						continue
					}
				}
				if objOf(a.info, x) != nil {
					out = append(out, &wnode{kind: "CODE"})
					continue
				}
				a.undec = "uint32 value `" + src(x) + "` is neither a count nor the type code"
			case isPointT(t):
				out = append(out, &wnode{kind: "POINT", of: a.pathOf(env, x)})
			case isPointsT(t):
				out = append(out, &wnode{kind: "POINTS", of: a.pathOf(env, x)})
			default:
				a.undec = "binary.Write of `" + src(x) + "` (" + t.String() + ") is not a WKB primitive"
			}
		case f == a.write && len(call.Args) == 3:
			out = append(out, &wnode{kind: "WRITE", of: a.pathOf(env, call.Args[2])})
		case f != nil && a.c.P.Decl(f) != nil && len(call.Args) >= 3:
			// helper writer(w, order, data): inline
			cfd := a.c.P.Decl(f)
			ps := paramVars(a.info, cfd.Type)
			sub := &wenv{paths: map[types.Object]string{}}
			dataIdx := len(ps) - 1
			if ps[dataIdx] != nil {
				p := a.pathOf(env, call.Args[dataIdx])
				if p == "" {
					a.undec = "helper `" + f.Name() + "` is not given the data being written"
				}
				sub.paths[ps[dataIdx]] = p
			}
			out = append(out, a.writerTree(f, sub, depth+1)...)
		default:
			a.undec = "call `" + src(call) + "` in a writer is not understood"
			return out
		}
		// a `return CALL` ends the sequence
		if _, isRet := st.(*ast.ReturnStmt); isRet {
			return out
		}
	}
	return out
}

func specWriter(tn string) string {
	head := "U8 CODE "
	switch tn {
	case "Point":
		return head + "POINT($)"
	case "LineString":
		return head + "COUNT($) POINTS($)"
	case "Polygon":
		return head + "COUNT($) REPEAT($){COUNT($[]) POINTS($[])}"
	default:
		return head + "COUNT($) REPEAT($){WRITE($[])}"
	}
}

func (a *c05) layoutWriters() {
	c := a.c
	wfd := c.P.Decl(a.write)
	ps := paramVars(a.info, wfd.Type)
	data := ps[len(ps)-1]
	for _, tn := range wkbTypeNames() {
		cons := "encoding/wkb.Write#layout(" + tn + ")"
		t := c.P.NamedType("geom", tn)
		if t == nil {
			c.Unk("C05.R1", cons, token.NoPos, "geom.%s does not resolve", tn)
			continue
		}
		a.undec = ""
		env := &wenv{paths: map[types.Object]string{data: "$"}, typ: t, data: data}
		tree := treeString(a.writerTree(a.write, env, 0))
		want := specWriter(tn)
		switch {
		case a.undec != "":
			c.Unk("C05.R1", cons, wfd.Pos(), "%s (extracted so far: %s)", a.undec, tree)
		case tree == want:
			c.OK("C05.R1", cons, wfd.Pos(), "%s", tree)
		default:
			c.Bad("C05.R1", cons, wfd.Pos(), "bytes written for a geom.%s are laid out as [%s], OGC layout is [%s]", tn, tree, want)
		}
		c.Evals(1)
	}
	// Point field order: struct definition order X then Y (binary.Write emits fields in order)
	pt := c.P.NamedType("geom", "Point")
	if st, ok := pt.Underlying().(*types.Struct); ok {
		good := st.NumFields() == 2 && st.Field(0).Name() == "X" && st.Field(1).Name() == "Y" && isFloat64(st.Field(0).Type()) && isFloat64(st.Field(1).Type())
		if good {
			c.OK("C05.R1", "geom.Point#fields", pt.Obj().Pos(), "struct{X, Y float64}: encoding/binary transfers X then Y, 8 bytes each")
		} else {
			c.Bad("C05.R1", "geom.Point#fields", pt.Obj().Pos(), "geom.Point is not struct{X, Y float64}: encoding/binary would emit a different coordinate layout")
		}
	}
}

// ---------------------------------------------------------------- R1 readers

type renv struct {
	counts map[types.Object]bool   // uint32 variables filled by binary.Read
	slices map[types.Object]string // []Point variables → their length expression (source)
}

// clampHelper: f(n uint32) int with `if n > C { return C }; return int(n)` (0 < f(n) <= n for n > 0).
func (a *c05) clampHelper(f *types.Func) bool {
	fd := a.c.P.Decl(f)
	if fd == nil || len(fd.Body.List) != 2 {
		return false
	}
	ps := paramVars(a.info, fd.Type)
	if len(ps) != 1 || ps[0] == nil {
		return false
	}
	is, ok := fd.Body.List[0].(*ast.IfStmt)
	if !ok || is.Else != nil || len(is.Body.List) != 1 {
		return false
	}
	cond, ok := unparen(is.Cond).(*ast.BinaryExpr)
	if !ok || (cond.Op != token.GTR && cond.Op != token.GEQ) || objOf(a.info, cond.X) != ps[0] {
		return false
	}
	lim, ok := constInt(a.info, cond.Y)
	if !ok || lim <= 0 {
		return false
	}
	r1, ok := is.Body.List[0].(*ast.ReturnStmt)
	if !ok || len(r1.Results) != 1 {
		return false
	}
	rv, ok := constInt(a.info, r1.Results[0])
	if !ok || rv <= 0 || rv > lim {
		return false
	}
	r2, ok := fd.Body.List[1].(*ast.ReturnStmt)
	if !ok || len(r2.Results) != 1 {
		return false
	}
	conv, ok := unparen(r2.Results[0]).(*ast.CallExpr)
	return ok && len(conv.Args) == 1 && objOf(a.info, conv.Args[0]) == ps[0]
}

func (a *c05) readerTree(fn *types.Func, depth int) []*wnode {
	fd := a.c.P.Decl(fn)
	if fd == nil || depth > 6 {
		a.undec = "cannot follow " + fn.Name()
		return nil
	}
	env := &renv{counts: map[types.Object]bool{}, slices: map[types.Object]string{}}
	return a.readerStmts(fd.Body.List, env, depth)
}

// countedLoop recognises `for i := 0; i < N; i++` with N a count variable.
func (a *c05) countedLoop(fs *ast.ForStmt, env *renv) (types.Object, bool) {
	init, ok := fs.Init.(*ast.AssignStmt)
	if !ok || len(init.Lhs) != 1 || len(init.Rhs) != 1 {
		return nil, false
	}
	iv := objOf(a.info, init.Lhs[0])
	if k, ok := constInt(a.info, init.Rhs[0]); !ok || k != 0 || iv == nil {
		return nil, false
	}
	cond, ok := unparen(fs.Cond).(*ast.BinaryExpr)
	if !ok || cond.Op != token.LSS || objOf(a.info, cond.X) != iv {
		return nil, false
	}
	n := objOf(a.info, cond.Y)
	if n == nil || !env.counts[n] {
		return nil, false
	}
	post, ok := fs.Post.(*ast.IncDecStmt)
	if !ok || post.Tok != token.INC || objOf(a.info, post.X) != iv {
		return nil, false
	}
	sc := newFnScope(a.info, fs.Body)
	if sc.writtenIn(iv, fs.Body) || sc.writtenIn(n, fs.Body) {
		return nil, false
	}
	return n, true
}

// chunkLoop recognises
//
//	for rem := N; rem > 0; { chunk := make([]Point, clamp(rem)); READ(&chunk); dst = append(dst, chunk...); rem -= uint32(len(chunk)) }
//
// which reads exactly N points.
func (a *c05) chunkLoop(fs *ast.ForStmt, env *renv) (types.Object, bool) {
	init, ok := fs.Init.(*ast.AssignStmt)
	if !ok || len(init.Lhs) != 1 || len(init.Rhs) != 1 || fs.Post != nil {
		return nil, false
	}
	rem := objOf(a.info, init.Lhs[0])
	n := objOf(a.info, init.Rhs[0])
	if rem == nil || n == nil || !env.counts[n] {
		return nil, false
	}
	cond, ok := unparen(fs.Cond).(*ast.BinaryExpr)
	if !ok || cond.Op != token.GTR || objOf(a.info, cond.X) != rem {
		return nil, false
	}
	if k, ok := constInt(a.info, cond.Y); !ok || k != 0 {
		return nil, false
	}
	var chunk types.Object
	step := 0
	for _, st := range fs.Body.List {
		switch s := st.(type) {
		case *ast.AssignStmt:
			if len(s.Lhs) != 1 || len(s.Rhs) != 1 {
				return nil, false
			}
			lhs := objOf(a.info, s.Lhs[0])
			switch {
			case step == 0 && s.Tok == token.DEFINE:
				mk, ok := unparen(s.Rhs[0]).(*ast.CallExpr)
				if !ok || builtinName(a.info, mk) != "make" || len(mk.Args) != 2 || !isPointsT(a.info.TypeOf(mk.Args[0])) {
					return nil, false
				}
				cl, ok := unparen(mk.Args[1]).(*ast.CallExpr)
				if !ok || len(cl.Args) != 1 || objOf(a.info, cl.Args[0]) != rem {
					return nil, false
				}
				if f := callee(a.info, cl); f == nil || !a.clampHelper(f) {
					return nil, false
				}
				chunk = lhs
				step = 1
			case step == 2 && s.Tok == token.ASSIGN:
				ap, ok := unparen(s.Rhs[0]).(*ast.CallExpr)
				if !ok || builtinName(a.info, ap) != "append" || len(ap.Args) != 2 || !ap.Ellipsis.IsValid() || objOf(a.info, ap.Args[0]) != lhs || objOf(a.info, ap.Args[1]) != chunk {
					return nil, false
				}
				step = 3
			case step == 3 && s.Tok == token.SUB_ASSIGN && lhs == rem:
				cv, ok := unparen(s.Rhs[0]).(*ast.CallExpr)
				if !ok || len(cv.Args) != 1 {
					return nil, false
				}
				la := lenArg(a.info, cv.Args[0])
				if la == nil || objOf(a.info, la) != chunk {
					return nil, false
				}
				step = 4
			default:
				return nil, false
			}
		case *ast.IfStmt:
			call := a.emitCall(s)
			if step != 1 || call == nil || !isBinaryRW(callee(a.info, call), "Read") || len(call.Args) != 3 {
				return nil, false
			}
			u, ok := unparen(call.Args[2]).(*ast.UnaryExpr)
			if !ok || u.Op != token.AND || objOf(a.info, u.X) != chunk {
				return nil, false
			}
			step = 2
		default:
			return nil, false
		}
	}
	return n, step == 4
}

func (a *c05) readerStmts(list []ast.Stmt, env *renv, depth int) []*wnode {
	var out []*wnode
	for _, st := range list {
		switch s := st.(type) {
		case *ast.DeclStmt, *ast.ReturnStmt, *ast.SwitchStmt, *ast.ExprStmt:
			continue
		case *ast.ForStmt:
			if n, ok := a.countedLoop(s, env); ok {
				brk, cont, _ := earlyExits(s.Body)
				if len(brk)+len(cont) > 0 {
					a.undec = "member loop has break/continue"
				}
				out = append(out, &wnode{kind: "REPEAT", of: n.Name(), sub: a.readerStmts(s.Body.List, env, depth)})
				continue
			}
			if n, ok := a.chunkLoop(s, env); ok {
				out = append(out, &wnode{kind: "POINTS", of: n.Name()})
				continue
			}
			a.undec = "loop `for " + src(s.Init) + "; " + src(s.Cond) + "; …` is neither a counted member loop nor the bounded chunk loop"
			return out
		case *ast.RangeStmt:
			a.undec = "range loop in a reader is not modelled"
			return out
		case *ast.AssignStmt:
			if len(s.Rhs) == 1 {
				call, isCall := unparen(s.Rhs[0]).(*ast.CallExpr)
				if !isCall {
					continue
				}
				if b := builtinName(a.info, call); b == "make" || b == "append" {
					if b == "make" && len(call.Args) >= 2 && isPointsT(a.info.TypeOf(call.Args[0])) {
						if o := objOf(a.info, s.Lhs[0]); o != nil {
							env.slices[o] = src(call.Args[1])
						}
					}
					continue
				}
				if tv, ok := a.info.Types[call.Fun]; ok && tv.IsType() {
					continue
				}
			} else {
				continue
			}
		case *ast.IfStmt:
			if s.Init == nil {
				// if !ok { return … } / if err != nil {…}: follow both arms for nested reads
				out = append(out, a.readerStmts(s.Body.List, env, depth)...)
				if s.Else != nil {
					if eb, ok := s.Else.(*ast.BlockStmt); ok {
						out = append(out, a.readerStmts(eb.List, env, depth)...)
					}
				}
				continue
			}
		}
		call := a.emitCall(st)
		if call == nil {
			continue
		}
		f := callee(a.info, call)
		switch {
		case isBinaryRW(f, "Read") && len(call.Args) == 3:
			u, ok := unparen(call.Args[2]).(*ast.UnaryExpr)
			if !ok || u.Op != token.AND {
				a.undec = "binary.Read into `" + src(call.Args[2]) + "`"
				return out
			}
			o := objOf(a.info, u.X)
			t := a.info.TypeOf(u.X)
			bt, _ := t.Underlying().(*types.Basic)
			switch {
			case bt != nil && bt.Kind() == types.Uint8:
				out = append(out, &wnode{kind: "U8"})
			case bt != nil && bt.Kind() == types.Uint32 && o != nil:
				env.counts[o] = true
				out = append(out, &wnode{kind: "COUNT", of: o.Name()})
			case isPointT(t):
				out = append(out, &wnode{kind: "POINT", of: "$"})
			case isPointsT(t) && o != nil && env.slices[o] != "":
				out = append(out, &wnode{kind: "POINTS", of: env.slices[o]})
			default:
				a.undec = "binary.Read into `" + src(u.X) + "` (" + t.String() + ") is not a WKB primitive"
				return out
			}
		case f == a.read:
			out = append(out, &wnode{kind: "READ", of: "$[]"})
		case f != nil && a.c.P.Decl(f) != nil && f.Pkg().Path() == a.read.Pkg().Path():
			out = append(out, a.readerTree(f, depth+1)...)
		default:
			// conversions, error constructors …
		}
		// arms of `if x, err := CALL; err == nil {A} else {B}`
		if is, ok := st.(*ast.IfStmt); ok && is.Init != nil {
			out = append(out, a.readerStmts(is.Body.List, env, depth)...)
			if eb, ok := is.Else.(*ast.BlockStmt); ok {
				out = append(out, a.readerStmts(eb.List, env, depth)...)
			}
		}
	}
	return out
}

// normalise count variable names to n0, n1, … in order of first appearance
func normCounts(s string, ns []*wnode) string {
	names := map[string]string{}
	var walk func(ns []*wnode)
	walk = func(ns []*wnode) {
		for _, n := range ns {
			if n.kind == "COUNT" {
				if _, ok := names[n.of]; !ok {
					names[n.of] = fmt.Sprintf("n%d", len(names))
				}
			}
			walk(n.sub)
		}
	}
	walk(ns)
	var render func(ns []*wnode) string
	render = func(ns []*wnode) string {
		var ss []string
		for _, n := range ns {
			of := n.of
			if r, ok := names[of]; ok {
				of = r
			}
			switch n.kind {
			case "REPEAT":
				ss = append(ss, "REPEAT("+of+"){"+render(n.sub)+"}")
			case "U8", "CODE":
				ss = append(ss, n.kind)
			default:
				ss = append(ss, n.kind+"("+of+")")
			}
		}
		return strings.Join(ss, " ")
	}
	return render(ns)
}

func specReader(tn string) string {
	switch tn {
	case "Point":
		return "POINT($)"
	case "LineString":
		return "COUNT(n0) POINTS(n0)"
	case "Polygon":
		return "COUNT(n0) REPEAT(n0){COUNT(n1) POINTS(n1)}"
	default:
		return "COUNT(n0) REPEAT(n0){READ($[])}"
	}
}

func (a *c05) layoutReaders() {
	c := a.c
	// Read itself: U8 flag, then the code, then dispatch
	rfd := c.P.Decl(a.read)
	a.undec = ""
	head := normCounts("", a.readerTree(a.read, 0))
	if a.undec != "" {
		c.Unk("C05.R1", "encoding/wkb.Read#header", rfd.Pos(), "%s", a.undec)
	} else if head == "U8 COUNT(n0)" {
		// dispatch through the registry with the code just read
		okDispatch := false
		ast.Inspect(rfd.Body, func(n ast.Node) bool {
			if ix, ok := n.(*ast.IndexExpr); ok {
				if _, isMap := a.info.TypeOf(ix.X).Underlying().(*types.Map); isMap {
					if o := objOf(a.info, ix.Index); o != nil {
						if b, ok := o.Type().Underlying().(*types.Basic); ok && b.Kind() == types.Uint32 {
							okDispatch = true
						}
					}
				}
			}
			return true
		})
		if okDispatch {
			c.OK("C05.R1", "encoding/wkb.Read#header", rfd.Pos(), "U8 flag · U32 type code · body by registry[code]")
		} else {
			c.Bad("C05.R1", "encoding/wkb.Read#header", rfd.Pos(), "the type code read is not used to select the reader")
		}
	} else {
		c.Bad("C05.R1", "encoding/wkb.Read#header", rfd.Pos(), "element header is read as [%s], OGC header is [U8 flag, U32 type code]", head)
	}
	for _, tn := range wkbTypeNames() {
		code := wkbCodes[tn]
		cons := fmt.Sprintf("encoding/wkb#reader-layout(%s)", tn)
		fn := a.readers[code]
		if fn == nil {
			c.Unk("C05.R1", cons, token.NoPos, "no reader registered for code %d", code)
			continue
		}
		a.undec = ""
		tree := a.readerTree(fn, 0)
		got := normCounts("", tree)
		want := specReader(tn)
		switch {
		case a.undec != "":
			c.Unk("C05.R1", cons, c.P.Decl(fn).Pos(), "%s (extracted so far: %s)", a.undec, got)
		case got == want:
			c.OK("C05.R1", cons, c.P.Decl(fn).Pos(), "%s", got)
		default:
			c.Bad("C05.R1", cons, c.P.Decl(fn).Pos(), "the body of a %s is read as [%s], OGC layout is [%s]", tn, got, want)
		}
		c.Evals(1)
	}
}

// ---------------------------------------------------------------- R2

func (a *c05) byteOrder() {
	c := a.c
	p := pk(c, "encoding/wkb")
	n := 0
	for _, fn := range c.P.RepoFuncs() {
		if c.P.DeclPkg(fn) != p {
			continue
		}
		fd := c.P.Decl(fn)
		if fd.Body == nil {
			continue
		}
		var orderParam types.Object
		for _, pv := range paramVars(a.info, fd.Type) {
			if pv != nil && isByteOrderType(pv.Type()) {
				orderParam = pv
			}
		}
		sc := newFnScope(a.info, fd.Body)
		perCallee := map[string]int{}
		ast.Inspect(fd.Body, func(nd ast.Node) bool {
			call, ok := nd.(*ast.CallExpr)
			if !ok {
				return true
			}
			f := callee(a.info, call)
			if f == nil {
				// dynamic call (registry reader): find ByteOrder-typed args
				if sig, ok := a.info.TypeOf(call.Fun).Underlying().(*types.Signature); ok {
					for i := 0; i < sig.Params().Len() && i < len(call.Args); i++ {
						if isByteOrderType(sig.Params().At(i).Type()) {
							n++
							a.checkOrderArg(fn, fd, sc, orderParam, call, i, "registry-reader", perCallee, false)
						}
					}
				}
				return true
			}
			sig := f.Type().(*types.Signature)
			for i := 0; i < sig.Params().Len() && i < len(call.Args); i++ {
				if !isByteOrderType(sig.Params().At(i).Type()) {
					continue
				}
				single := false
				if (isBinaryRW(f, "Read") || isBinaryRW(f, "Write")) && len(call.Args) == 3 {
					t := a.info.TypeOf(call.Args[2])
					if pt, ok := t.(*types.Pointer); ok {
						t = pt.Elem()
					}
					if b, ok := t.Underlying().(*types.Basic); ok && (b.Kind() == types.Uint8 || b.Kind() == types.Int8) {
						single = true
					}
				} else if c.P.Decl(f) == nil {
					continue // other external functions taking an order (none today)
				}
				n++
				a.checkOrderArg(fn, fd, sc, orderParam, call, i, f.Name(), perCallee, single)
			}
			return true
		})
	}
	_ = n
}

func (a *c05) checkOrderArg(fn *types.Func, fd *ast.FuncDecl, sc *fnScope, orderParam types.Object, call *ast.CallExpr, i int, calleeName string, perCallee map[string]int, singleByte bool) {
	c := a.c
	perCallee[calleeName]++
	cons := fmt.Sprintf("%s#%s", c.P.FuncName(fn), calleeName)
	if perCallee[calleeName] > 1 {
		cons = fmt.Sprintf("%s#%d", cons, perCallee[calleeName])
	}
	arg := unparen(call.Args[i])
	o := objOf(a.info, arg)
	switch {
	case singleByte:
		c.OK("C05.R2", cons, call.Pos(), "single-byte transfer: byte order is irrelevant")
	case o != nil && o == orderParam:
		c.OK("C05.R2", cons, call.Pos(), "passes the function's own byte-order parameter")
	case o != nil && orderParam == nil && a.decodedOrderVar(fd, sc, o):
		c.OK("C05.R2", cons, call.Pos(), "uses the order decoded from this element's own flag byte")
	default:
		c.Bad("C05.R2", cons, call.Pos(), "`%s` is given byte order `%s`, which is not the order of the element being processed (a constant or foreign order makes one of the two byte orders unreadable / mis-written)", src(call.Fun), src(arg))
	}
}

// decodedOrderVar: local ByteOrder variable assigned only inside the cases of a
// switch on the uint8 flag variable.
func (a *c05) decodedOrderVar(fd *ast.FuncDecl, sc *fnScope, o types.Object) bool {
	if _, isVar := o.(*types.Var); !isVar || !isByteOrderType(o.Type()) {
		return false
	}
	okAll := true
	n := 0
	ast.Inspect(fd.Body, func(nd ast.Node) bool {
		as, ok := nd.(*ast.AssignStmt)
		if !ok {
			return true
		}
		for _, l := range as.Lhs {
			if objOf(a.info, l) != o {
				continue
			}
			n++
			inFlagSwitch := false
			for _, anc := range enclosing(fd.Body, as) {
				if sw, ok := anc.(*ast.SwitchStmt); ok && sw.Tag != nil {
					if tv := objOf(a.info, sw.Tag); tv != nil {
						if b, ok := tv.Type().Underlying().(*types.Basic); ok && b.Kind() == types.Uint8 {
							inFlagSwitch = true
						}
					}
				}
			}
			if !inFlagSwitch {
				okAll = false
			}
		}
		return true
	})
	return okAll && n > 0
}

// ---------------------------------------------------------------- R4

func (a *c05) hexWrap() {
	c := a.c
	hp := pk(c, "encoding/hex")
	if hp == nil {
		c.Unk("C05.R4", "encoding/hex", token.NoPos, "package not loaded")
		return
	}
	info := hp.TypesInfo
	wkbEncode, wkbDecode := c.P.Func("encoding/wkb", "Encode"), c.P.Func("encoding/wkb", "Decode")
	// Encode
	if f := c.P.Func("encoding/hex", "Encode"); f != nil && c.P.Decl(f) != nil {
		fd := c.P.Decl(f)
		ps := paramVars(info, fd.Type)
		sc := newFnScope(info, fd.Body)
		msg := "does not return hex.EncodeToString(wkb.Encode(g, byteOrder))"
		ast.Inspect(fd.Body, func(n ast.Node) bool {
			r, ok := n.(*ast.ReturnStmt)
			if !ok || len(r.Results) != 2 || !isNilConst(info, r.Results[1]) {
				return true
			}
			call, ok := unparen(r.Results[0]).(*ast.CallExpr)
			if !ok || !isFuncIn(callee(info, call), "encoding/hex", "EncodeToString") || len(call.Args) != 1 {
				msg = "success result is `" + src(r.Results[0]) + "`, not encoding/hex.EncodeToString of the WKB bytes (lower-case hexadecimal)"
				return true
			}
			o := objOf(info, call.Args[0])
			var d ast.Expr
			if o != nil {
				d = sc.singleDef(o)
			}
			if d == nil {
				d = call.Args[0]
			}
			inner, ok := unparen(d).(*ast.CallExpr)
			if ok && callee(info, inner) == wkbEncode && len(inner.Args) == 2 && objOf(info, inner.Args[0]) == ps[0] && objOf(info, inner.Args[1]) == ps[1] {
				msg = ""
			} else {
				msg = "the bytes passed to EncodeToString are not wkb.Encode(g, byteOrder)"
			}
			return true
		})
		if msg == "" {
			c.OK("C05.R4", "encoding/hex.Encode", fd.Pos(), "EncodeToString(wkb.Encode(g, byteOrder))")
		} else {
			c.Bad("C05.R4", "encoding/hex.Encode", fd.Pos(), "%s", msg)
		}
	} else {
		c.Unk("C05.R4", "encoding/hex.Encode", token.NoPos, "API anchor does not resolve")
	}
	if f := c.P.Func("encoding/hex", "Decode"); f != nil && c.P.Decl(f) != nil {
		fd := c.P.Decl(f)
		ps := paramVars(info, fd.Type)
		sc := newFnScope(info, fd.Body)
		msg := "does not return wkb.Decode(hex.DecodeString(s))"
		ast.Inspect(fd.Body, func(n ast.Node) bool {
			r, ok := n.(*ast.ReturnStmt)
			if !ok || len(r.Results) != 1 {
				return true
			}
			call, ok := unparen(r.Results[0]).(*ast.CallExpr)
			if !ok || callee(info, call) != wkbDecode || len(call.Args) != 1 {
				return true
			}
			o := objOf(info, call.Args[0])
			var d ast.Expr
			if o != nil {
				d = sc.singleDef(o)
			}
			inner, ok := unparen(d).(*ast.CallExpr)
			if d != nil && ok && isFuncIn(callee(info, inner), "encoding/hex", "DecodeString") && len(inner.Args) == 1 && objOf(info, inner.Args[0]) == ps[0] {
				msg = ""
			} else {
				msg = "the bytes passed to wkb.Decode are not hex.DecodeString(s) unchanged"
			}
			return true
		})
		if msg == "" {
			c.OK("C05.R4", "encoding/hex.Decode", fd.Pos(), "wkb.Decode(DecodeString(s))")
		} else {
			c.Bad("C05.R4", "encoding/hex.Decode", fd.Pos(), "%s", msg)
		}
	} else {
		c.Unk("C05.R4", "encoding/hex.Decode", token.NoPos, "API anchor does not resolve")
	}
}
