package main

// C05 — WKB / hex: byte-exact OGC layout, lossless.
//
// R1 layout: the format tree extracted from the writers and readers equals the
//    OGC simple-features WKB layout for each of the seven types (E7).
// R2 byte-order threading.  R3 code/type/flag tables.  R4 hex wraps the same bytes.

import (
	"go/ast"
	"go/token"
	"go/types"
)

func init() { register("C05", true, checkC05) }

var wkbCodes = map[string]int64{"Point": 1, "LineString": 2, "Polygon": 3, "MultiPoint": 4, "MultiLineString": 5, "MultiPolygon": 6, "GeometryCollection": 7}
var wkbMember = map[string]string{"MultiPoint": "Point", "MultiLineString": "LineString", "MultiPolygon": "Polygon", "GeometryCollection": "Geom"}

type c05 struct {
	c       *Ctx
	info    *types.Info
	write   *types.Func
	read    *types.Func
	undec   string
	readers map[int64]*types.Func
}

func checkC05(c *Ctx) {
	c.Rule("C05.R1", "writer, evaluated with encoding/binary replaced by a typed stream: for model geometries of all seven types (empty members, nested collections) and both byte orders the stream Write produces is the OGC layout U8 order · U32 code · body, counts = number of members that follow, Multi*/Collection members complete WKB of their own, every multi-byte item in the requested order")
	c.Rule("C05.R2", "reader: Read on each reference stream returns the geometry (type, shape, vertices) and consumes the stream exactly; members written in the other byte order decode correctly (each element is read in the order its own flag announces); point arrays longer than the allocation chunk come back complete")
	c.Rule("C05.R3", "code and flag tables by behaviour: truncated messages, unknown type codes, flag bytes other than 0/1 and members of the wrong kind are rejected with an error")
	c.Rule("C05.R4", "hex.Encode is EncodeToString of exactly wkb.Encode's bytes; hex.Decode passes DecodeString's bytes unchanged to wkb.Decode")
	c.Rule("C05.R5", "the bytes/string Encode returns are freshly allocated in the call: they do not share storage with a package-level buffer or a sync.Pool object (an encoding the caller keeps stays the encoding of its geometry)")
	pk := c.P.Pkg("encoding/wkb")
	if pk == nil {
		c.Unk("C05.R1", "encoding/wkb", token.NoPos, "package not loaded")
		return
	}
	a := &c05{c: c, info: pk.TypesInfo, write: c.P.Func("encoding/wkb", "Write"), read: c.P.Func("encoding/wkb", "Read"), readers: map[int64]*types.Func{}}
	if c.P.Decl(a.write) == nil || c.P.Decl(a.read) == nil {
		c.Unk("C05.R1", "encoding/wkb.Read/Write", token.NoPos, "API anchors do not resolve")
		return
	}
	c05model(c, "C05.R1", "C05.R2", "C05.R3")
	a.hexWrap()
	checkFreshResult(c, "C05.R5", c.P.Func("encoding/wkb", "Encode"), c.P.Func("encoding/hex", "Encode"))
	c.Floor("C05.R5", 2)
	c.Floor("C05.R1", 7)
	c.Floor("C05.R2", 7)
	c.Floor("C05.R3", 1)
	c.Floor("C05.R4", 2)
}

// ---------------------------------------------------------------- R3 tables

func pk(c *Ctx, short string) *pkgT { return c.P.Pkg(short) }

// ---------------------------------------------------------------- R1 writers

// wnode is a node of the extracted format tree.
type wnode struct {
	kind string // U8 CODE COUNT POINT POINTS REPEAT WRITE READ
	of   string // data path: $ = the geometry, [] = element
	sub  []*wnode
}

type wenv struct {
	paths map[types.Object]string // variable → data path
	typ   types.Type              // dynamic type assumed for the interface-typed data parameter (Write)
	data  types.Object            // the interface-typed data parameter
}

// ---------------------------------------------------------------- R1 readers

type renv struct {
	counts map[types.Object]bool   // uint32 variables filled by binary.Read
	slices map[types.Object]string // []Point variables → their length expression (source)
}

// ---------------------------------------------------------------- R2

// ---------------------------------------------------------------- R4

func (a *c05) hexWrap() {
	c := a.c
	hp := pk(c, "encoding/hex")
	if hp == nil {
		c.Unk("C05.R4", "encoding/hex", token.NoPos, "package not loaded")
		return
	}
	info := hp.TypesInfo
	wkbEncode, wkbDecode := c.P.Func("encoding/wkb", "Encode"), c.P.Func("encoding/wkb", "Decode")
	// Encode
	if f := c.P.Func("encoding/hex", "Encode"); f != nil && c.P.Decl(f) != nil {
		fd := c.P.Decl(f)
		ps := paramVars(info, fd.Type)
		sc := newFnScope(info, fd.Body)
		msg := "does not return hex.EncodeToString(wkb.Encode(g, byteOrder))"
		ast.Inspect(fd.Body, func(n ast.Node) bool {
			r, ok := n.(*ast.ReturnStmt)
			if !ok || len(r.Results) != 2 || !isNilConst(info, r.Results[1]) {
				return true
			}
			call, ok := unparen(r.Results[0]).(*ast.CallExpr)
			if !ok || !isFuncIn(callee(info, call), "encoding/hex", "EncodeToString") || len(call.Args) != 1 {
				msg = "success result is `" + src(r.Results[0]) + "`, not encoding/hex.EncodeToString of the WKB bytes (lower-case hexadecimal)"
				return true
			}
			o := objOf(info, call.Args[0])
			var d ast.Expr
			if o != nil {
				d = sc.singleDef(o)
			}
			if d == nil {
				d = call.Args[0]
			}
			inner, ok := unparen(d).(*ast.CallExpr)
			if ok && callee(info, inner) == wkbEncode && len(inner.Args) == 2 && objOf(info, inner.Args[0]) == ps[0] && objOf(info, inner.Args[1]) == ps[1] {
				msg = ""
			} else {
				msg = "the bytes passed to EncodeToString are not wkb.Encode(g, byteOrder)"
			}
			return true
		})
		if msg == "" {
			c.OK("C05.R4", "encoding/hex.Encode", fd.Pos(), "EncodeToString(wkb.Encode(g, byteOrder))")
		} else {
			c.Bad("C05.R4", "encoding/hex.Encode", fd.Pos(), "%s", msg)
		}
	} else {
		c.Unk("C05.R4", "encoding/hex.Encode", token.NoPos, "API anchor does not resolve")
	}
	if f := c.P.Func("encoding/hex", "Decode"); f != nil && c.P.Decl(f) != nil {
		fd := c.P.Decl(f)
		ps := paramVars(info, fd.Type)
		sc := newFnScope(info, fd.Body)
		msg := "does not return wkb.Decode(hex.DecodeString(s))"
		ast.Inspect(fd.Body, func(n ast.Node) bool {
			r, ok := n.(*ast.ReturnStmt)
			if !ok || len(r.Results) != 1 {
				return true
			}
			call, ok := unparen(r.Results[0]).(*ast.CallExpr)
			if !ok || callee(info, call) != wkbDecode || len(call.Args) != 1 {
				return true
			}
			o := objOf(info, call.Args[0])
			var d ast.Expr
			if o != nil {
				d = sc.singleDef(o)
			}
			inner, ok := unparen(d).(*ast.CallExpr)
			if d != nil && ok && isFuncIn(callee(info, inner), "encoding/hex", "DecodeString") && len(inner.Args) == 1 && objOf(info, inner.Args[0]) == ps[0] {
				msg = ""
			} else {
				msg = "the bytes passed to wkb.Decode are not hex.DecodeString(s) unchanged"
			}
			return true
		})
		if msg == "" {
			c.OK("C05.R4", "encoding/hex.Decode", fd.Pos(), "wkb.Decode(DecodeString(s))")
		} else {
			c.Bad("C05.R4", "encoding/hex.Decode", fd.Pos(), "%s", msg)
		}
	} else {
		c.Unk("C05.R4", "encoding/hex.Decode", token.NoPos, "API anchor does not resolve")
	}
}
