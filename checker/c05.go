package main

// C05 — WKB / hex: byte-exact OGC layout, lossless.
//
// R1 layout: the format tree extracted from the writers and readers equals the
//    OGC simple-features WKB layout for each of the seven types (E7).
// R2 byte-order threading.  R3 code/type/flag tables.  R4 hex wraps the same bytes.

import (
	"go/token"
	"go/types"
)

func init() { register("C05", true, checkC05) }

var wkbCodes = map[string]int64{"Point": 1, "LineString": 2, "Polygon": 3, "MultiPoint": 4, "MultiLineString": 5, "MultiPolygon": 6, "GeometryCollection": 7}
var wkbMember = map[string]string{"MultiPoint": "Point", "MultiLineString": "LineString", "MultiPolygon": "Polygon", "GeometryCollection": "Geom"}

type c05 struct {
	c       *Ctx
	info    *types.Info
	write   *types.Func
	read    *types.Func
	undec   string
	readers map[int64]*types.Func
}

func checkC05(c *Ctx) {
	c.Rule("C05.R1", "writer, evaluated with encoding/binary replaced by a typed stream: for model geometries of all seven types (empty members, nested collections) and both byte orders the stream Write produces is the OGC layout U8 order · U32 code · body, counts = number of members that follow, Multi*/Collection members complete WKB of their own, every multi-byte item in the requested order")
	c.Rule("C05.R2", "reader: Read on each reference stream returns the geometry (type, shape, vertices) and consumes the stream exactly; members written in the other byte order decode correctly (each element is read in the order its own flag announces); point arrays longer than the allocation chunk come back complete")
	c.Rule("C05.R3", "code and flag tables by behaviour: truncated messages, unknown type codes, flag bytes other than 0/1 and members of the wrong kind are rejected with an error")
	c.Rule("C05.R4", "model evaluation over the WKB stream model with the standard hexadecimal functions described: hex.Encode returns the lower-case hexadecimal text of exactly wkb.Encode's stream (every model geometry, both byte orders) and an error where wkb.Encode gives one; hex.Decode returns what wkb.Decode returns on the bytes DecodeString gives, and an error — never a panic — for a text that is not hexadecimal")
	c.Rule("C05.R5", "the bytes/string Encode returns are freshly allocated in the call: they do not share storage with a package-level buffer or a sync.Pool object (an encoding the caller keeps stays the encoding of its geometry)")
	pk := c.P.Pkg("encoding/wkb")
	if pk == nil {
		c.Unk("C05.R1", "encoding/wkb", token.NoPos, "package not loaded")
		return
	}
	a := &c05{c: c, info: pk.TypesInfo, write: c.P.Func("encoding/wkb", "Write"), read: c.P.Func("encoding/wkb", "Read"), readers: map[int64]*types.Func{}}
	if c.P.Decl(a.write) == nil || c.P.Decl(a.read) == nil {
		c.Unk("C05.R1", "encoding/wkb.Read/Write", token.NoPos, "API anchors do not resolve")
		return
	}
	c05model(c, "C05.R1", "C05.R2", "C05.R3")
	c05hex(c, "C05.R4", "")
	checkFreshResult(c, "C05.R5", c.P.Func("encoding/wkb", "Encode"), c.P.Func("encoding/hex", "Encode"))
	c.Floor("C05.R5", 2)
	c.Floor("C05.R1", 7)
	c.Floor("C05.R2", 7)
	c.Floor("C05.R3", 1)
	c.Floor("C05.R4", 2)
}

// ---------------------------------------------------------------- R3 tables

// ---------------------------------------------------------------- R1 writers

// wnode is a node of the extracted format tree.
type wnode struct {
	kind string // U8 CODE COUNT POINT POINTS REPEAT WRITE READ
	of   string // data path: $ = the geometry, [] = element
	sub  []*wnode
}

type wenv struct {
	paths map[types.Object]string // variable → data path
	typ   types.Type              // dynamic type assumed for the interface-typed data parameter (Write)
	data  types.Object            // the interface-typed data parameter
}

// ---------------------------------------------------------------- R1 readers

type renv struct {
	counts map[types.Object]bool   // uint32 variables filled by binary.Read
	slices map[types.Object]string // []Point variables → their length expression (source)
}

// ---------------------------------------------------------------- R2

// ---------------------------------------------------------------- R4
