package main

// Model evaluation of the reprojection pipeline (C08.R2, C09.R8, C09.R4, part of C10.R1).
//
// Two spatial references are built through proj.Parse from texts whose parameters are symbols,
// NewTransform is interpreted and the Transformer it returns — a closure, a method value,
// whatever the code uses — is applied to a symbolic position.  The projection members and the
// datum shift are replaced by uninterpreted functions: inv_A(x, y), fwd_B(λ, φ),
// shift_{A→B}(λ, φ, h).  What comes out is therefore a term that spells the pipeline — which
// reference's unit multiplies what, where each prime meridian is added or subtracted, which
// member of which reference is applied, in which order — and it is compared with the term the
// definition of a reprojection gives:
//
//	unit_A · p → inv_A → + pm_A → shift_{A→B} → − pm_B → fwd_B → ÷ unit_B
//
// (degrees ↔ radians instead of the member for geographic systems).  A mirrored pipeline is a
// polynomial identity between the two terms, so the comparison does not depend on how the code
// is organised.  Repeating a call after an unrelated one must give the same term and leave the
// references as they were (no state survives in the Transformer).

import (
	"fmt"
	"go/token"
	"go/types"
	"math/big"
	"sort"
	"strings"
)

type c08shift struct {
	src, dst string
	x, y, z  poly
}

type c08pipe struct {
	c      *Ctx
	m      *c20m
	parse  *types.Func
	labels map[*oStruct]string // SR → label
	dlabel map[*oStruct]string // datum struct → label of its SR
	shifts []c08shift
	notes  []string
}

func (p *c08pipe) labelOf(v oval) string {
	if pp, ok := v.(oPtr); ok && pp.s != nil {
		if l, ok := p.labels[pp.s]; ok {
			return l
		}
		if l, ok := p.dlabel[pp.s]; ok {
			return l
		}
		// a reference met for the first time (the WGS84 definition fetched by the pipeline)
		name, _ := strOf(pp.s.fields["DatumCode"])
		l := "W(" + name + ")"
		p.labels[pp.s] = l
		if d, ok := pp.s.fields["datum"].(oPtr); ok && d.s != nil {
			p.dlabel[d.s] = l
		}
		return l
	}
	return "?"
}

func c08pipeModel(c *Ctx, ruleMirror, ruleHop, ruleState string) {
	anyRule := ruleMirror
	for _, r := range []string{ruleHop, ruleState} {
		if anyRule == "" {
			anyRule = r
		}
	}
	m, parse := newC20m(c)
	if m == nil {
		c.Unk(anyRule, "proj.Parse", token.NoPos, "API anchor does not resolve")
		return
	}
	newT := c.P.Method("proj", "SR", "NewTransform")
	if newT == nil || c.P.Decl(newT) == nil {
		c.Unk(anyRule, "proj.(*SR).NewTransform", token.NoPos, "API anchor does not resolve")
		return
	}
	pos := c.P.Decl(newT).Pos()
	p := &c08pipe{c: c, m: m, parse: parse, labels: map[*oStruct]string{}, dlabel: map[*oStruct]string{}}
	m.it.maxDepth = 48
	srT := c.P.NamedType("proj", "SR")
	isSRPtr := func(t types.Type) bool {
		pt, ok := t.(*types.Pointer)
		return ok && types.Identical(pt.Elem(), srT)
	}
	inner := m.it.stub
	inParse := false
	m.it.stub = func(f *types.Func, recv oval, args []oval) ([]oval, bool) {
		sig := f.Type().(*types.Signature)
		// (*SR).Transformers(): the two members of a reference, as uninterpreted functions
		if sig.Recv() != nil && isSRPtr(sig.Recv().Type()) && sig.Params().Len() == 0 && sig.Results().Len() == 3 && c.P.Decl(f) != nil {
			if n, ok := sig.Results().At(0).Type().(*types.Named); ok && n.Obj().Name() == "Transformer" {
				l := p.labelOf(recv)
				mk := func(kind string) oval {
					return oHostFunc{name: kind + "_" + l, fn: func(a []oval) []oval {
						x, ok1 := symOf(a[0])
						y, ok2 := symOf(a[1])
						if !ok1 || !ok2 {
							return []oval{oTop{kind + " of a non-symbolic position"}, oTop{"?"}, oIface{}}
						}
						return []oval{oSym{symAtom(kind+"x_"+l, x, y)}, oSym{symAtom(kind+"y_"+l, x, y)}, oIface{}}
					}}
				}
				return []oval{mk("fwd"), mk("inv"), oIface{}}, true
			}
		}
		// the datum shift: func(*datum, *datum, x, y[, z] float64) (x, y[, z] float64, error)
		if n := sig.Params().Len(); sig.Recv() == nil && (n == 4 || n == 5) && sig.Results().Len() == n-1 && c.P.Decl(f) != nil && c.P.DeclPkg(f) == c.P.Pkg("proj") {
			pt0, p0 := sig.Params().At(0).Type().(*types.Pointer)
			pt1, p1 := sig.Params().At(1).Type().(*types.Pointer)
			// two datums — not two references: a helper that carries the whole pipeline between two
			// references has the same shape
			isDatum := func(pt *types.Pointer) bool {
				return pt != nil && !isNamed(pt.Elem(), modPath+"/proj", "SR")
			}
			if p0 && p1 && isDatum(pt0) && isDatum(pt1) && types.Identical(pt0.Elem(), pt1.Elem()) && isFloat64(sig.Params().At(2).Type()) && isFloat64(sig.Results().At(0).Type()) {
				sl, dl := p.labelOf(args[0]), p.labelOf(args[1])
				var ord []poly
				for _, a := range args[2:] {
					q, ok := symOf(a)
					if !ok {
						out := make([]oval, n-1)
						for i := range out {
							out[i] = oTop{"datum shift of a non-symbolic position"}
						}
						out[n-2] = oIface{}
						return out, true
					}
					ord = append(ord, q)
				}
				z := poly{}
				if len(ord) > 2 {
					z = ord[2]
				}
				p.shifts = append(p.shifts, c08shift{sl, dl, ord[0], ord[1], z})
				tag := sl + ">" + dl
				// a height of zero is no argument: the operation is named by what it is given
				named := []poly{ord[0], ord[1]}
				if len(z) != 0 {
					named = append(named, z)
				}
				out := []oval{oSym{symAtom("shx_"+tag, named...)}, oSym{symAtom("shy_"+tag, named...)}}
				if n == 5 {
					out = append(out, oSym{symAtom("shz_"+tag, named...)})
				}
				return append(out, oIface{}), true
			}
		}
		// a reference the pipeline parses for itself (the WGS84 hop): interpreted as it stands, and
		// labelled by its datum code here, where the reference — not only its datum — is in hand
		if f == parse && !inParse && len(args) == 1 {
			inParse = true
			res, why := m.it.Call(f, nil, args, 1)
			inParse = false
			if why == "" && len(res) == 2 {
				p.labelOf(res[0])
				return res, true
			}
		}
		return inner(f, recv, args)
	}
	var deg2rad, r2d poly
	for name, dst := range map[string]*poly{"deg2rad": &deg2rad, "r2d": &r2d} {
		if k, ok := c.P.Pkg("proj").Types.Scope().Lookup(name).(*types.Const); ok {
			*dst, _ = symFromConstant(k.Val())
		}
	}
	if deg2rad == nil || r2d == nil {
		c.Unk(anyRule, "proj#angle-constants", pos, "deg2rad / r2d do not resolve")
		return
	}
	m.it.valuation["x"], m.it.valuation["y"], m.it.valuation["x2"], m.it.valuation["y2"] = 123456, 654321, -2000, 77000
	m.it.valuation["p31"], m.it.valuation["p32"], m.it.valuation["p33"], m.it.valuation["p34"] = 2.5, -7.25, 0.3048, 1200.0/3937.0

	type refDef struct {
		label, text string
		geographic  bool
		unit, pm    poly   // nil: not given
		flip        bool   // axis order "wsu": both horizontal axes point the other way
		axis        string // any other axis order ("neu", "nwu", "seu" …); "" with flip=false is "enu"
	}
	build := func(d refDef) (*oStruct, string) {
		sr, why := m.run(parse, d.text)
		if why != "" {
			return nil, why
		}
		p.labels[sr] = d.label
		if dp, ok := sr.fields["datum"].(oPtr); ok && dp.s != nil {
			p.dlabel[dp.s] = d.label
		}
		return sr, ""
	}
	one := polyConst(big.NewRat(1, 1))
	// what a reprojection A → B of (x, y) is, as a term
	spec := func(a, b refDef, x, y poly) (poly, poly) {
		var lon, lat poly
		neg := big.NewRat(-1, 1)
		if a.flip {
			x, y = x.scale(neg), y.scale(neg)
		}
		if a.axis != "" {
			// proj4js 2.3.12, which the package ports: the i-th letter decides the sign of the i-th
			// ordinate (w and s reverse it); the ordinates are not swapped
			if a.axis[0] == 'w' || a.axis[0] == 's' {
				x = x.scale(neg)
			}
			if a.axis[1] == 'w' || a.axis[1] == 's' {
				y = y.scale(neg)
			}
		}

		if a.geographic {
			lon, lat = symMul(x, deg2rad), symMul(y, deg2rad)
		} else {
			u := one
			if a.unit != nil {
				u = a.unit
			}
			x1, y1 := symMul(x, u), symMul(y, u)
			lon, lat = symAtom("invx_"+a.label, x1, y1), symAtom("invy_"+a.label, x1, y1)
		}
		if a.pm != nil {
			lon = lon.add(symMul(a.pm, deg2rad), 1)
		}
		tag := a.label + ">" + b.label
		lon2, lat2 := symAtom("shx_"+tag, lon, lat), symAtom("shy_"+tag, lon, lat)
		if b.pm != nil {
			lon2 = lon2.add(symMul(b.pm, deg2rad), -1)
		}
		var X, Y poly
		if b.geographic {
			X, Y = symMul(lon2, r2d), symMul(lat2, r2d)
		} else {
			X, Y = symAtom("fwdx_"+b.label, lon2, lat2), symAtom("fwdy_"+b.label, lon2, lat2)
			if b.unit != nil {
				inv, _ := symInv(b.unit)
				X, Y = symMul(X, inv), symMul(Y, inv)
			}
		}
		if b.flip {
			X, Y = X.scale(neg), Y.scale(neg)
		}
		if b.axis != "" {
			if b.axis[0] == 'w' || b.axis[0] == 's' {
				X = X.scale(neg)
			}
			if b.axis[1] == 'w' || b.axis[1] == 's' {
				Y = Y.scale(neg)
			}
		}
		return X, Y
	}
	refs := map[string]refDef{
		"F":  {"F", "+proj=merc +lon_0=P4 +a=P7 +rf=P8 +axis=wsu +no_defs", false, nil, nil, true, ""},
		"A":  {"A", "+proj=merc +lon_0=P4 +x_0=P5 +y_0=P6 +a=P7 +rf=P8 +to_meter=P33 +pm=P31 +no_defs", false, polyVar("p33"), polyVar("p31"), false, ""},
		"B":  {"B", "+proj=lcc +lat_1=P1 +lat_2=P2 +lat_0=P3 +lon_0=P4 +a=P7 +rf=P8 +to_meter=P34 +pm=P32 +no_defs", false, polyVar("p34"), polyVar("p32"), false, ""},
		"G":  {"G", "+proj=longlat +a=P7 +rf=P8 +pm=P31 +no_defs", true, nil, polyVar("p31"), false, ""},
		"H":  {"H", "+proj=longlat +a=P7 +b=P7 +no_defs", true, nil, nil, false, ""},
		"M":  {"M", "+proj=tmerc +lat_0=P3 +lon_0=P4 +k_0=P13 +a=P7 +rf=P8 +no_defs", false, nil, nil, false, ""},
		"D3": {"D3", "+proj=merc +lon_0=P4 +a=P7 +rf=P8 +towgs84=P9,P10,P11 +no_defs", false, nil, nil, false, ""},
		"D7": {"D7", "+proj=lcc +lat_1=P1 +lat_2=P2 +lat_0=P3 +lon_0=P4 +a=P7 +rf=P8 +towgs84=P21,P22,P23,P24,P25,P26,P27 +no_defs", false, nil, nil, false, ""},
		// a shifted datum and a prime meridian on the same side
		"PD": {"PD", "+proj=longlat +a=P7 +rf=P8 +pm=P31 +towgs84=P9,P10,P11 +no_defs", true, nil, polyVar("p31"), false, ""},
		// axis orders that name the axes in the other order, with none, the first or the second reversed (proj4js 2.3.12 and the port read the letters position by position: only the signs matter)
		"N1": {"N1", "+proj=merc +lon_0=P4 +a=P7 +rf=P8 +axis=neu +no_defs", false, nil, nil, false, "neu"},
		"N2": {"N2", "+proj=merc +lon_0=P4 +a=P7 +rf=P8 +axis=nwu +no_defs", false, nil, nil, false, "nwu"},
		"N3": {"N3", "+proj=lcc +lat_1=P1 +lat_2=P2 +lat_0=P3 +lon_0=P4 +a=P7 +rf=P8 +axis=seu +no_defs", false, nil, nil, false, "seu"},
		"N4": {"N4", "+proj=merc +lon_0=P4 +a=P7 +rf=P8 +axis=esu +no_defs", false, nil, nil, false, "esu"},
		"QD": {"QD", "+proj=merc +lon_0=P4 +a=P7 +rf=P8 +to_meter=P34 +pm=P32 +towgs84=P21,P22,P23,P24,P25,P26,P27 +no_defs", false, polyVar("p34"), polyVar("p32"), false, ""},
	}
	// the WGS84 reference the pipeline goes through when one side has a shifted datum and the other
	// is not WGS84 itself
	wgs := refDef{"W(WGS84)", "", true, nil, nil, false, ""}
	shifted := map[string]bool{"D3": true, "D7": true, "PD": true, "QD": true}
	callT := func(t oval, x, y poly) ([]oval, string) {
		c.Evals(1)
		args := []oval{oSym{x}, oSym{y}}
		switch f := t.(type) {
		case oFunc:
			return m.it.CallFunc(f, args)
		case oBound:
			return m.it.Call(f.f, recvForMethod(f.f, f.recv), args, 1)
		case oFuncRef:
			return m.it.Call(f.f, nil, args, 1)
		}
		return nil, "the Transformer is " + showVal(t)
	}
	x, y, x2, y2 := polyVar("x"), polyVar("y"), polyVar("x2"), polyVar("y2")
	type verdictT struct{ bad, unk string }
	report := func(rule, cons string, v verdictT, okText string) {
		if rule == "" {
			return
		}
		switch {
		case v.bad != "":
			c.Bad(rule, cons, pos, "%s", v.bad)
		case v.unk != "":
			c.Unk(rule, cons, pos, "%s", v.unk)
		default:
			c.OK(rule, cons, pos, "%s", okText)
		}
	}
	pairs := [][2]string{{"A", "B"}, {"B", "A"}, {"G", "B"}, {"A", "G"}, {"G", "H"}, {"M", "A"}, {"F", "A"}, {"A", "F"}, {"PD", "B"}, {"A", "QD"}, {"PD", "QD"},
		{"N1", "A"}, {"A", "N2"}, {"N2", "B"}, {"N3", "A"}, {"B", "N3"}, {"N4", "N1"}}
	if c.Thorough {
		// every ordered pair of the model references
		have := map[[2]string]bool{}
		for _, p := range pairs {
			have[p] = true
		}
		var names []string
		for n := range refs {
			names = append(names, n)
		}
		sort.Strings(names)
		for _, a := range names {
			for _, b := range names {
				if a != b && !have[[2]string{a, b}] {
					pairs = append(pairs, [2]string{a, b})
				}
			}
		}
	}
	for _, pair := range pairs {
		a, b := refs[pair[0]], refs[pair[1]]
		cons := "proj.(*SR).NewTransform#pipeline(" + a.label + "→" + b.label + ")"
		var v, st verdictT
		sa, why := build(a)
		var sb *oStruct
		if why == "" {
			sb, why = build(b)
		}
		if why != "" {
			v.unk = "the reference texts are not interpretable: " + why
			report(ruleMirror, cons, v, "")
			continue
		}
		c.Evals(1)
		res, why := m.it.Call(newT, oPtr{sa}, []oval{oPtr{sb}}, 0)
		if why != "" || len(res) < 2 {
			v.unk = "NewTransform is not interpretable: " + why
			report(ruleMirror, cons, v, "")
			continue
		}
		if eq, ok := oEqual(res[1], oNil{}); !ok {
			v.unk = "NewTransform's error result is " + showVal(res[1])
			report(ruleMirror, cons, v, "")
			continue
		} else if !eq {
			v.bad = "NewTransform returns an error for two valid references"
			report(ruleMirror, cons, v, "")
			continue
		}
		before := showVal(sa) + "|" + showVal(sb)
		p.shifts = nil
		out, why := callT(res[0], x, y)
		switch {
		case why != "":
			v.unk = "the Transformer is not interpretable: " + why
		case len(out) != 3:
			v.unk = "the Transformer returns " + fmt.Sprint(len(out)) + " values"
		default:
			if eq, ok := oEqual(out[2], oNil{}); !ok {
				v.unk = "the Transformer's error result is " + showVal(out[2])
				break
			} else if !eq {
				v.bad = "the Transformer reports an error for an ordinary position"
				break
			}
			gx, ok1 := symOf(out[0])
			gy, ok2 := symOf(out[1])
			if !ok1 || !ok2 {
				v.unk = "the Transformer returns " + showVal(out[0]) + ", " + showVal(out[1])
				break
			}
			wx, wy := spec(a, b, x, y)
			if shifted[a.label] || shifted[b.label] {
				// two legs: to WGS84 (degrees) and on from there
				ux, uy := spec(a, wgs, x, y)
				wx, wy = spec(wgs, b, ux, uy)
			}
			if !symRationalEqual(gx, wx) || !symRationalEqual(gy, wy) {
				v.bad = fmt.Sprintf("the reprojection %s → %s of (x, y) gives\n      x' = %.300s\n    where the stages mirrored around the datum shift give\n      x' = %.300s\n    (unit of the source multiplies and of the destination divides, each prime meridian is added on its own side, the source's inverse and the destination's forward member are used, geographic systems convert degrees ↔ radians)", a.label, b.label, gx.canon(), wx.canon())
			}
		}
		report(ruleMirror, cons, v, "the term computed for (x, y) equals unit, member, prime meridian and datum-shift stages mirrored around the shift")
		// no state: an unrelated call in between changes nothing
		if v.bad == "" && v.unk == "" {
			first, _ := callT(res[0], x, y)
			if _, why := callT(res[0], x2, y2); why != "" {
				st.unk = "second call not interpretable: " + why
			}
			third, why := callT(res[0], x, y)
			if why != "" {
				st.unk = "third call not interpretable: " + why
			} else {
				for i := 0; i < 2; i++ {
					g1, _ := symOf(first[i])
					g3, ok := symOf(third[i])
					if !ok || !g1.equal(g3) {
						st.bad = "the same position gives a different result after the Transformer was used for another position: state survives between calls"
					}
				}
			}
			if after := showVal(sa) + "|" + showVal(sb); after != before && st.bad == "" {
				st.bad = "calling the Transformer changes one of the two spatial references (a later transformer built from them, or this one, sees different parameters)"
			}
			report(ruleState, "proj.(*SR).NewTransform#stateless("+a.label+"→"+b.label+")", st, "same term before and after an unrelated call; both references unchanged")
		}
	}
	// two datum shifts: the height produced by the first must reach the second
	if ruleHop != "" {
		a, b := refs["D3"], refs["D7"]
		cons := "proj.(*SR).NewTransform$1#hop"
		var v verdictT
		sa, why := build(a)
		var sb *oStruct
		if why == "" {
			sb, why = build(b)
		}
		if why != "" {
			v.unk = "the reference texts are not interpretable: " + why
		} else if res, why := m.it.Call(newT, oPtr{sa}, []oval{oPtr{sb}}, 0); why != "" {
			v.unk = "NewTransform is not interpretable: " + why
		} else {
			p.shifts = nil
			if _, why := callT(res[0], x, y); why != "" {
				v.unk = "the Transformer is not interpretable: " + why
			} else if len(p.shifts) >= 2 {
				last := p.shifts[len(p.shifts)-1]
				usesHeight := false
				for k := range last.z {
					if strings.Contains(k, "shz_") {
						usesHeight = true
					}
				}
				if !usesHeight {
					v.bad = fmt.Sprintf("between two 3/7-parameter datums the position goes through %d datum shifts and the last one (%s → %s) is given the height %s, not the height the previous shift produced: the ellipsoidal height is dropped in between", len(p.shifts), last.src, last.dst, last.z.canon())
				}
			}
		}
		report(ruleHop, cons, v, "a single datum shift, or the height of each shift handed to the next")
	}
}

// c10members (C10.R1, member level): the projection constructors run again for every position
// (the pipeline asks the reference for its members on each call), so constructing the members
// and projecting a position must leave the reference as the first construction left it, and
// the same position must give the same term after the members were used for another one.
// Every registered projection is built through proj.Parse from symbolic parameters; forward and
// inverse members are interpreted with symbolic arguments (iterative solvers follow the
// reference valuation; very large intermediate terms are abbreviated by content).
func c10members(c *Ctx, rule string) {
	m, parse := newC20m(c)
	if m == nil {
		c.Unk(rule, "proj.Parse", token.NoPos, "API anchor does not resolve")
		return
	}
	trF := c.P.Method("proj", "SR", "Transformers")
	if trF == nil || c.P.Decl(trF) == nil {
		c.Unk(rule, "proj.(*SR).Transformers", token.NoPos, "API anchor does not resolve")
		return
	}
	pos := c.P.Decl(trF).Pos()
	m.it.maxDepth = 48
	m.it.maxLoop = 64
	val := m.it.valuation
	val["lam"], val["phi"], val["lam2"], val["phi2"] = -1.62, 0.72, -1.58, 0.69
	val["p40"], val["p34"] = 14, 0.3048
	// parameters in a usable range (degrees where the texts are in degrees)
	val["p1"], val["p2"], val["p3"], val["p4"] = 33, 45, 39, -96
	symWiden = val
	defer func() { symWiden = nil }()
	// every registered projection, under its first short name, with every parameter a projection
	// of the registry reads given a symbol (a projection ignores what it does not use)
	type defT struct{ name, text string }
	var defs []defT
	{
		reg := projRegistry(c)
		byCtor := map[*types.Func][]string{}
		for n, f := range reg.names {
			byCtor[f] = append(byCtor[f], n)
		}
		for _, ns := range byCtor {
			sort.Slice(ns, func(i, j int) bool {
				if len(ns[i]) != len(ns[j]) {
					return len(ns[i]) < len(ns[j])
				}
				return ns[i] < ns[j]
			})
			name := ns[0]
			if strings.ContainsAny(name, " +=") {
				continue
			}
			defs = append(defs, defT{name, "+proj=" + name + " +lat_1=P1 +lat_2=P2 +lat_0=P3 +lon_0=P4 +k_0=P13 +x_0=P5 +y_0=P6 +zone=P40 +to_meter=P34 +a=P7 +rf=P8 +no_defs"})
		}
		sort.Slice(defs, func(i, j int) bool { return defs[i].name < defs[j].name })
	}
	callM := func(fn oval, a, b poly) ([]oval, string) {
		c.Evals(1)
		args := []oval{oSym{a}, oSym{b}}
		switch f := fn.(type) {
		case oFunc:
			return m.it.CallFunc(f, args)
		case oBound:
			return m.it.Call(f.f, recvForMethod(f.f, f.recv), args, 1)
		case oFuncRef:
			return m.it.Call(f.f, nil, args, 1)
		case oHostFunc:
			return f.fn(args), ""
		}
		return nil, "the member is " + showVal(fn)
	}
	for _, d := range defs {
		cons := "proj#members(" + d.name + ")"
		symResetEval()
		sr, why := m.run(parse, d.text)
		if why != "" {
			c.Unk(rule, cons, pos, "the definition is not interpretable: %s", why)
			continue
		}
		members := func() (oval, oval, string) {
			c.Evals(1)
			res, why := m.it.Call(trF, oPtr{sr}, nil, 0)
			if why != "" {
				return nil, nil, why
			}
			if eq, ok := oEqual(res[2], oNil{}); !ok || !eq {
				return nil, nil, "Transformers() returns an error"
			}
			return res[0], res[1], ""
		}
		bad, unk := "", ""
		fwd1, inv1, why := members()
		if why != "" {
			c.Unk(rule, cons, pos, "constructing the members is not interpretable: %s", why)
			continue
		}
		dump1 := showVal(sr)
		r1, why := callM(fwd1, polyVar("lam"), polyVar("phi"))
		if why != "" {
			unk = "forward member not interpretable: " + why
		}
		var x1, y1 poly
		if unk == "" {
			var ok1, ok2 bool
			x1, ok1 = symOf(r1[0])
			y1, ok2 = symOf(r1[1])
			if !ok1 || !ok2 {
				unk = "forward member returns " + showVal(r1[0])
			}
		}
		if unk == "" {
			// a projected position for the inverse: symbols valued at what the forward gave
			vx, okx := symEval(x1, val)
			vy, oky := symEval(y1, val)
			if okx && oky {
				val["X"], val["Y"] = vx, vy
				val["X2"], val["Y2"] = vx*1.001+50, vy*0.999-70
				symResetEval()
			}
			i1, why := callM(inv1, polyVar("X"), polyVar("Y"))
			if why != "" {
				unk = "inverse member not interpretable: " + why
			}
			// an unrelated position through freshly constructed members
			fwd2, inv2, why2 := members()
			if why2 != "" && unk == "" {
				unk = "second construction not interpretable: " + why2
			}
			if unk == "" {
				if _, why := callM(fwd2, polyVar("lam2"), polyVar("phi2")); why != "" {
					unk = "forward member not interpretable on a second position: " + why
				}
				if _, why := callM(inv2, polyVar("X2"), polyVar("Y2")); why != "" && unk == "" {
					unk = "inverse member not interpretable on a second position: " + why
				}
			}
			if unk == "" {
				fwd3, inv3, _ := members()
				r3, why := callM(fwd3, polyVar("lam"), polyVar("phi"))
				i3, why2 := callM(inv3, polyVar("X"), polyVar("Y"))
				switch {
				case why != "" || why2 != "":
					unk = "third round not interpretable: " + why + why2
				default:
					for k := 0; k < 2; k++ {
						a, _ := symOf(r1[k])
						b, ok := symOf(r3[k])
						if !ok || !a.equal(b) {
							bad = "the forward member gives a different term for the same position after the members were rebuilt and used for another position"
						}
						a2, ok1 := symOf(i1[k])
						b2, ok2 := symOf(i3[k])
						if ok1 != ok2 || (ok1 && !a2.equal(b2)) {
							bad = "the inverse member gives a different term for the same position after the members were rebuilt and used for another position"
						}
					}
					if dump3 := showVal(sr); dump3 != dump1 && bad == "" {
						bad = "building the members again and projecting changes the spatial reference: " + firstDiff(dump1, dump3)
					}
				}
			}
		}
		switch {
		case bad != "":
			c.Bad(rule, cons, pos, "%s: every position after the first is projected with other parameters", bad)
		case unk != "":
			c.Unk(rule, cons, pos, "%s", unk)
		default:
			c.OK(rule, cons, pos, "members rebuilt and reused: same terms for the same position, reference unchanged")
		}
	}
}

func firstDiff(a, b string) string {
	i := 0
	for i < len(a) && i < len(b) && a[i] == b[i] {
		i++
	}
	lo := i - 40
	if lo < 0 {
		lo = 0
	}
	hi := func(s string) int {
		if i+60 < len(s) {
			return i + 60
		}
		return len(s)
	}
	return fmt.Sprintf("…%s… became …%s…", a[lo:hi(a)], b[lo:hi(b)])
}
