package main

// C08.R7 — the longitude comes back, as an identity.  For the projections whose inverse longitude
// is in closed form (the identity, Mercator and the three conics; the transverse Mercator family
// uses truncated series and Krovak chains of arcsines, which are no identities) the forward member
// is interpreted on a symbolic position (λ, φ) and the inverse member on the two terms it returns.
// The polar angle is resolved by the one rule the conics need — atan2(a, b) = t + kπ when
// a·cos t − b·sin t vanishes identically for an angle t occurring in a and b, k read off the
// reference valuation — and the resulting term must equal λ as a rational term: offsets, scale
// factors, the cone constant and the central meridian cancel exactly or they do not.  A scale
// applied to the wrong operand, a false origin added on one side only or a cone constant used on
// one side only leaves a residue.

import (
	"fmt"
	"go/token"
	"go/types"
	"math"
	"math/big"
	"os"
	"sort"
	"strings"
)

// closedFormLongitude: confirmed by reading the members on the tree this rule was written for.
var closedFormLongitude = []string{"longlat", "merc", "lcc", "aea", "eqdc"}

func c08lonRoundTrip(c *Ctx, rule string) {
	reg := projRegistry(c)
	for _, name := range closedFormLongitude {
		ctor := reg.names[name]
		cons := "proj#longitude-round-trip(" + name + ")"
		if ctor == nil || c.P.Decl(ctor) == nil {
			c.Unk(rule, cons, token.NoPos, "no constructor is registered under %q", name)
			continue
		}
		pos := c.P.Decl(ctor).Pos()
		hemis := []float64{+1}
		if name == "lcc" || name == "aea" || name == "eqdc" {
			hemis = []float64{+1, -1}
		}
		bad, unk := "", ""
		for _, hemi := range hemis {
			if bad != "" || unk != "" {
				break
			}
			lon, why := c08lonOf(c, ctor, name, hemi)
			where := map[float64]string{+1: "northern", -1: "southern"}[hemi] + " standard parallels"
			if why != "" {
				if strings.HasPrefix(why, "!") {
					bad = where + ": " + why[1:]
				} else {
					unk = where + ": " + why
				}
				break
			}
			if !symRationalEqual(lon, polyVar("lam")) {
				res := symCancel(lon.add(polyVar("lam"), -1))
				bad = fmt.Sprintf("%s: the inverse's longitude of forward(λ, φ) is not λ; what is left after every exact cancellation is %s — a scale, an offset, the cone constant or the central meridian is not undone the way it was applied", where, short(res.canon()))
			}
		}
		report3(c, rule, cons, pos, bad, unk, "inverse(forward(λ, φ)) has longitude λ as a rational term in the parameters (false origin, scale, cone constant and central meridian cancel exactly)")
	}
}

// c08lonOf: the longitude term of inverse(forward(lam, phi)), polar angles resolved.
func c08lonOf(c *Ctx, ctor *types.Func, name string, hemi float64) (poly, string) {
	m, parse := newC20m(c)
	if m == nil {
		return nil, "proj.Parse does not resolve"
	}
	m.it.maxLoop = 64
	val := m.it.valuation
	val["p1"], val["p2"], val["p3"], val["p4"] = hemi*33, hemi*45, hemi*39, -96
	val["lam"], val["phi"] = -1.62, hemi*0.72
	val["p40"] = 14
	symWiden = val
	defer func() { symWiden = nil }()
	symResetEval()
	sr, why := m.run(parse, "+proj="+name+" +lat_1=P1 +lat_2=P2 +lat_0=P3 +lon_0=P4 +x_0=P5 +y_0=P6 +k_0=P13 +a=P7 +rf=P8 +no_defs")
	if why != "" {
		return nil, why
	}
	c.Evals(3)
	res, why := m.it.Call(ctor, nil, []oval{oPtr{sr}}, 0)
	if why != "" || len(res) < 3 {
		return nil, "the constructor is not interpretable: " + why
	}
	if eq, ok := oEqual(res[2], oNil{}); !ok || !eq {
		return nil, "the constructor returns an error"
	}
	r, why := m.it.CallValue(res[0], []oval{oSym{polyVar("lam")}, oSym{polyVar("phi")}})
	if why != "" {
		return nil, "forward: " + why
	}
	x, ok1 := symOf(r[0])
	y, ok2 := symOf(r[1])
	if !ok1 || !ok2 {
		return nil, "forward returns " + showVal(r[0])
	}
	i, why := m.it.CallValue(res[1], []oval{oSym{x}, oSym{y}})
	if why != "" {
		return nil, "inverse on the forward member's terms: " + why
	}
	lon, ok := symOf(i[0])
	if !ok {
		return nil, "inverse returns " + showVal(i[0])
	}
	return resolvePolar(lon, val)
}

// resolvePolar replaces every factor atan2(a, b) of p by t + kπ where a·cos t − b·sin t ≡ 0 for
// an angle t occurring in a or b (k from the valuation).  A polar angle that cannot be resolved is
// reported with a leading "!" (the term is not of the closed form the rule expects).
func resolvePolar(p poly, val map[string]float64) (poly, string) {
	for round := 0; round < 4; round++ {
		var atom string
		var keys []string
		for k := range p {
			keys = append(keys, k)
		}
		sort.Strings(keys)
		for _, k := range keys {
			for _, f := range strings.Split(k, "*") {
				if app, ok := symApps[f]; ok && app.fn == "atan2" && len(app.args) == 2 && atom == "" {
					atom = f
				}
			}
		}
		if atom == "" {
			return p, ""
		}
		app := symApps[atom]
		a, b := app.args[0], app.args[1]
		// candidate angles: arguments of sin / cos factors of a and b
		var cands []poly
		seen := map[string]bool{}
		for _, q := range []poly{a, b} {
			for k := range q {
				for _, f := range strings.Split(k, "*") {
					ap, ok := symApps[f]
					if !ok {
						// an abbreviated application stands for the one it was made from
						if full, isWide := symWideOf[f]; isWide {
							ap, ok = symApps[full]
						}
					}
					if ok && (ap.fn == "sin" || ap.fn == "cos") && len(ap.args) == 1 {
						if cn := ap.args[0].canon(); !seen[cn] {
							seen[cn] = true
							cands = append(cands, ap.args[0])
						}
					}
				}
			}
		}
		sort.Slice(cands, func(i, j int) bool { return cands[i].canon() < cands[j].canon() })
		var angle poly
		for _, t := range cands {
			ct, _ := symMath("Cos", []poly{t})
			st, _ := symMath("Sin", []poly{t})
			if len(symCancel(symMul(a, ct).add(symMul(b, st), -1))) == 0 {
				angle = t
				break
			}
			// the angle may be held with the opposite sign (sin is kept on a canonical argument)
			if len(symCancel(symMul(a, ct).add(symMul(b, st), 1))) == 0 {
				angle = t.scale(big.NewRat(-1, 1))
				break
			}
		}
		if angle == nil && os.Getenv("VERIF_TRACE") != "" {
			for _, q := range []poly{a, b} {
				for k := range q {
					for _, f := range strings.Split(k, "*") {
						if full, ok := symWideOf[f]; ok {
							fmt.Fprintf(os.Stderr, "TRACE %s = %.200s\n", f, full)
						}
					}
				}
			}
			fmt.Fprintf(os.Stderr, "TRACE %d candidate angles\nTRACE a = %s\nTRACE b = %s\n", len(cands), a.canon(), b.canon())
		}
		if angle == nil {
			return nil, fmt.Sprintf("!the polar angle atan2(%s, %s) is not the angle its arguments were built from: no t with a = r·sin t and b = r·cos t", short(a.canon()), short(b.canon()))
		}
		va, ok1 := symEval(a, val)
		vb, ok2 := symEval(b, val)
		vt, ok3 := symEval(angle, val)
		if !ok1 || !ok2 || !ok3 {
			return nil, "the polar angle has no value at the reference position"
		}
		k := math.Round((math.Atan2(va, vb) - vt) / math.Pi)
		if math.Abs(math.Atan2(va, vb)-vt-k*math.Pi) > 1e-9 {
			return nil, "!the polar angle differs from the angle of its arguments by something that is not a multiple of π at the reference position"
		}
		repl := angle
		if k != 0 {
			r := new(big.Rat)
			r.SetFloat64(math.Pi * k)
			repl = angle.add(polyConst(r), 1)
		}
		next := poly{}
		for k2, cf := range p {
			fs := strings.Split(k2, "*")
			idx := -1
			for j, f := range fs {
				if f == atom {
					idx = j
					break
				}
			}
			if idx < 0 {
				next.accumulate(poly{k2: cf})
				continue
			}
			rest := append(append([]string{}, fs[:idx]...), fs[idx+1:]...)
			term := poly{strings.Join(rest, "*"): new(big.Rat).Set(cf)}
			next.accumulate(symMul(term, repl))
		}
		for k2, v := range next {
			if v.Sign() == 0 {
				delete(next, k2)
			}
		}
		p = symCancel(next)
	}
	return p, ""
}
