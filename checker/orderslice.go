package main

// Slices and integers for the order-domain interpreter (orderdom.go).
//
// oSlice is a Go slice header over a shared backing array of abstract values, so
// aliasing (append into spare capacity, sub-slices, copy) behaves as in Go.
// Integers are concrete (loop counters, lengths, indices); floats stay ranks.

import (
	"fmt"
	"go/ast"
	"go/token"
	"go/types"
)

type oSlice struct {
	typ    types.Type
	arr    *[]oval
	lo, hi int
	capEnd int // index in *arr one past the capacity
}

func (s oSlice) isNil() bool { return s.arr == nil }
func (s oSlice) length() int { return s.hi - s.lo }
func (s oSlice) capacity() int {
	if s.arr == nil {
		return 0
	}
	return s.capEnd - s.lo
}
func (s oSlice) at(i int) oval     { return (*s.arr)[s.lo+i] }
func (s oSlice) set(i int, v oval) { (*s.arr)[s.lo+i] = v }

func showSlice(s oSlice) string {
	if s.isNil() {
		return "nil"
	}
	out := "["
	for i := 0; i < s.length(); i++ {
		if i > 0 {
			out += " "
		}
		out += showVal(s.at(i))
	}
	return out + "]"
}

// throughArrayPtr: a pointer to an array stands for the array wherever the language
// dereferences it implicitly (len, cap, index, slice, range).
func throughArrayPtr(v oval) oval {
	if r, ok := v.(oRef); ok && (r.cell != nil || r.st != nil) {
		if sl, ok := r.load().(oSlice); ok && sl.typ != nil {
			if _, isArr := sl.typ.Underlying().(*types.Array); isArr {
				return sl
			}
		}
	}
	return v
}

func elemType(t types.Type) types.Type {
	switch u := t.Underlying().(type) {
	case *types.Slice:
		return u.Elem()
	case *types.Array:
		return u.Elem()
	}
	return nil
}

func (it *oInterp) newSlice(t types.Type, n, c int) oSlice {
	if c < n {
		c = n
	}
	arr := make([]oval, c)
	et := elemType(t)
	for i := range arr {
		arr[i] = it.zero(et)
	}
	return oSlice{typ: t, arr: &arr, lo: 0, hi: n, capEnd: c}
}

// sliceLit evaluates a composite literal of slice type.
func (fr *oFrame) sliceLit(x *ast.CompositeLit, t types.Type) oval {
	et := elemType(t)
	var vals []oval
	if at, ok := t.Underlying().(*types.Array); ok {
		if at.Len() > 1<<12 {
			return oTop{"large array"}
		}
		vals = make([]oval, at.Len())
		for i := range vals {
			vals[i] = fr.it.zero(et)
		}
	}
	idx := 0
	for _, el := range x.Elts {
		v := el
		if kv, ok := el.(*ast.KeyValueExpr); ok {
			k, ok := fr.eval(kv.Key).(oInt)
			if !ok || k < 0 || k > 1<<12 {
				return oTop{"slice literal with a non-constant key"}
			}
			idx, v = int(k), kv.Value
		}
		for len(vals) <= idx {
			vals = append(vals, fr.it.zero(et))
		}
		vals[idx] = fr.rvalue(fr.eval(v))
		idx++
	}
	return oSlice{typ: t, arr: &vals, lo: 0, hi: len(vals), capEnd: len(vals)}
}

// builtinCall handles len, cap, make, append, copy.  ok=false → not a builtin we know.
func (fr *oFrame) builtinCall(call *ast.CallExpr) (oval, bool) {
	name := builtinName(fr.info, call)
	switch name {
	case "len", "cap":
		v := throughArrayPtr(fr.eval(call.Args[0]))
		if s, ok := v.(oSlice); ok {
			if name == "len" {
				return oInt(s.length()), true
			}
			return oInt(s.capacity()), true
		}
		if m, ok := v.(oMap); ok && name == "len" {
			return oInt(len(*m.keys)), true
		}
		return oTop{name + " of " + showVal(v)}, true
	case "new":
		t := fr.info.TypeOf(call.Args[0])
		if t == nil {
			return oTop{"new of unknown type"}, true
		}
		z := fr.it.zero(t)
		if st, ok := z.(*oStruct); ok {
			return oPtr{st}, true
		}
		cell := new(oval)
		*cell = z
		return oRef{cell: cell, typ: t}, true
	case "make":
		t := fr.info.TypeOf(call.Args[0])
		if _, ok := t.Underlying().(*types.Map); ok {
			keys, vals := []oval{}, []oval{}
			return oMap{typ: t, keys: &keys, vals: &vals}, true
		}
		if _, ok := t.Underlying().(*types.Chan); ok && fr.it.seqGo {
			q, closed := []oval{}, false
			return oChan{q: &q, closed: &closed, typ: t}, true
		}
		if _, ok := t.Underlying().(*types.Slice); !ok {
			return oTop{"make of " + t.String()}, true
		}
		n, c := 0, -1
		if len(call.Args) > 1 {
			iv, ok := fr.eval(call.Args[1]).(oInt)
			if !ok {
				return oTop{"make with non-constant length"}, true
			}
			n = int(iv)
		}
		if len(call.Args) > 2 {
			iv, ok := fr.eval(call.Args[2]).(oInt)
			if !ok {
				return oTop{"make with non-constant capacity"}, true
			}
			c = int(iv)
		}
		if n < 0 || (c >= 0 && c < n) {
			fr.abort("panic: make with length %d capacity %d", n, c)
			return oTop{"panic in make"}, true
		}
		// the allowance is 4096 elements or 64 KiB, whichever is larger (a block of raw bytes for
		// 1024 points is the same memory as the 1024 points)
		esz := int64(1 << 30)
		if st, ok := t.Underlying().(*types.Slice); ok {
			esz = (&types.StdSizes{WordSize: 8, MaxAlign: 8}).Sizeof(st.Elem())
		}
		if big := max(n, c); big > 1<<12 && int64(big)*esz > 1<<16 {
			fr.abort("panic: allocation of %d elements (capacity %d) at %s — above the model's limit of 4096 elements or 64 KiB: the size comes from an input count that nothing bounded", n, c, fr.it.p.Position(call.Pos()))
			return oTop{"oversized make"}, true
		}
		return fr.it.newSlice(t, n, c), true
	case "append":
		base := fr.eval(call.Args[0])
		var s oSlice
		switch b := base.(type) {
		case oSlice:
			s = b
		case oNil:
			s = oSlice{typ: fr.info.TypeOf(call)}
		default:
			return oTop{"append to " + showVal(base)}, true
		}
		if s.typ == nil {
			s.typ = fr.info.TypeOf(call)
		}
		var add []oval
		if call.Ellipsis.IsValid() && len(call.Args) == 2 {
			v := fr.eval(call.Args[1])
			switch t := v.(type) {
			case oSlice:
				for i := 0; i < t.length(); i++ {
					add = append(add, fr.rvalue(t.at(i)))
				}
			case oNil:
			default:
				return oTop{"append of " + showVal(v) + "..."}, true
			}
		} else {
			for _, a := range call.Args[1:] {
				add = append(add, fr.rvalue(fr.eval(a)))
			}
		}
		n := s.length() + len(add)
		if s.arr != nil && n <= s.capacity() {
			// in place: the backing array is shared with whoever else holds it
			for i, v := range add {
				(*s.arr)[s.hi+i] = v
			}
			s.hi += len(add)
			return s, true
		}
		arr := make([]oval, n)
		for i := 0; i < s.length(); i++ {
			arr[i] = s.at(i)
		}
		copy(arr[s.length():], add)
		return oSlice{typ: s.typ, arr: &arr, lo: 0, hi: n, capEnd: n}, true
	case "panic":
		msg := "panic"
		var pv oval = oIface{opaque: &oOpaque{name: "panic value"}}
		if len(call.Args) == 1 {
			msg = src(call.Args[0])
			pv = fr.toIface(fr.eval(call.Args[0]))
		}
		if !fr.it.panicActive {
			fr.it.panicActive, fr.it.panicVal = true, pv
		}
		fr.abort("panic: %s at %s", msg, fr.it.p.Position(call.Pos()))
		return oTop{"panic"}, true
	case "recover":
		if fr.it.panicActive {
			fr.it.panicActive = false
			return fr.it.panicVal, true
		}
		return oNil{}, true
	case "close":
		if ch, ok := fr.eval(call.Args[0]).(oChan); ok && fr.it.seqGo {
			if *ch.closed {
				fr.abort("panic: close of closed channel at %s", fr.it.p.Position(call.Pos()))
			}
			*ch.closed = true
			return oNil{}, true
		}
		return abortedTop("close of " + showVal(fr.eval(call.Args[0]))), true
	case "copy":
		d, ok1 := fr.eval(call.Args[0]).(oSlice)
		sv := fr.eval(call.Args[1])
		s, ok2 := sv.(oSlice)
		if _, isNil := sv.(oNil); isNil {
			return oInt(0), true
		}
		if !ok1 || !ok2 {
			return oTop{"copy of non-slices"}, true
		}
		n := d.length()
		if s.length() < n {
			n = s.length()
		}
		tmp := make([]oval, n)
		for i := 0; i < n; i++ {
			tmp[i] = fr.rvalue(s.at(i))
		}
		for i := 0; i < n; i++ {
			d.set(i, tmp[i])
		}
		return oInt(n), true
	}
	return nil, false
}

// indexExpr evaluates x[i] for slices.
func (fr *oFrame) indexExpr(x *ast.IndexExpr) oval {
	base := throughArrayPtr(fr.eval(x.X))
	if m, ok := base.(oMap); ok {
		v, _ := fr.mapIndex(x, m)
		return v
	}
	s, ok := base.(oSlice)
	if !ok {
		if _, isNil := base.(oNil); isNil {
			if mt, isMap := fr.info.TypeOf(x.X).Underlying().(*types.Map); isMap {
				fr.eval(x.Index)
				return fr.it.zero(mt.Elem()) // a nil map holds nothing
			}
		}
		return oTop{"index of " + showVal(base)}
	}
	iv, ok := fr.eval(x.Index).(oInt)
	if !ok {
		return oTop{"non-constant index"}
	}
	if int(iv) < 0 || int(iv) >= s.length() {
		fr.abort("panic: index %d out of range [0,%d) at %s", int(iv), s.length(), fr.it.p.Position(x.Pos()))
		return oTop{"index out of range"}
	}
	return fr.rvalue(s.at(int(iv)))
}

// elemRef resolves x[i] to the element struct itself (no copy), for stores like x[i].F = v.
func (fr *oFrame) elemRef(x *ast.IndexExpr) *oStruct {
	base := throughArrayPtr(fr.eval(x.X))
	s, ok := base.(oSlice)
	if !ok {
		return nil
	}
	iv, ok := fr.eval(x.Index).(oInt)
	if !ok || int(iv) < 0 || int(iv) >= s.length() {
		return nil
	}
	st, _ := s.at(int(iv)).(*oStruct)
	return st
}

func (fr *oFrame) sliceExpr(x *ast.SliceExpr) oval {
	base := throughArrayPtr(fr.eval(x.X))
	var s oSlice
	switch b := base.(type) {
	case oSlice:
		s = b
	case oNil:
		s = oSlice{typ: fr.info.TypeOf(x)}
	default:
		return oTop{"slice of " + showVal(base)}
	}
	lo, hi, mx := 0, s.length(), s.capacity()
	get := func(e ast.Expr, def int) (int, bool) {
		if e == nil {
			return def, true
		}
		iv, ok := fr.eval(e).(oInt)
		return int(iv), ok
	}
	var ok1, ok2, ok3 bool
	lo, ok1 = get(x.Low, 0)
	hi, ok2 = get(x.High, s.length())
	mx, ok3 = get(x.Max, s.capacity())
	if !ok1 || !ok2 || !ok3 {
		return oTop{"non-constant slice bounds"}
	}
	if lo < 0 || hi < lo || mx < hi || mx > s.capacity() {
		fr.abort("panic: slice bounds [%d:%d:%d] with capacity %d at %s", lo, hi, mx, s.capacity(), fr.it.p.Position(x.Pos()))
		return oTop{"slice bounds out of range"}
	}
	if s.arr == nil {
		return s
	}
	typ := s.typ
	if typ != nil {
		if _, isArr := typ.Underlying().(*types.Array); isArr {
			if xt := fr.info.TypeOf(x); xt != nil {
				typ = xt // a slice of an array is a slice
			}
		}
	}
	return oSlice{typ: typ, arr: s.arr, lo: s.lo + lo, hi: s.lo + hi, capEnd: s.lo + mx}
}

// storeIndex performs x[i] = v.
func (fr *oFrame) storeIndex(x *ast.IndexExpr, v oval) oCtl {
	base := throughArrayPtr(fr.eval(x.X))
	if m, ok := base.(oMap); ok {
		k := fr.eval(x.Index)
		if isTop(k) {
			return fr.abort("map store with key %s", showVal(k))
		}
		if i := m.find(k); i >= 0 {
			(*m.vals)[i] = fr.rvalue(v)
		} else {
			*m.keys = append(*m.keys, fr.rvalue(k))
			*m.vals = append(*m.vals, fr.rvalue(v))
		}
		return oNormal
	}
	s, ok := base.(oSlice)
	if !ok {
		return fr.abort("store into %s", showVal(base))
	}
	iv, ok := fr.eval(x.Index).(oInt)
	if !ok {
		return fr.abort("store at non-constant index")
	}
	if int(iv) < 0 || int(iv) >= s.length() {
		return fr.abort("panic: index %d out of range [0,%d) at %s", int(iv), s.length(), fr.it.p.Position(x.Pos()))
	}
	s.set(int(iv), fr.rvalue(v))
	return oNormal
}

// rangeStmt interprets `for k, v := range X` over a slice or an integer.
func (fr *oFrame) rangeStmt(s *ast.RangeStmt) oCtl {
	myLabel := fr.curLabel
	fr.curLabel = ""
	saved := fr.env
	defer func() { fr.env = saved }()
	xv := throughArrayPtr(fr.eval(s.X))
	n := 0
	var sl oSlice
	switch x := xv.(type) {
	case oSlice:
		sl, n = x, x.length()
	case oNil:
	case oInt:
		n = int(x)
	case oChan:
		if !fr.it.seqGo {
			return fr.abort("range over a channel at %s", fr.it.p.Position(s.X.Pos()))
		}
		return fr.rangeChan(s, x, saved, myLabel)
	case oMap:
		// in insertion order (Go's order is unspecified; code under analysis must not depend on it).
		// Keys and values are snapshotted: entries added during the loop are not visited.
		var ks, vs []oval
		if x.keys != nil {
			ks = append(ks, (*x.keys)...)
			vs = append(vs, (*x.vals)...)
		}
		if len(ks) > fr.it.loopLimit() {
			return fr.abort("range over %d map entries", len(ks))
		}
		if len(ks) > 1 {
			fr.it.mapRanges++
		}
		if fr.it.mapReverse {
			for i, j := 0, len(ks)-1; i < j; i, j = i+1, j-1 {
				ks[i], ks[j] = ks[j], ks[i]
				vs[i], vs[j] = vs[j], vs[i]
			}
		}
		for i := range ks {
			fr.env = &oEnv{vars: map[types.Object]*oval{}, parent: saved}
			if s.Key != nil {
				if c := fr.store(s.Key, fr.rvalue(ks[i]), s.Tok == token.DEFINE); c != oNormal {
					return c
				}
			}
			if s.Value != nil {
				if c := fr.store(s.Value, fr.rvalue(vs[i]), s.Tok == token.DEFINE); c != oNormal {
					return c
				}
			}
			c := fr.block(s.Body.List)
			if c == oLabelled && myLabel != "" && fr.pendingLabel == myLabel {
				fr.pendingLabel = ""
				if fr.pendingTok == token.BREAK {
					return oNormal
				}
				continue
			}
			switch c {
			case oBreak:
				return oNormal
			case oContinue, oNormal:
			default:
				return c
			}
		}
		return oNormal
	default:
		return fr.abort("range over %s at %s", showVal(xv), fr.it.p.Position(s.X.Pos()))
	}
	if n > fr.it.loopLimit() {
		return fr.abort("range over %d elements", n)
	}
	for i := 0; i < n; i++ {
		fr.env = &oEnv{vars: map[types.Object]*oval{}, parent: saved}
		bind := func(e ast.Expr, v oval) oCtl {
			if e == nil {
				return oNormal
			}
			return fr.store(e, v, s.Tok == token.DEFINE)
		}
		if c := bind(s.Key, oInt(i)); c != oNormal {
			return c
		}
		if s.Value != nil {
			if sl.arr == nil {
				return fr.abort("range value over integer")
			}
			if c := bind(s.Value, fr.rvalue(sl.at(i))); c != oNormal {
				return c
			}
		}
		c := fr.block(s.Body.List)
		if c == oLabelled && myLabel != "" && fr.pendingLabel == myLabel {
			fr.pendingLabel = ""
			if fr.pendingTok == token.BREAK {
				return oNormal
			}
			continue
		}
		switch c {
		case oBreak:
			return oNormal
		case oContinue, oNormal:
		default:
			return c
		}
	}
	return oNormal
}

func intBinop(op token.Token, a, b oInt) (oval, bool) {
	switch op {
	case token.ADD:
		return a + b, true
	case token.SUB:
		return a - b, true
	case token.MUL:
		return a * b, true
	case token.QUO:
		if b == 0 {
			return nil, false
		}
		return a / b, true
	case token.REM:
		if b == 0 {
			return nil, false
		}
		return a % b, true
	case token.AND:
		return a & b, true
	case token.OR:
		return a | b, true
	case token.XOR:
		return a ^ b, true
	case token.AND_NOT:
		return a &^ b, true
	case token.SHL:
		if b < 0 || b > 63 {
			return nil, false
		}
		return a << uint(b), true
	case token.SHR:
		if b < 0 || b > 63 {
			return nil, false
		}
		return a >> uint(b), true
	}
	return nil, false
}

var _ = fmt.Sprint

// oTokF is a formatted float inside a modelled byte string (what strconv wrote for rank r).
type oTokF struct{ r int64 }

// appendVals appends with Go's aliasing behaviour (in place when the capacity allows).
func appendVals(s oSlice, add []oval) oSlice {
	n := s.length() + len(add)
	if s.arr != nil && n <= s.capacity() {
		for i, v := range add {
			(*s.arr)[s.hi+i] = v
		}
		s.hi += len(add)
		return s
	}
	arr := make([]oval, n)
	for i := 0; i < s.length(); i++ {
		arr[i] = s.at(i)
	}
	copy(arr[s.length():], add)
	return oSlice{typ: s.typ, arr: &arr, lo: 0, hi: n, capEnd: n}
}

// oMap is a small insertion-ordered map with abstract keys compared by oEqual.
type oMap struct {
	typ  types.Type
	keys *[]oval
	vals *[]oval
}

func (m oMap) find(k oval) int {
	if m.keys == nil {
		return -1
	}
	for i, kk := range *m.keys {
		if eq, ok := oEqual(kk, k); ok && eq {
			return i
		}
	}
	return -1
}

func (fr *oFrame) mapLit(x *ast.CompositeLit, t types.Type) oval {
	keys, vals := []oval{}, []oval{}
	for _, el := range x.Elts {
		kv, ok := el.(*ast.KeyValueExpr)
		if !ok {
			return oTop{"map literal without keys"}
		}
		keys = append(keys, fr.rvalue(fr.eval(kv.Key)))
		vals = append(vals, fr.rvalue(fr.eval(kv.Value)))
	}
	return oMap{typ: t, keys: &keys, vals: &vals}
}

// mapIndex evaluates m[k] (value, present).
func (fr *oFrame) mapIndex(x *ast.IndexExpr, m oMap) (oval, oval) {
	k := fr.eval(x.Index)
	if isTop(k) {
		return oTop{"map key " + showVal(k)}, oTop{"?"}
	}
	if i := m.find(k); i >= 0 {
		return fr.rvalue((*m.vals)[i]), oBool(true)
	}
	mt, _ := m.typ.Underlying().(*types.Map)
	if mt == nil {
		return oTop{"map type"}, oBool(false)
	}
	return fr.it.zero(mt.Elem()), oBool(false)
}

// oHost is a value of a type outside the repository that the driver models itself (a
// reflect.Type, a reflect.Value): every method call on it goes to the interpreter's stub.
// Two host values are equal when kind and key agree.
type oHost struct {
	kind, key string
	v         interface{}
}
