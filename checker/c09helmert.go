package main

// C09.R6 — the 7-parameter (Helmert) datum shift.
//
// Two static obligations on the methods that read the datum's parameter
// vector and map (x, y, z) to (x, y, z):
//
//  (a) simultaneity (SSA dependence): on every path the three returned
//      ordinates are computed from the same generation of inputs — none of
//      the returned values is a transitive operand of another.  A rotation
//      applied "in place" (x updated, then y computed from the new x) is a
//      different, wrong, linear map.
//  (b) shape of the linear form (expression structure, no evaluation): each
//      output ordinate is a signed sum of products; the translation added to /
//      removed from axis i is parameter i, the rotation coupling axes i and j
//      is the parameter of the third axis (3+k), the coupling matrix is
//      antisymmetric, and the matrix of the inverse shift is the transpose of
//      the forward one.

import (
	"fmt"
	"go/ast"
	"go/token"
	"go/types"
	"sort"
	"strings"

	"golang.org/x/tools/go/ssa"
)

func (a *c09) helmert() {
	c := a.c
	p := c.P.Pkg("proj")
	info := p.TypesInfo
	var fns []*types.Func
	for _, fn := range c.P.RepoFuncs() {
		if c.P.DeclPkg(fn) != p {
			continue
		}
		sig := fn.Type().(*types.Signature)
		if sig.Recv() == nil || sig.Params().Len() != 3 || sig.Results().Len() != 3 {
			continue
		}
		all := true
		for i := 0; i < 3; i++ {
			if !isFloat64(sig.Params().At(i).Type()) || !isFloat64(sig.Results().At(i).Type()) {
				all = false
			}
		}
		if !all {
			continue
		}
		// reads a []float64 field of the receiver by constant index
		fd := c.P.Decl(fn)
		reads := false
		ast.Inspect(fd.Body, func(n ast.Node) bool {
			if ix, ok := n.(*ast.IndexExpr); ok {
				if _, ok := constInt(info, ix.Index); ok {
					if sel, ok := unparen(ix.X).(*ast.SelectorExpr); ok {
						if sl := info.Selections[sel]; sl != nil && sl.Kind() == types.FieldVal {
							if st, ok := sl.Obj().Type().Underlying().(*types.Slice); ok && isFloat64(st.Elem()) {
								reads = true
							}
						}
					}
				}
			}
			return true
		})
		if reads {
			fns = append(fns, fn)
		}
	}
	sort.Slice(fns, func(i, j int) bool { return c.P.PosLess(c.P.Decl(fns[i]).Pos(), c.P.Decl(fns[j]).Pos()) })
	if len(fns) == 0 {
		c.Unk("C09.R6", "proj#datum-shift", token.NoPos, "no (x,y,z)→(x,y,z) method reading the datum parameter vector found")
		return
	}
	mats := map[*types.Func]*helmertForm{}
	three := map[*types.Func]int{}
	for _, fn := range fns {
		a.helmertSimultaneous(fn)
		mats[fn] = a.helmertForm(info, fn)
		three[fn] = a.threeParam(info, fn)
	}
	if len(fns) == 2 && three[fns[0]] != 0 && three[fns[1]] != 0 {
		cons := fmt.Sprintf("proj#3-parameter-pair(%s,%s)", fns[0].Name(), fns[1].Name())
		if three[fns[0]] == -three[fns[1]] {
			c.OK("C09.R6", cons, c.P.Decl(fns[0]).Pos(), "one direction adds the geocentric translation, the other subtracts it")
		} else {
			c.Bad("C09.R6", cons, c.P.Decl(fns[0]).Pos(), "both directions of the 3-parameter shift apply the translation with the same sign: shifting to WGS84 and back does not return the starting point")
		}
	}
	// forward/inverse pairing: transposed rotation, opposite translation sign
	if len(fns) == 2 && mats[fns[0]] != nil && mats[fns[1]] != nil {
		f, g := mats[fns[0]], mats[fns[1]]
		cons := fmt.Sprintf("proj#helmert-pair(%s,%s)", fns[0].Name(), fns[1].Name())
		var bad []string
		for i := 0; i < 3; i++ {
			for j := 0; j < 3; j++ {
				if i == j {
					continue
				}
				if f.rot[i][j].k != g.rot[j][i].k || f.rot[i][j].sign != g.rot[j][i].sign {
					bad = append(bad, fmt.Sprintf("rotation term (%s←%s) of %s is %s but (%s←%s) of %s is %s", axisN(i), axisN(j), fns[0].Name(), f.rot[i][j], axisN(j), axisN(i), fns[1].Name(), g.rot[j][i]))
				}
			}
			if f.trans[i].k != g.trans[i].k || f.trans[i].sign != -g.trans[i].sign {
				bad = append(bad, fmt.Sprintf("translation of %s: %s in %s, %s in %s (want the same parameter with opposite signs)", axisN(i), f.trans[i], fns[0].Name(), g.trans[i], fns[1].Name()))
			}
		}
		if f.scaleDiv == g.scaleDiv {
			bad = append(bad, "both directions apply the scale the same way (one must multiply by it, the other divide)")
		}
		if len(bad) == 0 {
			c.OK("C09.R6", cons, c.P.Decl(fns[0]).Pos(), "the rotation matrix of one direction is the transpose of the other, translations have opposite signs, one direction multiplies by the scale and the other divides")
		} else {
			c.Bad("C09.R6", cons, c.P.Decl(fns[0]).Pos(), "the two directions of the 7-parameter shift are not inverse to each other: %s", strings.Join(bad, "; "))
		}
	} else if len(fns) != 2 {
		c.Unk("C09.R6", "proj#helmert-pair", token.NoPos, "expected a forward and an inverse datum-shift method, found %d", len(fns))
	}
}

func axisN(i int) string { return [...]string{"x", "y", "z"}[i] }

// ---- (a) simultaneity

func (a *c09) helmertSimultaneous(fn *types.Func) {
	c := a.c
	cons := c.P.FuncName(fn) + "#simultaneous"
	sf := c.P.SSAFunc(fn)
	if sf == nil {
		c.Unk("C09.R6", cons, token.NoPos, "no SSA body")
		return
	}
	depends := func(v, on ssa.Value) bool {
		seen := map[ssa.Value]bool{}
		var walk func(x ssa.Value, d int) bool
		walk = func(x ssa.Value, d int) bool {
			if x == on {
				return true
			}
			if seen[x] || d > 200 {
				return false
			}
			seen[x] = true
			in, ok := x.(ssa.Instruction)
			if !ok {
				return false
			}
			for _, op := range in.Operands(nil) {
				if *op != nil && walk(*op, d+1) {
					return true
				}
			}
			return false
		}
		in, ok := v.(ssa.Instruction)
		if !ok {
			return false
		}
		for _, op := range in.Operands(nil) {
			if *op != nil && walk(*op, 0) {
				return true
			}
		}
		return false
	}
	nTriples := 0
	var bad string
	var badPos token.Pos
	var expand func(t [3]ssa.Value, depth int)
	expand = func(t [3]ssa.Value, depth int) {
		if bad != "" {
			return
		}
		var blk *ssa.BasicBlock
		for _, v := range t {
			if ph, ok := v.(*ssa.Phi); ok && depth < 6 {
				blk = ph.Block()
				break
			}
		}
		if blk != nil {
			for k := range blk.Preds {
				var u [3]ssa.Value
				for i, v := range t {
					if ph, ok := v.(*ssa.Phi); ok && ph.Block() == blk {
						u[i] = ph.Edges[k]
					} else {
						u[i] = v
					}
				}
				expand(u, depth+1)
			}
			return
		}
		nTriples++
		for i := 0; i < 3; i++ {
			for j := 0; j < 3; j++ {
				if i != j && t[i] != t[j] && depends(t[j], t[i]) {
					bad = fmt.Sprintf("the returned %s is computed from the already updated %s (`%s` feeds `%s`): the three ordinates are not transformed simultaneously, so the rotation applied is not the Helmert matrix", axisN(j), axisN(i), t[i].String(), t[j].String())
					badPos = t[j].Pos()
					return
				}
			}
		}
	}
	for _, b := range sf.Blocks {
		for _, in := range b.Instrs {
			if r, ok := in.(*ssa.Return); ok && len(r.Results) == 3 {
				expand([3]ssa.Value{r.Results[0], r.Results[1], r.Results[2]}, 0)
			}
		}
	}
	switch {
	case bad != "":
		c.Bad("C09.R6", cons, badPos, "%s", bad)
	case nTriples == 0:
		c.Unk("C09.R6", cons, token.NoPos, "no returned triple found")
	default:
		c.OK("C09.R6", cons, c.P.Decl(fn).Pos(), "%d returned triples: no output ordinate is an operand of another", nTriples)
	}
}

// ---- (b) linear form

type hTerm struct {
	k    int // parameter index, -1 none
	sign int
}

func (t hTerm) String() string {
	if t.sign == 0 {
		return "absent"
	}
	s := "+"
	if t.sign < 0 {
		s = "-"
	}
	if t.k < 0 {
		return s + "1"
	}
	return fmt.Sprintf("%sp[%d]", s, t.k)
}

type helmertForm struct {
	rot      [3][3]hTerm
	trans    [3]hTerm
	scaleDiv bool
}

// product: a signed set of atoms
type hProd struct {
	sign   int
	params []int          // parameter indices
	vars   []types.Object // other identifiers
	inv    []int          // parameters divided by
}

func (a *c09) helmertForm(info *types.Info, fn *types.Func) *helmertForm {
	c := a.c
	fd := c.P.Decl(fn)
	cons := c.P.FuncName(fn) + "#linear-form"
	sc := newFnScope(info, fd.Body)
	ps := paramVars(info, fd.Type)
	// parameter-vector index of a local / expression
	var paramIdxIn func(sc *fnScope, e ast.Expr, depth int) (int, bool)
	paramIdxIn = func(sc *fnScope, e ast.Expr, depth int) (int, bool) {
		e = unparen(e)
		if depth > 4 {
			return 0, false
		}
		if o := objOf(info, e); o != nil {
			if ds := sc.defs[o]; len(ds) == 1 && ds[0] != nil {
				e = unparen(ds[0])
			}
		}
		if ix, ok := e.(*ast.IndexExpr); ok {
			if k, ok := constInt(info, ix.Index); ok {
				base := unparen(ix.X)
				if o := objOf(info, base); o != nil {
					if ds := sc.defs[o]; len(ds) == 1 && ds[0] != nil {
						base = unparen(ds[0])
					}
				}
				if sel, ok := base.(*ast.SelectorExpr); ok {
					if sl := info.Selections[sel]; sl != nil && sl.Kind() == types.FieldVal {
						return int(k), true
					}
				}
			}
		}
		// h.f where h := recv.helper() and helper returns T{f: p[k], …}
		if sel, ok := e.(*ast.SelectorExpr); ok {
			if sl := info.Selections[sel]; sl != nil && sl.Kind() == types.FieldVal {
				if o := objOf(info, sel.X); o != nil {
					if ds := sc.defs[o]; len(ds) == 1 && ds[0] != nil {
						if call, ok := unparen(ds[0]).(*ast.CallExpr); ok {
							if h := callee(info, call); h != nil && c.P.Decl(h) != nil {
								hfd := c.P.Decl(h)
								hsc := newFnScope(info, hfd.Body)
								var out ast.Expr
								ast.Inspect(hfd.Body, func(n ast.Node) bool {
									if r, ok := n.(*ast.ReturnStmt); ok && len(r.Results) == 1 {
										if lit, ok := unparen(r.Results[0]).(*ast.CompositeLit); ok {
											for _, el := range lit.Elts {
												if kv, ok := el.(*ast.KeyValueExpr); ok && src(kv.Key) == sel.Sel.Name {
													out = kv.Value
												}
											}
										}
									}
									return true
								})
								if out != nil {
									return paramIdxIn(hsc, out, depth+1)
								}
							}
						}
					}
				}
			}
		}
		return 0, false
	}
	paramIdx := func(e ast.Expr) (int, bool) { return paramIdxIn(sc, e, 0) }
	// the 7-parameter statement list: the innermost block or case body one of whose own statements
	// (not a nested list) mentions datum parameter 6, directly or through a helper's struct
	var blkList []ast.Stmt
	var blkPos, blkEnd token.Pos
	consider := func(list []ast.Stmt, pos, end token.Pos) {
		for _, st := range list {
			found := false
			ast.Inspect(st, func(m ast.Node) bool {
				switch m.(type) {
				case *ast.BlockStmt, *ast.CaseClause:
					return false
				}
				if e, ok := m.(ast.Expr); ok {
					if k, ok := paramIdx(e); ok && k == 6 {
						found = true
					}
				}
				return !found
			})
			if found {
				blkList, blkPos, blkEnd = list, pos, end
			}
		}
	}
	ast.Inspect(fd.Body, func(n ast.Node) bool {
		switch b := n.(type) {
		case *ast.BlockStmt:
			consider(b.List, b.Pos(), b.End())
		case *ast.CaseClause:
			consider(b.Body, b.Pos(), b.End())
		}
		return true
	})
	if blkList == nil {
		c.Unk("C09.R6", cons, fd.Pos(), "statements using the seventh datum parameter not found")
		return nil
	}
	blk := &ast.BlockStmt{List: blkList, Lbrace: blkPos, Rbrace: blkEnd - 1}
	// flatten an expression into products; coordinate temporaries defined inside blk are expanded
	var flat func(e ast.Expr, depth int) ([]hProd, bool)
	env := map[types.Object][]hProd{} // current value of every local assigned inside the block, in statement order
	mul := func(x, y []hProd) []hProd {
		var out []hProd
		for _, p := range x {
			for _, q := range y {
				out = append(out, hProd{p.sign * q.sign, append(append([]int{}, p.params...), q.params...), append(append([]types.Object{}, p.vars...), q.vars...), append(append([]int{}, p.inv...), q.inv...)})
			}
		}
		return out
	}
	flat = func(e ast.Expr, depth int) ([]hProd, bool) {
		e = unparen(e)
		if depth > 6 {
			return nil, false
		}
		if k, ok := paramIdx(e); ok {
			return []hProd{{sign: 1, params: []int{k}}}, true
		}
		switch x := e.(type) {
		case *ast.Ident:
			o := objOf(info, x)
			if o == nil {
				return nil, false
			}
			if cur, ok := env[o]; ok {
				out := make([]hProd, len(cur))
				for i, p := range cur {
					out[i] = hProd{p.sign, append([]int{}, p.params...), append([]types.Object{}, p.vars...), append([]int{}, p.inv...)}
				}
				return out, true
			}
			return []hProd{{sign: 1, vars: []types.Object{o}}}, true
		case *ast.UnaryExpr:
			if x.Op == token.SUB {
				t, ok := flat(x.X, depth)
				for i := range t {
					t[i].sign = -t[i].sign
				}
				return t, ok
			}
			if x.Op == token.ADD {
				return flat(x.X, depth)
			}
		case *ast.BinaryExpr:
			l, ok1 := flat(x.X, depth)
			r, ok2 := flat(x.Y, depth)
			if !ok1 || !ok2 {
				return nil, false
			}
			switch x.Op {
			case token.ADD:
				return append(l, r...), true
			case token.SUB:
				for i := range r {
					r[i].sign = -r[i].sign
				}
				return append(l, r...), true
			case token.MUL:
				return mul(l, r), true
			case token.QUO:
				if len(r) == 1 && len(r[0].params) == 1 && len(r[0].vars) == 0 && r[0].sign == 1 {
					for i := range l {
						l[i].inv = append(l[i].inv, r[0].params[0])
					}
					return l, true
				}
			}
		}
		return nil, false
	}
	// walk the block in statement order; the outputs are the coordinate parameters' final values or the returned triple
	var outs [3][]hProd
	var outPos [3]token.Pos
	have := [3]bool{}
	assign := func(lhs []ast.Expr, rhs []ast.Expr, tok token.Token) bool {
		if len(lhs) != len(rhs) {
			return false
		}
		vals := make([][]hProd, len(rhs))
		for i, r := range rhs {
			if _, isParam := paramIdx(r); isParam {
				continue // a named parameter-vector element: resolved by paramIdx at use
			}
			e := r
			if tok == token.ADD_ASSIGN || tok == token.SUB_ASSIGN {
				op := token.ADD
				if tok == token.SUB_ASSIGN {
					op = token.SUB
				}
				e = &ast.BinaryExpr{X: lhs[i], Op: op, Y: r}
			}
			v, ok := flat(e, 0)
			if !ok {
				if o := objOf(info, lhs[i]); o != nil && !isFloat64(o.Type()) {
					continue // not a coordinate or parameter value (e.g. a parameter struct): nothing to track
				}
				return false
			}
			vals[i] = v
		}
		for i, l := range lhs {
			if o := objOf(info, l); o != nil && vals[i] != nil {
				env[o] = vals[i]
				for k := 0; k < 3 && k < len(ps); k++ {
					if ps[k] == o {
						outs[k], outPos[k], have[k] = vals[i], rhs[i].Pos(), true
					}
				}
			}
		}
		return true
	}
	for _, st := range blk.List {
		ok := true
		switch s := st.(type) {
		case *ast.AssignStmt:
			ok = assign(s.Lhs, s.Rhs, s.Tok)
		case *ast.DeclStmt:
			if gd, isGen := s.Decl.(*ast.GenDecl); isGen {
				for _, sp := range gd.Specs {
					if vs, isVal := sp.(*ast.ValueSpec); isVal && len(vs.Values) == len(vs.Names) {
						var l []ast.Expr
						for _, nm := range vs.Names {
							l = append(l, nm)
						}
						ok = ok && assign(l, vs.Values, token.DEFINE)
					}
				}
			}
		case *ast.ReturnStmt:
			if len(s.Results) == 3 {
				for k := 0; k < 3; k++ {
					v, ok2 := flat(s.Results[k], 0)
					if !ok2 {
						ok = false
						break
					}
					outs[k], outPos[k], have[k] = v, s.Results[k].Pos(), true
				}
			}
		}
		if !ok {
			c.Unk("C09.R6", cons, st.Pos(), "`%s` is not a signed sum of products of parameters and ordinates", src(st))
			return nil
		}
	}
	form := &helmertForm{}
	// coordinate atoms: the parameter itself, or a temporary that expands to a product containing exactly that parameter
	axisOf := func(o types.Object) int {
		for k := 0; k < 3 && k < len(ps); k++ {
			if ps[k] == o {
				return k
			}
		}
		return -1
	}
	for i := 0; i < 3; i++ {
		if !have[i] {
			c.Unk("C09.R6", cons, blk.Pos(), "output expression for %s not found in the 7-parameter block", axisN(i))
			return nil
		}
		terms := outs[i]
		for _, t := range terms {
			var rots, trs []int
			scale := false
			for _, k := range t.params {
				switch {
				case k <= 2:
					trs = append(trs, k)
				case k <= 5:
					rots = append(rots, k)
				case k == 6:
					scale = true
				}
			}
			for _, k := range t.inv {
				if k == 6 {
					form.scaleDiv = true
				}
			}
			_ = scale
			switch {
			case len(t.vars) == 1 && axisOf(t.vars[0]) >= 0 && len(trs) == 0 && len(rots) <= 1:
				j := axisOf(t.vars[0])
				ht := hTerm{k: -1, sign: t.sign}
				if len(rots) == 1 {
					ht.k = rots[0]
				}
				if form.rot[i][j].sign != 0 {
					c.Bad("C09.R6", cons, outPos[i], "the %s output has two terms in %s", axisN(i), axisN(j))
					return nil
				}
				form.rot[i][j] = ht
			case len(t.vars) == 0 && len(trs) == 1 && len(rots) == 0:
				// pure translation term (forward: +D; inverse after expansion: −D/M)
				if form.trans[i].sign != 0 && form.trans[i].k != trs[0] {
					c.Bad("C09.R6", cons, outPos[i], "the %s output has two different translation parameters", axisN(i))
					return nil
				}
				form.trans[i] = hTerm{k: trs[0], sign: t.sign}
			case len(t.vars) == 0 && len(trs) == 1 && len(rots) == 1:
				// second-order cross term of the expanded inverse (R·D/M): implied by the first-order ones
			case len(t.vars) == 1 && axisOf(t.vars[0]) >= 0 && len(rots) >= 2:
				c.Bad("C09.R6", cons, outPos[i], "the %s output contains a product of %d rotation parameters with %s: an ordinate updated earlier in the block was read again, so the three ordinates are not rotated simultaneously", axisN(i), len(rots), axisN(axisOf(t.vars[0])))
				return nil
			default:
				c.Unk("C09.R6", cons, outPos[i], "term of the %s output not recognised (parameters %v, %d ordinates)", axisN(i), t.params, len(t.vars))
				return nil
			}
		}
	}
	// per-function checks: diagonal +1, translation index = axis, rotation index = 3 + third axis, antisymmetry
	var bad []string
	for i := 0; i < 3; i++ {
		if d := form.rot[i][i]; !(d.sign == 1 && d.k == -1) {
			bad = append(bad, fmt.Sprintf("the %s output's own-axis term is %s, want +1·%s", axisN(i), d, axisN(i)))
		}
		if t := form.trans[i]; t.sign == 0 || t.k != i {
			bad = append(bad, fmt.Sprintf("the %s output is translated by %s, want parameter %d", axisN(i), t, i))
		}
		for j := 0; j < 3; j++ {
			if i == j {
				continue
			}
			third := 3 - i - j
			r := form.rot[i][j]
			if r.sign == 0 || r.k != 3+third {
				bad = append(bad, fmt.Sprintf("the coupling %s←%s is %s, want ±p[%d] (rotation about %s)", axisN(i), axisN(j), r, 3+third, axisN(third)))
			} else if s := form.rot[j][i]; s.sign != 0 && s.sign != -r.sign {
				if i < j {
					bad = append(bad, fmt.Sprintf("the couplings %s←%s (%s) and %s←%s (%s) have the same sign: the small-angle rotation matrix must be antisymmetric", axisN(i), axisN(j), r, axisN(j), axisN(i), s))
				}
			}
		}
	}
	if len(bad) > 0 {
		c.Bad("C09.R6", cons, blk.Pos(), "%s", strings.Join(bad, "; "))
		return nil
	}
	c.OK("C09.R6", cons, blk.Pos(), "x: %s·x %s·y %s·z, y: %s·x %s·y %s·z, z: %s·x %s·y %s·z; translations p[0..2] on their own axes; scale %s", form.rot[0][0], form.rot[0][1], form.rot[0][2], form.rot[1][0], form.rot[1][1], form.rot[1][2], form.rot[2][0], form.rot[2][1], form.rot[2][2], map[bool]string{true: "divided out", false: "multiplied in"}[form.scaleDiv])
	return form
}

// threeParam: the block that only reads parameters 0..2 must update ordinate k by ±p[k]
// with one common sign; returns that sign (0 after reporting a problem).
func (a *c09) threeParam(info *types.Info, fn *types.Func) int {
	c := a.c
	fd := c.P.Decl(fn)
	cons := c.P.FuncName(fn) + "#3-parameter"
	ps := paramVars(info, fd.Type)
	var blk *ast.BlockStmt
	consider := func(list []ast.Stmt, pos, end token.Pos) {
		maxK, reads := int64(-1), false
		for _, st := range list {
			ast.Inspect(st, func(m ast.Node) bool {
				switch m.(type) {
				case *ast.BlockStmt, *ast.CaseClause:
					return false
				}
				if ix, ok := m.(*ast.IndexExpr); ok {
					if k, ok := constInt(info, ix.Index); ok {
						if _, isSel := unparen(ix.X).(*ast.SelectorExpr); isSel {
							reads = true
							if k > maxK {
								maxK = k
							}
						}
					}
				}
				return true
			})
		}
		if reads && maxK == 2 && blk == nil {
			blk = &ast.BlockStmt{List: list, Lbrace: pos, Rbrace: end - 1}
		}
	}
	ast.Inspect(fd.Body, func(n ast.Node) bool {
		switch b := n.(type) {
		case *ast.BlockStmt:
			if b != fd.Body {
				consider(b.List, b.Pos(), b.End())
			}
		case *ast.CaseClause:
			consider(b.Body, b.Pos(), b.End())
		}
		return true
	})
	if blk == nil {
		c.Unk("C09.R6", cons, fd.Pos(), "3-parameter block not found")
		return 0
	}
	sign := [3]int{}
	for _, st := range blk.List {
		as, ok := st.(*ast.AssignStmt)
		if !ok || len(as.Lhs) != 1 || len(as.Rhs) != 1 {
			continue
		}
		for k := 0; k < 3 && k < len(ps); k++ {
			if objOf(info, as.Lhs[0]) != ps[k] {
				continue
			}
			ix, isIx := unparen(as.Rhs[0]).(*ast.IndexExpr)
			sg := 0
			switch as.Tok {
			case token.ADD_ASSIGN:
				sg = 1
			case token.SUB_ASSIGN:
				sg = -1
			case token.ASSIGN:
				if b, ok := unparen(as.Rhs[0]).(*ast.BinaryExpr); ok && objOf(info, b.X) == ps[k] && (b.Op == token.ADD || b.Op == token.SUB) {
					ix, isIx = unparen(b.Y).(*ast.IndexExpr)
					sg = map[token.Token]int{token.ADD: 1, token.SUB: -1}[b.Op]
				}
			}
			if !isIx || sg == 0 {
				c.Unk("C09.R6", cons, as.Pos(), "`%s` is not ordinate ± parameter", src(as))
				return 0
			}
			if kk, ok := constInt(info, ix.Index); !ok || int(kk) != k {
				c.Bad("C09.R6", cons, as.Pos(), "`%s` shifts %s by parameter %s, want parameter %d", src(as), axisN(k), src(ix.Index), k)
				return 0
			}
			sign[k] = sg
		}
	}
	if sign[0] == 0 || sign[0] != sign[1] || sign[1] != sign[2] {
		c.Bad("C09.R6", cons, blk.Pos(), "the three ordinates are not all shifted with the same sign (x %+d, y %+d, z %+d)", sign[0], sign[1], sign[2])
		return 0
	}
	c.OK("C09.R6", cons, blk.Pos(), "x, y, z shifted by %+d·p[0], p[1], p[2]", sign[0])
	return sign[0]
}
