package main

// C09.R6 — the 7-parameter (Helmert) datum shift.
//
// Two static obligations on the methods that read the datum's parameter
// vector and map (x, y, z) to (x, y, z):
//
//  (a) simultaneity (SSA dependence): on every path the three returned
//      ordinates are computed from the same generation of inputs — none of
//      the returned values is a transitive operand of another.  A rotation
//      applied "in place" (x updated, then y computed from the new x) is a
//      different, wrong, linear map.
//  (b) shape of the linear form (expression structure, no evaluation): each
//      output ordinate is a signed sum of products; the translation added to /
//      removed from axis i is parameter i, the rotation coupling axes i and j
//      is the parameter of the third axis (3+k), the coupling matrix is
//      antisymmetric, and the matrix of the inverse shift is the transpose of
//      the forward one.

import (
	"go/types"
)

// ---- (a) simultaneity

// ---- (b) linear form

type hTerm struct {
	k    int // parameter index, -1 none
	sign int
}

type helmertForm struct {
	rot      [3][3]hTerm
	trans    [3]hTerm
	scaleDiv bool
}

// product: a signed set of atoms
type hProd struct {
	sign   int
	params []int          // parameter indices
	vars   []types.Object // other identifiers
	inv    []int          // parameters divided by
}
