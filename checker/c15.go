package main

// C15 — Similar is a symmetric tolerance comparison.
//
// R1  every possibly-true result of a collection Similar (and of the helpers it
//     returns through) has passed a test that fails when member counts differ.
//     Witness when broken: a = 1 member, b = that member + another; a.Similar(b)
//     matches everything it looks at (true) while b.Similar(a) fails (false).
// R2  a possibly-true result is only produced after the argument was found to
//     have the receiver's own dynamic type.
// R3  the scalar comparison is |a-b| < tol on the same axis of both points and
//     equal-length lists are compared element-wise over the full range.

import (
	"fmt"
	"go/token"
	"go/types"
	"math"
)

func init() { register("C15", false, checkC15) }

var geomTypes = []string{"Point", "MultiPoint", "LineString", "MultiLineString", "Polygon", "MultiPolygon", "GeometryCollection", "Bounds"}

type c15 struct {
	c       *Ctx
	info    *types.Info
	summary map[string]int // helper summaries: 0 unknown/in progress, 1 length-checking, 2 not
}

func checkC15(c *Ctx) {
	c.Rule("C15.R1", "Similar, evaluated in both directions on model pairs for each of the eight types: true for a perturbed copy, also with members reordered and closed rings rotated; false when a vertex is displaced, a member or vertex is added or removed (a vertex also in one ring of a polygon or of a multi-polygon's member), a line is reversed, or a duplicated member stands against a different one; and always symmetric")
	c.Rule("C15.R2", "Similar is false for every ordered pair of different geometry types (model evaluation)")
	c.Rule("C15.R3", "model evaluation of Point.Similar on two points differing in one coordinate (each axis), symbolic coordinates and tolerance under eleven separating valuations: the tolerance test is |a−b| < tol, strict (a difference of exactly the tolerance and a zero tolerance on equal values are rejected) and bounding both signs of the difference")
	pk := c.P.Pkg("geom")
	a := &c15{c: c, info: pk.TypesInfo, summary: map[string]int{}}
	c15model(c, "C15.R1", "C15.R2", "C15.R3")
	a.scalarOnly()
	c.Floor("C15.R1", 8)
	c.Floor("C15.R2", 1)
	c.Floor("C15.R3", 2)
}

// scalarOnly (C15.R3): the arithmetic of the tolerance test, observed at the API: Point.Similar on
// two points that differ in one coordinate only (each axis in turn), with symbolic coordinates and
// tolerance under valuations that separate |a − b| < tol from its neighbours — a difference of
// exactly the tolerance (either sign), a tolerance of zero on equal values, far apart in either
// direction, near in either direction.  Which helper holds the comparison is immaterial.
func (a *c15) scalarOnly() {
	c := a.c
	sim := c.P.Method("geom", "Point", "Similar")
	ptT := c.P.NamedType("geom", "Point")
	if sim == nil || c.P.Decl(sim) == nil || ptT == nil {
		c.Unk("C15.R3", "geom.(Point).Similar", token.NoPos, "API anchor does not resolve")
		return
	}
	type tc struct {
		a, b, e float64
		want    bool
		kind    string
	}
	for _, axis := range []string{"X", "Y"} {
		name := "geom.(Point).Similar#tolerance(" + axis + ")"
		bad, unk := "", ""
		for _, t := range []tc{
			{1, 1.5, 1, true, ""}, {1.5, 1, 1, true, ""}, {-2, -2.25, 0.5, true, ""}, {10, 10, 0.001, true, ""},
			{1, 3, 1, false, "onesided"}, {3, 1, 1, false, "onesided"}, {-2, 2, 0.5, false, "onesided"}, {2, -2, 0.5, false, "onesided"},
			{1, 2, 1, false, "nonstrict"}, {2, 1, 1, false, "nonstrict"}, {5, 5, 0, false, "nonstrict"},
		} {
			symResetEval()
			it := &oInterp{p: c.P, maxDepth: 48, symbolic: true}
			it.valuation = map[string]float64{"ta": t.a, "tb": t.b, "te": t.e, "tc": 7}
			mk := func(v string) oval {
				st := it.zero(ptT).(*oStruct)
				st.fields["X"], st.fields["Y"] = oSym{polyVar("tc")}, oSym{polyVar("tc")}
				st.fields[axis] = oSym{polyVar(v)}
				return st
			}
			c.Evals(1)
			res, why := it.Call(sim, mk("ta"), []oval{oIface{dyn: mk("tb")}, oSym{polyVar("te")}}, 0)
			if why != "" || len(res) != 1 {
				unk = "Point.Similar is not interpretable: " + why
				break
			}
			got, ok := res[0].(oBool)
			if !ok {
				unk = "Point.Similar returns " + showVal(res[0])
				break
			}
			if bool(got) == t.want {
				continue
			}
			what := fmt.Sprintf("two points whose %s coordinates are %v and %v (the other coordinate equal), tolerance %v", axis, t.a, t.b, t.e)
			switch t.kind {
			case "onesided":
				bad = fmt.Sprintf("only one sign of the difference is bounded: %s are reported similar although they are %v apart, so Similar is not symmetric", what, math.Abs(t.a-t.b))
			case "nonstrict":
				bad = fmt.Sprintf("the tolerance test is not strict (|a−b| ≤ tol): %s are reported similar: a vertex displaced by exactly the tolerance is accepted", what)
			default:
				bad = fmt.Sprintf("%s are reported not similar although they are within the tolerance", what)
			}
			break
		}
		report3(c, "C15.R3", name, c.P.Decl(sim).Pos(), bad, unk, "|a−b| < tol on eleven separating valuations (strict, both signs of the difference bounded)")
	}
}

type c15env struct {
	recv     *types.Var
	arg      *types.Var
	recvType types.Type
	scope    *fnScope
	// variables holding the argument asserted to the receiver type
	argAlias map[types.Object]bool
	okVars   map[types.Object]bool // `ok` of a comma-ok assertion to the receiver type
	// generic mode (helpers): two slice parameters
	pa, pb types.Object
}

// ---------------------------------------------------------------- R3

func isFloat64(t types.Type) bool {
	b, ok := t.Underlying().(*types.Basic)
	return ok && b.Kind() == types.Float64
}

var c15listDone = map[*types.Func]bool{}
