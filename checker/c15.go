package main

// C15 — Similar is a symmetric tolerance comparison.
//
// R1  every possibly-true result of a collection Similar (and of the helpers it
//     returns through) has passed a test that fails when member counts differ.
//     Witness when broken: a = 1 member, b = that member + another; a.Similar(b)
//     matches everything it looks at (true) while b.Similar(a) fails (false).
// R2  a possibly-true result is only produced after the argument was found to
//     have the receiver's own dynamic type.
// R3  the scalar comparison is |a-b| < tol on the same axis of both points and
//     equal-length lists are compared element-wise over the full range.

import (
	"fmt"
	"go/ast"
	"go/token"
	"go/types"
	"math"
)

func init() { register("C15", false, checkC15) }

var geomTypes = []string{"Point", "MultiPoint", "LineString", "MultiLineString", "Polygon", "MultiPolygon", "GeometryCollection", "Bounds"}

type c15 struct {
	c       *Ctx
	info    *types.Info
	summary map[string]int // helper summaries: 0 unknown/in progress, 1 length-checking, 2 not
}

func checkC15(c *Ctx) {
	c.Rule("C15.R1", "Similar, evaluated in both directions on model pairs for each of the eight types: true for a perturbed copy, also with members reordered and closed rings rotated; false when a vertex is displaced, a member or vertex is added or removed, a line is reversed, or a duplicated member stands against a different one; and always symmetric")
	c.Rule("C15.R2", "Similar is false for every ordered pair of different geometry types (model evaluation)")
	c.Rule("C15.R3", "model evaluation of the scalar tolerance test the Similar methods reach (found by behaviour among the helpers of that signature) on symbolic arguments under eleven separating valuations: |a−b| < tol, strict (a difference of exactly the tolerance and a zero tolerance on equal values are rejected) and bounding both signs of the difference")
	pk := c.P.Pkg("geom")
	a := &c15{c: c, info: pk.TypesInfo, summary: map[string]int{}}
	c15model(c, "C15.R1", "C15.R2", "C15.R3")
	a.scalarOnly()
	c.Floor("C15.R1", 8)
	c.Floor("C15.R2", 1)
	c.Floor("C15.R3", 1)
}

// scalarOnly (C15.R3): the arithmetic of the tolerance test itself (the model gives the test its
// meaning and cannot judge it).  The tolerance tests are found by behaviour among the helpers of
// signature (float64, float64, float64) bool that the Similar methods reach (c15toleranceTests);
// each is evaluated on symbolic arguments under valuations that separate |a − b| < tol from its
// neighbours: a difference of exactly the tolerance (either sign), a tolerance of zero on equal
// values, far apart in either direction, near in either direction.
func (a *c15) scalarOnly() {
	c := a.c
	tests := c15toleranceTests(c)
	for _, fn := range tests {
		fd := c.P.Decl(fn)
		name := c.P.FuncName(fn)
		type tc struct {
			a, b, e float64
			want    bool
			kind    string
		}
		bad, unk := "", ""
		for _, t := range []tc{
			{1, 1.5, 1, true, ""}, {1.5, 1, 1, true, ""}, {-2, -2.25, 0.5, true, ""}, {10, 10, 0.001, true, ""},
			{1, 3, 1, false, "onesided"}, {3, 1, 1, false, "onesided"}, {-2, 2, 0.5, false, "onesided"}, {2, -2, 0.5, false, "onesided"},
			{1, 2, 1, false, "nonstrict"}, {2, 1, 1, false, "nonstrict"}, {5, 5, 0, false, "nonstrict"},
		} {
			got, why := c15evalScalar(c, fn, t.a, t.b, t.e)
			if why != "" {
				unk = "the tolerance test is not interpretable: " + why
				break
			}
			if got == t.want {
				continue
			}
			switch {
			case t.kind == "onesided":
				bad = fmt.Sprintf("only one sign of the difference is bounded: %s(%v, %v, %v) is true although the values are %v apart, so Similar is not symmetric", fn.Name(), t.a, t.b, t.e, math.Abs(t.a-t.b))
			case t.kind == "nonstrict":
				bad = fmt.Sprintf("the tolerance test is not strict: %s(%v, %v, %v) is true (|a−b| ≤ tol): a vertex displaced by exactly the tolerance is accepted", fn.Name(), t.a, t.b, t.e)
			default:
				bad = fmt.Sprintf("%s(%v, %v, %v) is false although the values are within the tolerance", fn.Name(), t.a, t.b, t.e)
			}
			break
		}
		switch {
		case bad != "":
			c.Bad("C15.R3", name, fd.Pos(), "%s", bad)
		case unk != "":
			c.Unk("C15.R3", name, fd.Pos(), "%s", unk)
		default:
			c.OK("C15.R3", name, fd.Pos(), "|a−b| < tol on eleven separating valuations (strict, both signs of the difference bounded)")
		}
	}
	if len(tests) == 0 {
		c.Unk("C15.R3", "geom#tolerance-test", token.NoPos, "no (float64, float64, float64) bool helper reached from the Similar methods behaves like a tolerance test (true for near values in both directions, false for far ones in at least one)")
	}
}

// c15evalScalar evaluates a (float64, float64, float64) bool helper at one valuation.
func c15evalScalar(c *Ctx, fn *types.Func, a, b, e float64) (bool, string) {
	symResetEval()
	it := &oInterp{p: c.P, maxDepth: 16, symbolic: true}
	it.valuation = map[string]float64{"ta": a, "tb": b, "te": e}
	c.Evals(1)
	res, why := it.Call(fn, nil, []oval{oSym{polyVar("ta")}, oSym{polyVar("tb")}, oSym{polyVar("te")}}, 0)
	if why != "" {
		return false, why
	}
	if len(res) != 1 {
		return false, "result count"
	}
	r, ok := res[0].(oBool)
	if !ok {
		return false, "the result is " + showVal(res[0])
	}
	return bool(r), ""
}

// c15toleranceTests: the helpers of signature (float64, float64, float64) bool in package geom
// that a method named Similar reaches through calls, and that answer like a tolerance test: true
// for near values in both directions, false for far values in at least one direction (a one-sided
// or non-strict test is still a tolerance test — a broken one; a range test is not).
func c15toleranceTests(c *Ctx) []*types.Func {
	pk := c.P.Pkg("geom")
	if pk == nil {
		return nil
	}
	info := pk.TypesInfo
	reached := map[*types.Func]bool{}
	var work []*types.Func
	for _, fn := range c.P.RepoFuncs() {
		if c.P.DeclPkg(fn) == pk && fn.Name() == "Similar" && fn.Type().(*types.Signature).Recv() != nil {
			reached[fn] = true
			work = append(work, fn)
		}
	}
	for len(work) > 0 {
		fn := work[0]
		work = work[1:]
		fd := c.P.Decl(fn)
		if fd == nil || fd.Body == nil {
			continue
		}
		ast.Inspect(fd.Body, func(n ast.Node) bool {
			var g *types.Func
			switch x := n.(type) {
			case *ast.CallExpr:
				g = callee(info, x)
			case *ast.Ident:
				g, _ = info.Uses[x].(*types.Func) // a helper passed as a value
			}
			if g != nil && !reached[g] && c.P.DeclPkg(g) == pk {
				reached[g] = true
				work = append(work, g)
			}
			return true
		})
	}
	var out []*types.Func
	for _, fn := range c.P.RepoFuncs() {
		if !reached[fn] {
			continue
		}
		sig := fn.Type().(*types.Signature)
		if sig.Recv() != nil || sig.Params().Len() != 3 || sig.Results().Len() != 1 {
			continue
		}
		if !isFloat64(sig.Params().At(0).Type()) || !isFloat64(sig.Params().At(1).Type()) || !isFloat64(sig.Params().At(2).Type()) {
			continue
		}
		if rb, ok := sig.Results().At(0).Type().Underlying().(*types.Basic); !ok || rb.Kind() != types.Bool {
			continue
		}
		n1, w1 := c15evalScalar(c, fn, 1, 1.25, 1)
		n2, w2 := c15evalScalar(c, fn, 1.25, 1, 1)
		f1, w3 := c15evalScalar(c, fn, 1, 5, 1)
		f2, w4 := c15evalScalar(c, fn, 5, 1, 1)
		if w1+w2+w3+w4 != "" {
			// not interpretable: kept, so that the rule reports it rather than passing it over
			out = append(out, fn)
			continue
		}
		if n1 && n2 && (!f1 || !f2) {
			out = append(out, fn)
		}
	}
	return out
}

type c15env struct {
	recv     *types.Var
	arg      *types.Var
	recvType types.Type
	scope    *fnScope
	// variables holding the argument asserted to the receiver type
	argAlias map[types.Object]bool
	okVars   map[types.Object]bool // `ok` of a comma-ok assertion to the receiver type
	// generic mode (helpers): two slice parameters
	pa, pb types.Object
}

// ---------------------------------------------------------------- R3

func isFloat64(t types.Type) bool {
	b, ok := t.Underlying().(*types.Basic)
	return ok && b.Kind() == types.Float64
}

var c15listDone = map[*types.Func]bool{}
