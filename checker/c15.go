package main

// C15 — Similar is a symmetric tolerance comparison.
//
// R1  every possibly-true result of a collection Similar (and of the helpers it
//     returns through) has passed a test that fails when member counts differ.
//     Witness when broken: a = 1 member, b = that member + another; a.Similar(b)
//     matches everything it looks at (true) while b.Similar(a) fails (false).
// R2  a possibly-true result is only produced after the argument was found to
//     have the receiver's own dynamic type.
// R3  the scalar comparison is |a-b| < tol on the same axis of both points and
//     equal-length lists are compared element-wise over the full range.

import (
	"fmt"
	"go/ast"
	"go/token"
	"go/types"
)

func init() { register("C15", false, checkC15) }

var geomTypes = []string{"Point", "MultiPoint", "LineString", "MultiLineString", "Polygon", "MultiPolygon", "GeometryCollection", "Bounds"}

type c15 struct {
	c       *Ctx
	info    *types.Info
	summary map[string]int // helper summaries: 0 unknown/in progress, 1 length-checking, 2 not
}

func checkC15(c *Ctx) {
	c.Rule("C15.R1", "Similar, evaluated in both directions on model pairs for each of the eight types: true for a perturbed copy, also with members reordered and closed rings rotated; false when a vertex is displaced, a member or vertex is added or removed, a line is reversed, or a duplicated member stands against a different one; and always symmetric")
	c.Rule("C15.R2", "Similar is false for every ordered pair of different geometry types (model evaluation)")
	c.Rule("C15.R3", "the scalar tolerance test is |a−b| < tol: strict, and bounding both signs of the difference")
	pk := c.P.Pkg("geom")
	a := &c15{c: c, info: pk.TypesInfo, summary: map[string]int{}}
	c15model(c, "C15.R1", "C15.R2", "C15.R3")
	a.scalarOnly()
	c.Floor("C15.R1", 8)
	c.Floor("C15.R2", 1)
	c.Floor("C15.R3", 1)
}

// scalarOnly: the arithmetic of the tolerance test itself (the model gives it its meaning and
// cannot judge it): |a−b| < tol, written with math.Abs or as the conjunction of the two
// one-sided tests.
func (a *c15) scalarOnly() {
	c := a.c
	pk := c.P.Pkg("geom")
	n := 0
	for _, fn := range c.P.RepoFuncs() {
		if c.P.DeclPkg(fn) != pk {
			continue
		}
		sig := fn.Type().(*types.Signature)
		if sig.Recv() != nil || sig.Params().Len() != 3 || sig.Results().Len() != 1 {
			continue
		}
		if !isFloat64(sig.Params().At(0).Type()) || !isFloat64(sig.Params().At(1).Type()) || !isFloat64(sig.Params().At(2).Type()) {
			continue
		}
		if rb, ok := sig.Results().At(0).Type().Underlying().(*types.Basic); !ok || rb.Kind() != types.Bool {
			continue
		}
		n++
		fd := c.P.Decl(fn)
		name := c.P.FuncName(fn)
		switch a.toleranceShape(fd) {
		case "ok":
			c.OK("C15.R3", name, fd.Pos(), "|a−b| < tol (strict, both signs of the difference bounded)")
		case "nonstrict":
			c.Bad("C15.R3", name, fd.Pos(), "the tolerance test is not strict (|a−b| ≤ tol): a vertex displaced by exactly the tolerance is accepted, and with tolerance 0 everything equal compares similar only by accident of ≤")
		case "onesided":
			c.Bad("C15.R3", name, fd.Pos(), "only one sign of the difference is bounded: a−b < tol holds for every b far above a, so Similar is not symmetric")
		default:
			c.Unk("C15.R3", name, fd.Pos(), "the tolerance test is not of the form math.Abs(a-b) < tol or (a-b < tol && b-a < tol)")
		}
	}
	if n == 0 {
		c.Unk("C15.R3", "geom#tolerance-test", token.NoPos, "no (float64, float64, float64) bool helper found")
	}
}

// toleranceShape classifies the body of a (a, b, tol) bool function.
func (a *c15) toleranceShape(fd *ast.FuncDecl) string {
	ps := paramVars(a.info, fd.Type)
	if len(ps) != 3 || ps[0] == nil || ps[1] == nil || ps[2] == nil {
		return ""
	}
	sc := newFnScope(a.info, fd.Body)
	var ret *ast.ReturnStmt
	for _, st := range fd.Body.List {
		switch x := st.(type) {
		case *ast.ReturnStmt:
			ret = x
		case *ast.AssignStmt, *ast.DeclStmt:
		default:
			return ""
		}
	}
	if ret == nil || len(ret.Results) != 1 {
		return ""
	}
	// diff(e): +1 for a-b, -1 for b-a, 0 otherwise; through single-definition locals and unary minus
	var diff func(e ast.Expr, depth int) int
	diff = func(e ast.Expr, depth int) int {
		e = unparen(e)
		if depth > 4 {
			return 0
		}
		switch x := e.(type) {
		case *ast.BinaryExpr:
			if x.Op == token.SUB {
				l, r := objOf(a.info, x.X), objOf(a.info, x.Y)
				if l == ps[0] && r == ps[1] {
					return 1
				}
				if l == ps[1] && r == ps[0] {
					return -1
				}
			}
		case *ast.UnaryExpr:
			if x.Op == token.SUB {
				return -diff(x.X, depth+1)
			}
		case *ast.Ident:
			if o := objOf(a.info, x); o != nil {
				if d := sc.singleDef(o); d != nil {
					return diff(d, depth+1)
				}
			}
		}
		return 0
	}
	// atom: (sign bounded, strict) for `D < tol`, `tol > D`, with D a difference or math.Abs(difference)
	type atom struct {
		sign   int // +1, -1, 2 = absolute value
		strict bool
	}
	parse := func(e ast.Expr) (atom, bool) {
		b, ok := unparen(e).(*ast.BinaryExpr)
		if !ok {
			return atom{}, false
		}
		l, r := b.X, b.Y
		strict := false
		switch b.Op {
		case token.LSS:
			strict = true
		case token.LEQ:
		case token.GTR:
			l, r, strict = r, l, true
		case token.GEQ:
			l, r = r, l
		default:
			return atom{}, false
		}
		if objOf(a.info, r) != ps[2] {
			return atom{}, false
		}
		if call, ok := unparen(l).(*ast.CallExpr); ok && len(call.Args) == 1 && isFuncIn(callee(a.info, call), "math", "Abs") {
			if diff(call.Args[0], 0) != 0 {
				return atom{2, strict}, true
			}
			return atom{}, false
		}
		if d := diff(l, 0); d != 0 {
			return atom{d, strict}, true
		}
		return atom{}, false
	}
	var atoms []atom
	var split func(e ast.Expr) bool
	split = func(e ast.Expr) bool {
		e = unparen(e)
		if b, ok := e.(*ast.BinaryExpr); ok && b.Op == token.LAND {
			return split(b.X) && split(b.Y)
		}
		at, ok := parse(e)
		if !ok {
			return false
		}
		atoms = append(atoms, at)
		return true
	}
	if !split(ret.Results[0]) {
		return ""
	}
	pos, neg, strict := false, false, true
	for _, at := range atoms {
		switch at.sign {
		case 2:
			pos, neg = true, true
		case 1:
			pos = true
		case -1:
			neg = true
		}
		if !at.strict {
			strict = false
		}
	}
	switch {
	case !(pos && neg):
		return "onesided"
	case !strict:
		return "nonstrict"
	}
	return "ok"
}

// isSliceOfMembers: receiver types whose Similar must check member counts.
func sliceLike(t types.Type) bool {
	_, ok := t.Underlying().(*types.Slice)
	return ok
}

type c15env struct {
	recv     *types.Var
	arg      *types.Var
	recvType types.Type
	scope    *fnScope
	// variables holding the argument asserted to the receiver type
	argAlias map[types.Object]bool
	okVars   map[types.Object]bool // `ok` of a comma-ok assertion to the receiver type
	// generic mode (helpers): two slice parameters
	pa, pb types.Object
}

func (a *c15) method(tn string, m *types.Func) {
	fd := a.c.P.Decl(m)
	name := a.c.P.FuncName(m)
	sig := m.Type().(*types.Signature)
	recvT := sig.Recv().Type()
	params := paramVars(a.info, fd.Type)
	if len(params) != 2 || params[0] == nil {
		a.c.Unk("C15.R2", name, fd.Pos(), "unexpected signature")
		return
	}
	env := &c15env{recv: receiverVar(a.info, fd), arg: params[0], recvType: recvT, scope: newFnScope(a.info, fd.Body),
		argAlias: map[types.Object]bool{}, okVars: map[types.Object]bool{}}
	// discover aliases of g.(T)
	ast.Inspect(fd.Body, func(n ast.Node) bool {
		switch n := n.(type) {
		case *ast.AssignStmt:
			if len(n.Rhs) == 1 {
				if ta, ok := unparen(n.Rhs[0]).(*ast.TypeAssertExpr); ok && ta.Type != nil && isObj(a.info, ta.X, env.arg) {
					if t := a.info.TypeOf(ta.Type); t != nil && types.Identical(t, recvT) {
						if o := objOf(a.info, n.Lhs[0]); o != nil {
							env.argAlias[o] = true
						}
						if len(n.Lhs) == 2 {
							if o := objOf(a.info, n.Lhs[1]); o != nil {
								env.okVars[o] = true
							}
						}
					}
				}
			}
		case *ast.TypeSwitchStmt:
			op, cls := typeSwitch(a.info, n)
			if op != nil && isObj(a.info, op, env.arg) {
				for _, cl := range cls {
					if cl.Bound != nil && len(cl.Types) == 1 && cl.Types[0] != nil && types.Identical(cl.Types[0], recvT) {
						env.argAlias[cl.Bound] = true
					}
				}
			}
		}
		return true
	})
	needLen := sliceLike(recvT)
	badLen, badType, trueReturns := a.walk(fd, env, needLen, true)
	if needLen {
		if len(badLen) == 0 {
			a.c.OK("C15.R1", name, fd.Pos(), "all %d possibly-true results are length-checked", trueReturns)
		} else {
			a.c.Bad("C15.R1", name, badLen[0].Pos(), "possibly-true result `%s` reached without any test that fails when the member counts of receiver and argument differ (so Similar is asymmetric: a ⊂ b gives a.Similar(b) ≠ b.Similar(a))", src(badLen[0]))
		}
	}
	if trueReturns == 0 {
		a.c.Unk("C15.R2", name, fd.Pos(), "no possibly-true result found")
	} else if len(badType) == 0 {
		a.c.OK("C15.R2", name, fd.Pos(), "possibly-true results only under argument type %s", typeName(recvT))
	} else {
		a.c.Bad("C15.R2", name, badType[0].Pos(), "possibly-true result `%s` without establishing that the argument has type %s", src(badType[0]), typeName(recvT))
	}
}

// isA / isB: does expression e denote the whole receiver / whole argument collection?
func (a *c15) isA(env *c15env, e ast.Expr) bool {
	e = env.scope.canon(e)
	if env.pa != nil {
		return objOf(a.info, e) == env.pa
	}
	return env.recv != nil && objOf(a.info, e) == env.recv
}
func (a *c15) isB(env *c15env, e ast.Expr) bool {
	e = env.scope.canon(e)
	if env.pb != nil {
		return objOf(a.info, e) == env.pb
	}
	if o := objOf(a.info, e); o != nil && env.argAlias[o] {
		return true
	}
	if ta, ok := e.(*ast.TypeAssertExpr); ok && ta.Type != nil && isObj(a.info, ta.X, env.arg) {
		if t := a.info.TypeOf(ta.Type); t != nil && types.Identical(t, env.recvType) {
			return true
		}
	}
	return false
}

// lenAtom: does (e == truth) establish len(A) == len(B)?
func (a *c15) lenAtom(env *c15env, e ast.Expr, truth bool) bool {
	b, ok := unparen(e).(*ast.BinaryExpr)
	if !ok {
		return false
	}
	if !((b.Op == token.EQL && truth) || (b.Op == token.NEQ && !truth)) {
		return false
	}
	x, y := a.lenOperand(env, b.X), a.lenOperand(env, b.Y)
	return (x == 1 && y == 2) || (x == 2 && y == 1)
}

// lenOperand: 1 if e is len(A), 2 if len(B), following single-def locals.
func (a *c15) lenOperand(env *c15env, e ast.Expr) int {
	af := env.scope.aff(e)
	if !af.ok || af.Of == nil || af.K != 0 {
		return 0
	}
	if a.isA(env, af.Of) {
		return 1
	}
	if a.isB(env, af.Of) {
		return 2
	}
	return 0
}

// impliesLen: is the boolean expression e true only when len(A)==len(B)?
func (a *c15) impliesLen(env *c15env, e ast.Expr) bool {
	e = unparen(e)
	if a.lenAtom(env, e, true) {
		return true
	}
	switch x := e.(type) {
	case *ast.BinaryExpr:
		if x.Op == token.LAND {
			return a.impliesLen(env, x.X) || a.impliesLen(env, x.Y)
		}
		if x.Op == token.LOR {
			return a.impliesLen(env, x.X) && a.impliesLen(env, x.Y)
		}
		// final emptiness test of the unmatched remainder: len(R) == 0 with R := make([]T, len(B))
		if x.Op == token.EQL {
			for _, pair := range [][2]ast.Expr{{x.X, x.Y}, {x.Y, x.X}} {
				if k, ok := constInt(a.info, pair[1]); ok && k == 0 {
					if la := lenArg(a.info, pair[0]); la != nil {
						if a.isRemainder(env, la) {
							return true
						}
					}
				}
			}
		}
	case *ast.CallExpr:
		f := callee(a.info, x)
		if f != nil && a.c.P.Decl(f) != nil && f.Type().(*types.Signature).Recv() == nil {
			// helper(A, B, ...) in either order
			ia, ib := -1, -1
			for i, arg := range x.Args {
				if a.isA(env, arg) {
					ia = i
				} else if a.isB(env, arg) {
					ib = i
				}
			}
			if ia >= 0 && ib >= 0 && a.helperChecksLen(f, ia, ib) {
				return true
			}
		}
	}
	return false
}

// isRemainder: e is a local slice created as make([]T, len(B)) (one index per
// member of B) from which matched indices are removed.
func (a *c15) isRemainder(env *c15env, e ast.Expr) bool {
	o := objOf(a.info, e)
	if o == nil {
		return false
	}
	first := true
	ok := false
	for _, d := range env.scope.defs[o] {
		if first {
			first = false
			if call, isCall := unparen(d).(*ast.CallExpr); isCall && builtinName(a.info, call) == "make" && len(call.Args) >= 2 {
				if a.lenOperand(env, call.Args[1]) == 2 {
					ok = true
				}
			}
		}
	}
	return ok
}

func (a *c15) helperChecksLen(f *types.Func, i, j int) bool {
	key := a.c.P.FuncName(f) + "#" + string(rune('0'+i)) + string(rune('0'+j))
	switch a.summary[key] {
	case 1:
		return true
	case 2, 3:
		return false
	}
	a.summary[key] = 3 // in progress
	fd := a.c.P.Decl(f)
	params := paramVars(a.info, fd.Type)
	res := false
	if i < len(params) && j < len(params) && params[i] != nil && params[j] != nil {
		env := &c15env{scope: newFnScope(a.info, fd.Body), pa: params[i], pb: params[j], argAlias: map[types.Object]bool{}, okVars: map[types.Object]bool{}}
		badLen, _, _ := a.walk(fd, env, true, false)
		res = len(badLen) == 0
	}
	if res {
		a.summary[key] = 1
	} else {
		a.summary[key] = 2
	}
	return res
}

// walk runs the path analysis; returns the possibly-true returns lacking the
// length fact / the type fact, and the number of possibly-true returns.
func (a *c15) walk(fd *ast.FuncDecl, env *c15env, needLen, needType bool) (badLen, badType []ast.Node, trueReturns int) {
	seenLen := map[ast.Node]bool{}
	seenType := map[ast.Node]bool{}
	seenTrue := map[ast.Node]bool{}
	cl := &FactsClient{}
	cl.OnBranch = func(cond ast.Expr, truth bool, s Facts) Facts {
		for _, at := range conjuncts(cond, truth) {
			if a.lenAtom(env, at.E, at.Truth) {
				s["len"] = true
			}
			if o := objOf(a.info, at.E); o != nil && env.okVars[o] && at.Truth {
				s["type"] = true
			}
		}
		return s
	}
	cl.OnTypeCase = func(sw *ast.TypeSwitchStmt, cc *ast.CaseClause, s Facts) Facts {
		op, cls := typeSwitch(a.info, sw)
		if op == nil || env.arg == nil || !isObj(a.info, op, env.arg) {
			return s
		}
		for _, c := range cls {
			if c.Clause == cc && len(c.Types) == 1 && c.Types[0] != nil && types.Identical(c.Types[0], env.recvType) {
				s["type"] = true
			}
		}
		return s
	}
	cl.OnReturn = func(r *ast.ReturnStmt, s Facts) {
		if r == nil || len(r.Results) != 1 {
			if r != nil || fd.Type.Results != nil {
				var n ast.Node = fd
				if r != nil {
					n = r
				}
				if needLen && !seenLen[n] {
					seenLen[n] = true
					badLen = append(badLen, n)
				}
			}
			return
		}
		e := r.Results[0]
		if v := constOf(a.info, e); v != nil && v.String() == "false" {
			return
		}
		if !seenTrue[r] {
			seenTrue[r] = true
			trueReturns++
		}
		if needLen && !s["len"] && !a.impliesLen(env, e) && !seenLen[r] {
			seenLen[r] = true
			badLen = append(badLen, r)
		}
		if needType && !s["type"] && !a.impliesType(env, e) && !seenType[r] {
			seenType[r] = true
			badType = append(badType, r)
		}
	}
	fl := &Flow[Facts]{C: cl, Info: a.info}
	fl.Run(fd.Body, Facts{})
	for _, u := range fl.Unsupported {
		badLen = append(badLen, u)
	}
	return
}

func (a *c15) impliesType(env *c15env, e ast.Expr) bool {
	e = unparen(e)
	if o := objOf(a.info, e); o != nil && env.okVars[o] {
		return true
	}
	if x, ok := e.(*ast.BinaryExpr); ok {
		if x.Op == token.LAND {
			return a.impliesType(env, x.X) || a.impliesType(env, x.Y)
		}
		if x.Op == token.LOR {
			return a.impliesType(env, x.X) && a.impliesType(env, x.Y)
		}
	}
	return false
}

// ---------------------------------------------------------------- R3

func isFloat64(t types.Type) bool {
	b, ok := t.Underlying().(*types.Basic)
	return ok && b.Kind() == types.Float64
}

// scalarShape: f(a, b, e float64) bool returning |a-b| < e (or <=).
func (a *c15) scalarShape(f *types.Func) bool {
	fd := a.c.P.Decl(f)
	if fd == nil || fd.Body == nil || len(fd.Body.List) != 1 {
		return false
	}
	ps := paramVars(a.info, fd.Type)
	if len(ps) != 3 {
		return false
	}
	r, ok := fd.Body.List[0].(*ast.ReturnStmt)
	if !ok || len(r.Results) != 1 {
		return false
	}
	return a.absDiffLess(r.Results[0], func(e ast.Expr) int {
		for i, p := range ps {
			if p != nil && objOf(a.info, e) == p {
				return i
			}
		}
		return -1
	})
}

// absDiffLess: e is math.Abs(x-y) < t (or <=, or t > …) with {x,y} = operands 0,1 and t operand 2.
func (a *c15) absDiffLess(e ast.Expr, which func(ast.Expr) int) bool {
	b, ok := unparen(e).(*ast.BinaryExpr)
	if !ok {
		return false
	}
	l, r := b.X, b.Y
	switch b.Op {
	case token.LSS, token.LEQ:
	case token.GTR, token.GEQ:
		l, r = r, l
	default:
		return false
	}
	if which(unparen(r)) != 2 {
		return false
	}
	call, ok := unparen(l).(*ast.CallExpr)
	if !ok || len(call.Args) != 1 || !isFuncIn(callee(a.info, call), "math", "Abs") {
		return false
	}
	d, ok := unparen(call.Args[0]).(*ast.BinaryExpr)
	if !ok || d.Op != token.SUB {
		return false
	}
	x, y := which(unparen(d.X)), which(unparen(d.Y))
	return (x == 0 && y == 1) || (x == 1 && y == 0)
}

func (a *c15) scalar() {
	// the point comparison reached from Point.Similar: a repo function (Point, Point, float64) bool
	m := a.c.P.Method("geom", "Point", "Similar")
	fd := a.c.P.Decl(m)
	if fd == nil {
		return
	}
	ptT := a.c.P.NamedType("geom", "Point")
	var ptSim *types.Func
	ast.Inspect(fd.Body, func(n ast.Node) bool {
		if call, ok := n.(*ast.CallExpr); ok {
			if f := callee(a.info, call); f != nil && a.c.P.Decl(f) != nil {
				sig := f.Type().(*types.Signature)
				if sig.Recv() == nil && sig.Params().Len() == 3 && types.Identical(sig.Params().At(0).Type(), ptT) && types.Identical(sig.Params().At(1).Type(), ptT) {
					ptSim = f
				}
			}
		}
		return true
	})
	if ptSim == nil {
		a.c.Unk("C15.R3", "geom.(Point).Similar#point-comparison", fd.Pos(), "no (Point, Point, float64) comparison helper is called; inline shape not recognised")
		return
	}
	pfd := a.c.P.Decl(ptSim)
	name := a.c.P.FuncName(ptSim)
	ps := paramVars(a.info, pfd.Type)
	okShape := false
	var why string
	if len(pfd.Body.List) == 1 {
		if r, ok := pfd.Body.List[0].(*ast.ReturnStmt); ok && len(r.Results) == 1 {
			var conj []ast.Expr
			var split func(e ast.Expr)
			split = func(e ast.Expr) {
				e = unparen(e)
				if b, ok := e.(*ast.BinaryExpr); ok && b.Op == token.LAND {
					split(b.X)
					split(b.Y)
					return
				}
				conj = append(conj, e)
			}
			split(r.Results[0])
			axes := map[string]bool{}
			bad := false
			for _, cj := range conj {
				ax := a.axisCompare(cj, ps)
				if ax == "" {
					bad = true
					why = "conjunct `" + src(cj) + "` is not a same-axis |a-b|<tol comparison of the two points"
					break
				}
				axes[ax] = true
			}
			if !bad && axes["X"] && axes["Y"] {
				okShape = true
			} else if !bad {
				why = "not both axes compared"
			}
		}
	} else {
		why = "body is not a single return"
	}
	if okShape {
		a.c.OK("C15.R3", name, pfd.Pos(), "X compared with X and Y with Y by |a-b|<tol")
	} else if why == "body is not a single return" {
		a.c.Unk("C15.R3", name, pfd.Pos(), "%s", why)
	} else {
		a.c.Bad("C15.R3", name, pfd.Pos(), "%s", why)
	}
	// list comparison helpers: functions ([]Point, []Point, float64) bool in package geom that are
	// called from MultiPoint.Similar / LineString.Similar
	for _, tn := range []string{"MultiPoint", "LineString"} {
		mm := a.c.P.Method("geom", tn, "Similar")
		mfd := a.c.P.Decl(mm)
		if mfd == nil {
			continue
		}
		var helper *types.Func
		ast.Inspect(mfd.Body, func(n ast.Node) bool {
			if call, ok := n.(*ast.CallExpr); ok {
				if f := callee(a.info, call); f != nil && a.c.P.Decl(f) != nil && f.Type().(*types.Signature).Recv() == nil && len(call.Args) == 3 {
					if _, ok := f.Type().(*types.Signature).Params().At(0).Type().Underlying().(*types.Slice); ok {
						helper = f
					}
				}
			}
			return true
		})
		if helper == nil {
			a.c.Unk("C15.R3", "geom.("+tn+").Similar#list-comparison", mfd.Pos(), "list comparison helper not found")
			continue
		}
		a.listHelper(helper, ptSim)
	}
	// ring comparison helper: ([]Point, []Point, float64) bool called from Polygon.Similar
	// (directly or inside a function literal)
	if mfd := a.c.P.Decl(a.c.P.Method("geom", "Polygon", "Similar")); mfd != nil {
		var ring *types.Func
		ast.Inspect(mfd.Body, func(n ast.Node) bool {
			if call, ok := n.(*ast.CallExpr); ok && len(call.Args) == 3 {
				if f := callee(a.info, call); f != nil && a.c.P.Decl(f) != nil && f.Type().(*types.Signature).Recv() == nil {
					sig := f.Type().(*types.Signature)
					if sl, ok := sig.Params().At(0).Type().Underlying().(*types.Slice); ok && types.Identical(sl.Elem(), ptT) && types.Identical(sig.Params().At(0).Type(), sig.Params().At(1).Type()) {
						ring = f
					}
				}
			}
			return true
		})
		if ring == nil {
			a.c.Unk("C15.R3", "geom.(Polygon).Similar#ring-comparison", mfd.Pos(), "ring comparison helper not found")
		} else {
			a.ringHelper(ring, ptSim)
		}
	}
}

// ringHelper: cyclic comparison of two rings from their anchors.  The counted
// loop must make at least len-1 steps (one per distinct vertex; the closing
// vertex repeats the first), each step comparing a[ia] with b[ib] and then
// advancing both cursors with the same successor function; no early exit
// other than `return false`.
func (a *c15) ringHelper(h, ptSim *types.Func) {
	name := a.c.P.FuncName(h)
	fd := a.c.P.Decl(h)
	ps := paramVars(a.info, fd.Type)
	sc := newFnScope(a.info, fd.Body)
	if len(ps) < 2 || ps[0] == nil || ps[1] == nil {
		a.c.Unk("C15.R3", name, fd.Pos(), "unnamed ring parameters")
		return
	}
	var found bool
	var bad string
	for _, st := range fd.Body.List {
		l := sc.loopOf(st)
		if l == nil {
			continue
		}
		// the loop that calls the point comparison
		var cmp *ast.CallExpr
		ast.Inspect(l.Body, func(n ast.Node) bool {
			if call, ok := n.(*ast.CallExpr); ok && callee(a.info, call) == ptSim && len(call.Args) == 3 {
				cmp = call
			}
			return true
		})
		if cmp == nil {
			continue
		}
		found = true
		if l.Lo.Of != nil || l.Hi.Of == nil || !(objOf(a.info, l.Hi.Of) == ps[0] || objOf(a.info, l.Hi.Of) == ps[1]) {
			a.c.Unk("C15.R3", name, st.Pos(), "ring loop bounds %s are not of the form [c, len(ring)+k)", l.String())
			return
		}
		if steps := l.Hi.K - l.Lo.K; steps < -1 {
			bad = fmt.Sprintf("the ring loop %s makes len%+d steps but a closed ring of len points has len-1 distinct vertices: %d of them are never compared, so a ring differing only there is reported similar", l.String(), steps, -1-steps)
		}
		brk, cont, _ := earlyExits(l.Body)
		if len(brk)+len(cont) > 0 {
			bad = "ring loop has break/continue: vertices after it are not compared"
		}
		// cursors
		var cur [2]types.Object
		for k := 0; k < 2; k++ {
			if ix, ok := unparen(cmp.Args[k]).(*ast.IndexExpr); ok && objOf(a.info, ix.X) == ps[k] {
				cur[k] = objOf(a.info, ix.Index)
			}
		}
		if cur[0] == nil || cur[1] == nil || cur[0] == cur[1] {
			if l.Idx != nil && cur[0] == cur[1] && cur[0] == l.Idx {
				bad = "rings are compared position by position: rotating the start vertex of a closed ring is not ignored"
			} else {
				a.c.Unk("C15.R3", name, cmp.Pos(), "comparison `%s` is not of the form pointCompare(a[ia], b[ib], tol) with two cursors", src(cmp))
				return
			}
		} else {
			var adv [2]*types.Func
			for _, bs := range l.Body.List {
				as, ok := bs.(*ast.AssignStmt)
				if !ok || len(as.Lhs) != 1 || len(as.Rhs) != 1 {
					continue
				}
				for k := 0; k < 2; k++ {
					if objOf(a.info, as.Lhs[0]) == cur[k] {
						if call, ok := unparen(as.Rhs[0]).(*ast.CallExpr); ok && len(call.Args) >= 1 && objOf(a.info, call.Args[0]) == cur[k] {
							adv[k] = callee(a.info, call)
						}
					}
				}
			}
			if adv[0] == nil || adv[1] == nil || adv[0] != adv[1] {
				bad = "the two ring cursors are not both advanced by the same successor function on every step"
			}
			// anchors: each cursor starts at a position computed from its own ring alone, by the same
			// function for both rings (the comparison is then symmetric and independent of the start vertex)
			var anc [2]*types.Func
			for k := 0; k < 2; k++ {
				ds := sc.defs[cur[k]]
				var init ast.Expr
				for _, d := range ds {
					if d != nil && !(l.Body.Pos() <= d.Pos() && d.End() <= l.Body.End()) {
						init = d
					}
				}
				call, ok := unparen(init).(*ast.CallExpr)
				if init == nil || !ok {
					continue
				}
				own := true
				for _, arg := range call.Args {
					ast.Inspect(arg, func(n ast.Node) bool {
						if id, ok := n.(*ast.Ident); ok {
							if o := objOf(a.info, id); o != nil && o == ps[1-k] {
								own = false
							}
						}
						return true
					})
				}
				if !own {
					bad = "the start position of the cursor over `" + ps[k].Name() + "` is computed from the other ring (`" + src(init) + "`): the two rings are not treated alike, so a.Similar(b) and b.Similar(a) can differ and a rotated copy of a ring with a repeated vertex is not recognised"
				}
				anc[k] = callee(a.info, call)
			}
			if bad == "" && (anc[0] == nil || anc[1] == nil || anc[0] != anc[1]) {
				bad = "the two ring cursors do not start at anchors computed by one function of each ring"
			}
		}
	}
	switch {
	case !found:
		a.c.Unk("C15.R3", name, fd.Pos(), "ring comparison loop not recognised")
	case bad != "":
		a.c.Bad("C15.R3", name, fd.Pos(), "%s", bad)
	default:
		a.c.OK("C15.R3", name, fd.Pos(), "cyclic comparison from the anchors: at least len-1 steps, both cursors advanced by the same successor, no early exit")
	}
}

// axisCompare returns "X"/"Y" if e compares p1.F with p2.F (same F) by |a-b|<tol.
func (a *c15) axisCompare(e ast.Expr, ps []*types.Var) string {
	if len(ps) != 3 {
		return ""
	}
	axis := ""
	which := func(x ast.Expr) int {
		if objOf(a.info, x) == ps[2] && ps[2] != nil {
			return 2
		}
		if sel, ok := x.(*ast.SelectorExpr); ok {
			for i := 0; i < 2; i++ {
				if ps[i] != nil && objOf(a.info, sel.X) == ps[i] {
					if axis == "" {
						axis = sel.Sel.Name
					} else if axis != sel.Sel.Name {
						axis = "!"
					}
					return i
				}
			}
		}
		return -1
	}
	if call, ok := unparen(e).(*ast.CallExpr); ok && len(call.Args) == 3 {
		f := callee(a.info, call)
		if f != nil && a.c.P.Decl(f) != nil && a.scalarShape(f) {
			x, y, t := which(unparen(call.Args[0])), which(unparen(call.Args[1])), which(unparen(call.Args[2]))
			if ((x == 0 && y == 1) || (x == 1 && y == 0)) && t == 2 && axis != "!" {
				return axis
			}
			return ""
		}
	}
	if a.absDiffLess(e, which) && axis != "!" {
		return axis
	}
	return ""
}

var c15listDone = map[*types.Func]bool{}

// listHelper: ([]Point, []Point, e) — element-wise, full range, identity index.
func (a *c15) listHelper(h, ptSim *types.Func) {
	name := a.c.P.FuncName(h)
	if _, done := a.c.byKey[a.c.Prop+"|C15.R3|"+name]; done {
		return
	}
	fd := a.c.P.Decl(h)
	ps := paramVars(a.info, fd.Type)
	sc := newFnScope(a.info, fd.Body)
	found := false
	var bad string
	for _, st := range fd.Body.List {
		l := sc.loopOf(st)
		if l == nil {
			continue
		}
		// must be full range over param 0 or 1
		if !(sc.fullRange(l, &ast.Ident{Name: "_"}) || (ps[0] != nil && l.Hi.Of != nil && (objOf(a.info, l.Hi.Of) == ps[0] || objOf(a.info, l.Hi.Of) == ps[1]) && l.Hi.K == 0 && l.Lo.Of == nil && l.Lo.K == 0)) {
			bad = "loop " + l.String() + " does not cover every element"
			continue
		}
		// body: if !ptSim(p1s[i], p2s[i], e) { return false }
		ast.Inspect(l.Body, func(n ast.Node) bool {
			call, ok := n.(*ast.CallExpr)
			if !ok || callee(a.info, call) != ptSim || len(call.Args) != 3 {
				return true
			}
			okArgs := 0
			for k := 0; k < 2; k++ {
				arg := unparen(call.Args[k])
				if ix, ok := arg.(*ast.IndexExpr); ok {
					if off, ok := sc.idxOffset(ix.Index, l.Idx); ok && off == 0 && (objOf(a.info, ix.X) == ps[0] || objOf(a.info, ix.X) == ps[1]) {
						okArgs++
					}
				} else if l.Val != nil && objOf(a.info, arg) == l.Val {
					okArgs++
				}
			}
			if okArgs == 2 && objOf(a.info, unparen(call.Args[0])) != objOf(a.info, unparen(call.Args[1])) || okArgs == 2 {
				found = true
			} else {
				bad = "comparison `" + src(call) + "` does not pair element i with element i"
			}
			return true
		})
		brk, cont, _ := earlyExits(l.Body)
		if len(brk)+len(cont) > 0 {
			bad = "loop has break/continue"
		}
	}
	if found && bad == "" {
		a.c.OK("C15.R3", name, fd.Pos(), "element-wise over the full range")
	} else if bad != "" {
		a.c.Bad("C15.R3", name, fd.Pos(), "%s", bad)
	} else {
		a.c.Unk("C15.R3", name, fd.Pos(), "element-wise comparison loop not recognised")
	}
}
