package main

// C15 — Similar is a symmetric tolerance comparison.
//
// R1  every possibly-true result of a collection Similar (and of the helpers it
//     returns through) has passed a test that fails when member counts differ.
//     Witness when broken: a = 1 member, b = that member + another; a.Similar(b)
//     matches everything it looks at (true) while b.Similar(a) fails (false).
// R2  a possibly-true result is only produced after the argument was found to
//     have the receiver's own dynamic type.
// R3  the scalar comparison is |a-b| < tol on the same axis of both points and
//     equal-length lists are compared element-wise over the full range.

import (
	"go/ast"
	"go/token"
	"go/types"
)

func init() { register("C15", false, checkC15) }

var geomTypes = []string{"Point", "MultiPoint", "LineString", "MultiLineString", "Polygon", "MultiPolygon", "GeometryCollection", "Bounds"}

type c15 struct {
	c       *Ctx
	info    *types.Info
	summary map[string]int // helper summaries: 0 unknown/in progress, 1 length-checking, 2 not
}

func checkC15(c *Ctx) {
	c.Rule("C15.R1", "Similar, evaluated in both directions on model pairs for each of the eight types: true for a perturbed copy, also with members reordered and closed rings rotated; false when a vertex is displaced, a member or vertex is added or removed, a line is reversed, or a duplicated member stands against a different one; and always symmetric")
	c.Rule("C15.R2", "Similar is false for every ordered pair of different geometry types (model evaluation)")
	c.Rule("C15.R3", "the scalar tolerance test is |a−b| < tol: strict, and bounding both signs of the difference")
	pk := c.P.Pkg("geom")
	a := &c15{c: c, info: pk.TypesInfo, summary: map[string]int{}}
	c15model(c, "C15.R1", "C15.R2", "C15.R3")
	a.scalarOnly()
	c.Floor("C15.R1", 8)
	c.Floor("C15.R2", 1)
	c.Floor("C15.R3", 1)
}

// scalarOnly: the arithmetic of the tolerance test itself (the model gives it its meaning and
// cannot judge it): |a−b| < tol, written with math.Abs or as the conjunction of the two
// one-sided tests.
func (a *c15) scalarOnly() {
	c := a.c
	pk := c.P.Pkg("geom")
	n := 0
	for _, fn := range c.P.RepoFuncs() {
		if c.P.DeclPkg(fn) != pk {
			continue
		}
		sig := fn.Type().(*types.Signature)
		if sig.Recv() != nil || sig.Params().Len() != 3 || sig.Results().Len() != 1 {
			continue
		}
		if !isFloat64(sig.Params().At(0).Type()) || !isFloat64(sig.Params().At(1).Type()) || !isFloat64(sig.Params().At(2).Type()) {
			continue
		}
		if rb, ok := sig.Results().At(0).Type().Underlying().(*types.Basic); !ok || rb.Kind() != types.Bool {
			continue
		}
		n++
		fd := c.P.Decl(fn)
		name := c.P.FuncName(fn)
		switch a.toleranceShape(fd) {
		case "ok":
			c.OK("C15.R3", name, fd.Pos(), "|a−b| < tol (strict, both signs of the difference bounded)")
		case "nonstrict":
			c.Bad("C15.R3", name, fd.Pos(), "the tolerance test is not strict (|a−b| ≤ tol): a vertex displaced by exactly the tolerance is accepted, and with tolerance 0 everything equal compares similar only by accident of ≤")
		case "onesided":
			c.Bad("C15.R3", name, fd.Pos(), "only one sign of the difference is bounded: a−b < tol holds for every b far above a, so Similar is not symmetric")
		default:
			c.Unk("C15.R3", name, fd.Pos(), "the tolerance test is not of the form math.Abs(a-b) < tol or (a-b < tol && b-a < tol)")
		}
	}
	if n == 0 {
		c.Unk("C15.R3", "geom#tolerance-test", token.NoPos, "no (float64, float64, float64) bool helper found")
	}
}

// toleranceShape classifies the body of a (a, b, tol) bool function.
func (a *c15) toleranceShape(fd *ast.FuncDecl) string {
	ps := paramVars(a.info, fd.Type)
	if len(ps) != 3 || ps[0] == nil || ps[1] == nil || ps[2] == nil {
		return ""
	}
	sc := newFnScope(a.info, fd.Body)
	var ret *ast.ReturnStmt
	for _, st := range fd.Body.List {
		switch x := st.(type) {
		case *ast.ReturnStmt:
			ret = x
		case *ast.AssignStmt, *ast.DeclStmt:
		default:
			return ""
		}
	}
	if ret == nil || len(ret.Results) != 1 {
		return ""
	}
	// diff(e): +1 for a-b, -1 for b-a, 0 otherwise; through single-definition locals and unary minus
	var diff func(e ast.Expr, depth int) int
	diff = func(e ast.Expr, depth int) int {
		e = unparen(e)
		if depth > 4 {
			return 0
		}
		switch x := e.(type) {
		case *ast.BinaryExpr:
			if x.Op == token.SUB {
				l, r := objOf(a.info, x.X), objOf(a.info, x.Y)
				if l == ps[0] && r == ps[1] {
					return 1
				}
				if l == ps[1] && r == ps[0] {
					return -1
				}
			}
		case *ast.UnaryExpr:
			if x.Op == token.SUB {
				return -diff(x.X, depth+1)
			}
		case *ast.Ident:
			if o := objOf(a.info, x); o != nil {
				if d := sc.singleDef(o); d != nil {
					return diff(d, depth+1)
				}
			}
		}
		return 0
	}
	// atom: (sign bounded, strict) for `D < tol`, `tol > D`, with D a difference or math.Abs(difference)
	type atom struct {
		sign   int // +1, -1, 2 = absolute value
		strict bool
	}
	parse := func(e ast.Expr) (atom, bool) {
		b, ok := unparen(e).(*ast.BinaryExpr)
		if !ok {
			return atom{}, false
		}
		l, r := b.X, b.Y
		strict := false
		switch b.Op {
		case token.LSS:
			strict = true
		case token.LEQ:
		case token.GTR:
			l, r, strict = r, l, true
		case token.GEQ:
			l, r = r, l
		default:
			return atom{}, false
		}
		if objOf(a.info, r) != ps[2] {
			return atom{}, false
		}
		if call, ok := unparen(l).(*ast.CallExpr); ok && len(call.Args) == 1 && isFuncIn(callee(a.info, call), "math", "Abs") {
			if diff(call.Args[0], 0) != 0 {
				return atom{2, strict}, true
			}
			return atom{}, false
		}
		if d := diff(l, 0); d != 0 {
			return atom{d, strict}, true
		}
		return atom{}, false
	}
	var atoms []atom
	var split func(e ast.Expr) bool
	split = func(e ast.Expr) bool {
		e = unparen(e)
		if b, ok := e.(*ast.BinaryExpr); ok && b.Op == token.LAND {
			return split(b.X) && split(b.Y)
		}
		at, ok := parse(e)
		if !ok {
			return false
		}
		atoms = append(atoms, at)
		return true
	}
	if !split(ret.Results[0]) {
		return ""
	}
	pos, neg, strict := false, false, true
	for _, at := range atoms {
		switch at.sign {
		case 2:
			pos, neg = true, true
		case 1:
			pos = true
		case -1:
			neg = true
		}
		if !at.strict {
			strict = false
		}
	}
	switch {
	case !(pos && neg):
		return "onesided"
	case !strict:
		return "nonstrict"
	}
	return "ok"
}

type c15env struct {
	recv     *types.Var
	arg      *types.Var
	recvType types.Type
	scope    *fnScope
	// variables holding the argument asserted to the receiver type
	argAlias map[types.Object]bool
	okVars   map[types.Object]bool // `ok` of a comma-ok assertion to the receiver type
	// generic mode (helpers): two slice parameters
	pa, pb types.Object
}

// ---------------------------------------------------------------- R3

func isFloat64(t types.Type) bool {
	b, ok := t.Underlying().(*types.Basic)
	return ok && b.Kind() == types.Float64
}

var c15listDone = map[*types.Func]bool{}
