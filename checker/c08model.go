package main

// C08.R6: angle-normalising helpers.
//
// Every projection closure brings a longitude difference back into (−π, π] through a small
// helper (and latitudes into (−π/2, π/2) through its sibling).  The helpers are found by
// behaviour, not by name: a package-level func(float64) float64 of package proj that the
// projection constructors reach, is the identity at small arguments and not the identity further
// out.  Each is interpreted with a symbolic argument whose reference value is placed inside the
// principal interval and up to one period outside it on either side; the result, evaluated at
// that value, must be the argument plus a whole number of periods and lie within half a period
// of zero.  (A position near the antimeridian with the central meridian on the other side is
// inside the usable region of C08.)

import (
	"fmt"
	"go/ast"
	"go/types"
	"math"
)

func c08wrap(c *Ctx) {
	p := c.P.Pkg("proj")
	if p == nil {
		return
	}
	reg := projRegistry(c)
	reach := map[*types.Func]bool{}
	var visit func(f *types.Func)
	visit = func(f *types.Func) {
		if f == nil || reach[f] || c.P.Decl(f) == nil {
			return
		}
		reach[f] = true
		ast.Inspect(c.P.Decl(f).Body, func(n ast.Node) bool {
			switch x := n.(type) {
			case *ast.CallExpr:
				visit(callee(p.TypesInfo, x))
			case *ast.Ident:
				// a function or method mentioned as a value (a method value handed out as the
				// transformer, a helper stored in a table)
				if g, ok := p.TypesInfo.Uses[x].(*types.Func); ok {
					visit(g)
				}
			}
			return true
		})
	}
	for _, ctor := range reg.ctors {
		visit(ctor)
	}
	m := newClipModel(c)
	it := m.it
	it.symbolic = true
	it.maxDepth = 48
	found := 0
	for _, f := range c.P.RepoFuncs() {
		if c.P.DeclPkg(f) != p || !reach[f] {
			continue
		}
		sig := f.Type().(*types.Signature)
		if sig.Recv() != nil || sig.Params().Len() != 1 || sig.Results().Len() != 1 || !isFloat64(sig.Params().At(0).Type()) || !isFloat64(sig.Results().At(0).Type()) {
			continue
		}
		eval := func(x float64) (float64, string) {
			it.valuation = map[string]float64{"p1": x}
			symResetEval()
			c.Evals(1)
			res, why := it.Call(f, nil, []oval{oSym{polyVar("p1")}}, 0)
			if why != "" {
				return 0, why
			}
			q, ok := symOf(res[0])
			if !ok {
				return 0, "result " + showVal(res[0])
			}
			v, ok := symEval(q, it.valuation)
			if !ok {
				return 0, "result " + showVal(res[0]) + " has no value"
			}
			return v, ""
		}
		// identity near zero?
		small := []float64{0.3, -0.7, 1.1}
		isIdentityNearZero := true
		unk := ""
		for _, x := range small {
			v, why := eval(x)
			if why != "" {
				unk = why
				break
			}
			if math.Abs(v-x) > 1e-12 {
				isIdentityNearZero = false
			}
		}
		if unk != "" || !isIdentityNearZero {
			continue // some other scalar function
		}
		// where does it stop being the identity?  period 2π (longitudes) or π (latitudes)
		var period float64
		for _, cand := range []struct{ probe, period float64 }{{2.0, math.Pi}, {4.0, 2 * math.Pi}} {
			v, why := eval(cand.probe)
			if why == "" && math.Abs(v-cand.probe) > 1e-9 {
				period = cand.period
				break
			}
		}
		if period == 0 {
			continue // the identity as far as one turn: not a normaliser
		}
		found++
		name, pos := c.P.FuncName(f)+"#wrap", c.P.Decl(f).Pos()
		half := period / 2
		bad := ""
		for _, side := range []float64{1, -1} {
			for _, off := range []float64{0.01, 0.35, half, period - 0.01} {
				x := side * (half + off)
				v, why := eval(x)
				if why != "" {
					unk = why
					break
				}
				k := (v - x) / period
				if math.Abs(k-math.Round(k)) > 1e-9 || math.Abs(v) > half+1e-9 {
					bad = fmt.Sprintf("for the argument %.4f (%.2f° %s the principal interval) it returns %.4f: not the same angle brought within ±%.4f", x, off*180/math.Pi, map[float64]string{1: "above", -1: "below"}[side], v, half)
					break
				}
			}
			if bad != "" || unk != "" {
				break
			}
		}
		switch {
		case bad != "":
			c.Bad("C08.R6", name, pos, "an angle-normalising helper reached from the projection closures: %s — a position on the far side of the antimeridian from the central meridian is projected with an angle a whole turn off", bad)
		case unk != "":
			c.Unk("C08.R6", name, pos, "not interpretable: %s", unk)
		default:
			c.OK("C08.R6", name, pos, "the identity inside ±%.4f; up to one period outside on either side it returns the same angle within ±%.4f", half, half)
		}
	}
	if found == 0 {
		c.Unk("C08.R6", "proj#angle-normaliser", 0, "no angle-normalising helper (identity near zero, wrapping further out) is reached from the projection constructors: longitude differences are brought into range some other way")
	}
}
