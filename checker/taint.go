package main

// E5 (part): input-derived values and their boundedness, on SSA form.
//
// Source: any value stored by encoding/binary.Read through its pointer argument
// (data read from the input), and results of repo functions that return such
// values.  Sink operands (make lengths/capacities) must be *bounded*: constant,
// not input-derived, clamped by a dominating comparison against a bounded
// quantity, or the result of a helper all of whose returns are bounded.

import (
	"golang.org/x/tools/go/ssa"
)

type taintAn struct {
	p *Prog
	// allocs written by binary.Read, per function
	inputAllocs map[*ssa.Function]map[ssa.Value]bool
	retInput    map[*ssa.Function][]bool // result i is input-derived
	retBounded  map[*ssa.Function][]int8 // 0 unknown/in progress, 1 bounded, 2 not
	tainted     map[ssa.Value]bool
	done        map[*ssa.Function]bool
	funcs       []*ssa.Function
}

// rootAddr strips FieldAddr/IndexAddr to the underlying allocation or pointer.
func rootAddr(v ssa.Value) ssa.Value {
	for {
		switch x := v.(type) {
		case *ssa.FieldAddr:
			v = x.X
		case *ssa.IndexAddr:
			v = x.X
		case *ssa.ChangeType:
			v = x.X
		case *ssa.Convert:
			v = x.X
		case *ssa.Slice:
			v = x.X
		default:
			return v
		}
	}
}
