package main

// E5 (part): input-derived values and their boundedness, on SSA form.
//
// Source: any value stored by encoding/binary.Read through its pointer argument
// (data read from the input), and results of repo functions that return such
// values.  Sink operands (make lengths/capacities) must be *bounded*: constant,
// not input-derived, clamped by a dominating comparison against a bounded
// quantity, or the result of a helper all of whose returns are bounded.

import (
	"go/token"
	"go/types"

	"golang.org/x/tools/go/ssa"
)

type taintAn struct {
	p *Prog
	// allocs written by binary.Read, per function
	inputAllocs map[*ssa.Function]map[ssa.Value]bool
	retInput    map[*ssa.Function][]bool // result i is input-derived
	retBounded  map[*ssa.Function][]int8 // 0 unknown/in progress, 1 bounded, 2 not
	tainted     map[ssa.Value]bool
	done        map[*ssa.Function]bool
	funcs       []*ssa.Function
}

func isBinaryRead(c *ssa.CallCommon) bool {
	f := c.StaticCallee()
	return f != nil && f.Pkg != nil && f.Pkg.Pkg.Path() == "encoding/binary" && f.Name() == "Read"
}

func newTaint(p *Prog, funcs []*ssa.Function) *taintAn {
	t := &taintAn{p: p, inputAllocs: map[*ssa.Function]map[ssa.Value]bool{}, retInput: map[*ssa.Function][]bool{},
		retBounded: map[*ssa.Function][]int8{}, tainted: map[ssa.Value]bool{}, done: map[*ssa.Function]bool{}, funcs: funcs}
	for _, f := range funcs {
		t.inputAllocs[f] = map[ssa.Value]bool{}
		for _, b := range f.Blocks {
			for _, in := range b.Instrs {
				call, ok := in.(ssa.CallInstruction)
				if !ok || !isBinaryRead(call.Common()) || len(call.Common().Args) < 3 {
					continue
				}
				arg := call.Common().Args[2]
				if mi, ok := arg.(*ssa.MakeInterface); ok {
					arg = mi.X
				}
				t.inputAllocs[f][rootAddr(arg)] = true
			}
		}
	}
	// fixpoint over result summaries
	for changed := true; changed; {
		changed = false
		t.tainted = map[ssa.Value]bool{}
		for _, f := range funcs {
			t.propagate(f)
			n := 0
			if f.Signature.Results() != nil {
				n = f.Signature.Results().Len()
			}
			cur := make([]bool, n)
			for _, b := range f.Blocks {
				for _, in := range b.Instrs {
					if r, ok := in.(*ssa.Return); ok {
						for i, v := range r.Results {
							if i < n && t.tainted[v] {
								cur[i] = true
							}
						}
					}
				}
			}
			old := t.retInput[f]
			for i := range cur {
				if i >= len(old) || old[i] != cur[i] {
					changed = true
				}
			}
			t.retInput[f] = cur
		}
	}
	return t
}

// rootAddr strips FieldAddr/IndexAddr to the underlying allocation or pointer.
func rootAddr(v ssa.Value) ssa.Value {
	for {
		switch x := v.(type) {
		case *ssa.FieldAddr:
			v = x.X
		case *ssa.IndexAddr:
			v = x.X
		case *ssa.ChangeType:
			v = x.X
		case *ssa.Convert:
			v = x.X
		case *ssa.Slice:
			v = x.X
		default:
			return v
		}
	}
}

// propagate marks input-derived values in f (forward, to a fixpoint).
func (t *taintAn) propagate(f *ssa.Function) {
	allocs := t.inputAllocs[f]
	for changed := true; changed; {
		changed = false
		mark := func(v ssa.Value) {
			if !t.tainted[v] {
				t.tainted[v] = true
				changed = true
			}
		}
		for _, b := range f.Blocks {
			for _, in := range b.Instrs {
				v, ok := in.(ssa.Value)
				if !ok {
					continue
				}
				switch x := in.(type) {
				case *ssa.UnOp:
					if x.Op == token.MUL {
						if allocs[rootAddr(x.X)] {
							mark(v)
						}
					} else if t.tainted[x.X] {
						mark(v)
					}
				case *ssa.Convert:
					if t.tainted[x.X] {
						mark(v)
					}
				case *ssa.ChangeType:
					if t.tainted[x.X] {
						mark(v)
					}
				case *ssa.BinOp:
					if t.tainted[x.X] || t.tainted[x.Y] {
						mark(v)
					}
				case *ssa.Phi:
					for _, e := range x.Edges {
						if t.tainted[e] {
							mark(v)
						}
					}
				case *ssa.Extract:
					if call, ok := x.Tuple.(*ssa.Call); ok {
						if g := call.Call.StaticCallee(); g != nil {
							if ri := t.retInput[g]; x.Index < len(ri) && ri[x.Index] {
								mark(v)
							}
							if t.resultFromTaintedArg(call, g) {
								mark(v)
							}
						}
					}
				case *ssa.Call:
					if g := x.Call.StaticCallee(); g != nil {
						if ri := t.retInput[g]; len(ri) == 1 && ri[0] {
							mark(v)
						}
						if t.resultFromTaintedArg(x, g) {
							mark(v)
						}
					} else if bi, ok := x.Call.Value.(*ssa.Builtin); ok && (bi.Name() == "min" || bi.Name() == "max") {
						for _, a := range x.Call.Args {
							if t.tainted[a] {
								mark(v)
							}
						}
					}
				}
			}
		}
	}
}

// resultFromTaintedArg: a numeric result of a repo helper called with an
// input-derived numeric argument is treated as input-derived.
func (t *taintAn) resultFromTaintedArg(call *ssa.Call, g *ssa.Function) bool {
	if g.Pkg == nil || !t.p.IsRepoPkg(g.Pkg.Pkg) {
		return false
	}
	for _, a := range call.Call.Args {
		if t.tainted[a] {
			if b, ok := a.Type().Underlying().(*types.Basic); ok && b.Info()&types.IsInteger != 0 {
				return true
			}
		}
	}
	return false
}

func stripConv(v ssa.Value) ssa.Value {
	for {
		switch x := v.(type) {
		case *ssa.Convert:
			v = x.X
		case *ssa.ChangeType:
			v = x.X
		default:
			return v
		}
	}
}

// sameValue: identical SSA value, or two loads of the same allocation (go/ssa
// performs no CSE; the allocation is written once, by binary.Read, before any load).
func sameValue(a, b ssa.Value) bool {
	a, b = stripConv(a), stripConv(b)
	if a == b {
		return true
	}
	la, ok1 := a.(*ssa.UnOp)
	lb, ok2 := b.(*ssa.UnOp)
	if ok1 && ok2 && la.Op == token.MUL && lb.Op == token.MUL {
		if al, ok := la.X.(*ssa.Alloc); ok && la.X == lb.X {
			return singleWriter(al)
		}
	}
	return false
}

// singleWriter: the alloc is stored to at most once (or only by one call receiving its address).
func singleWriter(al *ssa.Alloc) bool {
	writes := 0
	for _, r := range *al.Referrers() {
		switch x := r.(type) {
		case *ssa.Store:
			if x.Addr == al {
				writes++
			}
		case *ssa.MakeInterface:
			writes++
		case *ssa.Call:
			writes++
		}
	}
	return writes <= 1
}

// bounded: is v bounded at the point where it is used in block at?
func (t *taintAn) bounded(v ssa.Value, at *ssa.BasicBlock, paramsTainted bool, depth int) bool {
	if depth > 12 {
		return false
	}
	if !paramsTainted && !t.tainted[v] {
		return true
	}
	switch x := v.(type) {
	case *ssa.Const:
		return true
	case *ssa.Convert:
		return t.bounded(x.X, at, paramsTainted, depth+1)
	case *ssa.ChangeType:
		return t.bounded(x.X, at, paramsTainted, depth+1)
	case *ssa.Phi:
		for i, e := range x.Edges {
			pred := x.Block().Preds[i]
			if t.bounded(e, pred, paramsTainted, depth+1) || t.edgeGuarded(e, pred, x.Block(), paramsTainted, depth+1) {
				continue
			}
			return false
		}
		return true
	case *ssa.BinOp:
		switch x.Op {
		case token.REM, token.AND:
			if t.bounded(x.Y, at, paramsTainted, depth+1) {
				return true
			}
		case token.QUO, token.SHR, token.SUB:
			// no larger than the left operand (unsigned / non-negative right)
			return t.bounded(x.X, at, paramsTainted, depth+1)
		}
		return t.bounded(x.X, at, paramsTainted, depth+1) && t.bounded(x.Y, at, paramsTainted, depth+1)
	case *ssa.Call:
		if bi, ok := x.Call.Value.(*ssa.Builtin); ok {
			switch bi.Name() {
			case "len", "cap":
				return true // size of data that already exists
			case "min":
				for _, a := range x.Call.Args {
					if t.bounded(a, at, paramsTainted, depth+1) {
						return true
					}
				}
				return false
			}
		}
		if g := x.Call.StaticCallee(); g != nil && g.Pkg != nil && t.p.IsRepoPkg(g.Pkg.Pkg) {
			return t.resultBounded(g, 0)
		}
	case *ssa.Extract:
		if call, ok := x.Tuple.(*ssa.Call); ok {
			if g := call.Call.StaticCallee(); g != nil && g.Pkg != nil && t.p.IsRepoPkg(g.Pkg.Pkg) {
				return t.resultBounded(g, x.Index)
			}
		}
	}
	isLeafTaint := t.tainted[v]
	if _, isParam := v.(*ssa.Parameter); isParam && paramsTainted {
		isLeafTaint = true
	}
	if !isLeafTaint {
		return true
	}
	return t.guarded(v, at, paramsTainted, depth)
}

// guarded: a dominating comparison bounds v from above on the way to block at.
func (t *taintAn) guarded(v ssa.Value, at *ssa.BasicBlock, paramsTainted bool, depth int) bool {
	if at == nil {
		return false
	}
	f := at.Parent()
	for _, d := range f.Blocks {
		if len(d.Instrs) == 0 {
			continue
		}
		ifi, ok := d.Instrs[len(d.Instrs)-1].(*ssa.If)
		if !ok {
			continue
		}
		cmp, ok := ifi.Cond.(*ssa.BinOp)
		if !ok {
			continue
		}
		for side := 0; side < 2; side++ {
			a, b := cmp.X, cmp.Y
			op := cmp.Op
			if side == 1 {
				a, b = b, a
				switch op {
				case token.LSS:
					op = token.GTR
				case token.GTR:
					op = token.LSS
				case token.LEQ:
					op = token.GEQ
				case token.GEQ:
					op = token.LEQ
				}
			}
			if !sameValue(a, v) {
				continue
			}
			if !t.bounded(b, d, paramsTainted, depth+1) {
				continue
			}
			// which successor implies a <= b (or a < b, a == b)?
			var safe []int
			switch op {
			case token.LSS, token.LEQ, token.EQL:
				safe = []int{0}
			case token.GTR, token.GEQ, token.NEQ:
				safe = []int{1}
			}
			for _, si := range safe {
				s := d.Succs[si]
				if len(s.Preds) == 1 && s.Dominates(at) {
					return true
				}
			}
		}
	}
	return false
}

// edgeGuarded: the control-flow edge pred→succ is itself the safe outcome of a
// comparison bounding v (an if without else: the false edge goes straight to the merge block).
func (t *taintAn) edgeGuarded(v ssa.Value, pred, succ *ssa.BasicBlock, paramsTainted bool, depth int) bool {
	if len(pred.Instrs) == 0 {
		return false
	}
	ifi, ok := pred.Instrs[len(pred.Instrs)-1].(*ssa.If)
	if !ok {
		return false
	}
	cmp, ok := ifi.Cond.(*ssa.BinOp)
	if !ok {
		return false
	}
	for side := 0; side < 2; side++ {
		a, b := cmp.X, cmp.Y
		op := cmp.Op
		if side == 1 {
			a, b = b, a
			switch op {
			case token.LSS:
				op = token.GTR
			case token.GTR:
				op = token.LSS
			case token.LEQ:
				op = token.GEQ
			case token.GEQ:
				op = token.LEQ
			}
		}
		if !sameValue(a, v) || !t.bounded(b, pred, paramsTainted, depth+1) {
			continue
		}
		safe := -1
		switch op {
		case token.LSS, token.LEQ, token.EQL:
			safe = 0
		case token.GTR, token.GEQ, token.NEQ:
			safe = 1
		}
		if safe >= 0 && pred.Succs[safe] == succ && pred.Succs[1-safe] != succ {
			return true
		}
	}
	return false
}

// resultBounded: every return of g yields a bounded value for result i,
// treating g's parameters as unbounded input.
func (t *taintAn) resultBounded(g *ssa.Function, i int) bool {
	rb := t.retBounded[g]
	if rb == nil {
		n := 0
		if g.Signature.Results() != nil {
			n = g.Signature.Results().Len()
		}
		rb = make([]int8, n)
		t.retBounded[g] = rb
	}
	if i >= len(rb) {
		return false
	}
	switch rb[i] {
	case 1:
		return true
	case 2, 3:
		return false
	}
	rb[i] = 3 // in progress
	ok := len(g.Blocks) > 0
	for _, b := range g.Blocks {
		for _, in := range b.Instrs {
			if r, isRet := in.(*ssa.Return); isRet && i < len(r.Results) {
				if !t.bounded(r.Results[i], b, true, 0) {
					ok = false
				}
			}
		}
	}
	if ok {
		rb[i] = 1
	} else {
		rb[i] = 2
	}
	return ok
}
