package main

// Model evaluation of the GeoJSON codec (C06.R1–R4; and, for C07, "FromGeoJSON never panics").
//
// Encoder: ToGeoJSON is interpreted on small geometries of the six types (members of 0–3
// vertices, empty members in later positions); the object it builds must carry the RFC 7946
// type name and a coordinates value nested exactly as the type requires, every position the
// two-element array [x, y] of its vertex, in order, and no member array nil (a nil slice is
// JSON null).  Encode must hand that object to encoding/json and pass on its bytes and error.
//
// Decoder: FromGeoJSON is interpreted on the trees encoding/json would produce for those
// objects ([]interface{} of … of float64) and must return the original geometry; and on
// malformed trees (wrong nesting, positions of 0/1/3 numbers, non-numbers, empty arrays,
// unknown type) it must return an error and never panic.

import (
	"fmt"
	"go/token"
	"go/types"
)

type gjCase struct {
	tn    string
	name  string
	val   oval
	tree  gjTree // expected coordinates
	depth int
}

// gjTree: nested arrays with float ranks at the leaves.
type gjTree struct {
	leaf  bool
	rank  int64
	kids  []gjTree
	other string // a non-number leaf ("string", "null")
}

func gjPos(p oBoxPt) gjTree {
	return gjTree{kids: []gjTree{{leaf: true, rank: p.x}, {leaf: true, rank: p.y}}}
}

func gjFromRing(r []oBoxPt) gjTree {
	t := gjTree{}
	for _, p := range r {
		t.kids = append(t.kids, gjPos(p))
	}
	return t
}

func (t gjTree) String() string {
	if t.leaf {
		return fmt.Sprintf("v%d", t.rank)
	}
	if t.other != "" {
		return t.other
	}
	s := "["
	for i, k := range t.kids {
		if i > 0 {
			s += ","
		}
		s += k.String()
	}
	return s + "]"
}

func gjEqual(a, b gjTree) bool {
	if a.leaf != b.leaf || a.other != b.other {
		return false
	}
	if a.leaf {
		return a.rank == b.rank
	}
	if len(a.kids) != len(b.kids) {
		return false
	}
	for i := range a.kids {
		if !gjEqual(a.kids[i], b.kids[i]) {
			return false
		}
	}
	return true
}

// gjOfValue reads a nested slice value of floats into a tree; nilAt reports a nil member array.
func gjOfValue(v oval, nilAt *string, path string) (gjTree, bool) {
	if iv, ok := v.(oIface); ok {
		v = iv.dyn
	}
	switch x := v.(type) {
	case oFloat:
		return gjTree{leaf: true, rank: x.r}, true
	case oSlice:
		if x.isNil() && *nilAt == "" {
			*nilAt = path
		}
		t := gjTree{}
		for i := 0; i < x.length(); i++ {
			k, ok := gjOfValue(x.at(i), nilAt, fmt.Sprintf("%s[%d]", path, i))
			if !ok {
				return t, false
			}
			t.kids = append(t.kids, k)
		}
		return t, true
	}
	return gjTree{}, false
}

type gjModel struct {
	m     *clipModel
	c     *Ctx
	anyT  types.Type // interface{}
	arrT  types.Type // []interface{}
	geomT *types.Named
	strT  types.Type
	mpT   types.Type
}

// jsonValue builds what encoding/json.Unmarshal stores for a tree.
func (g *gjModel) jsonValue(t gjTree) oval {
	switch {
	case t.leaf:
		return oIface{dyn: oFloat{t.rank}}
	case t.other == "null":
		return oIface{}
	case t.other != "":
		return oIface{dyn: strVal(g.strT, t.other)}
	}
	var vals []oval
	for _, k := range t.kids {
		vals = append(vals, g.jsonValue(k))
	}
	return oIface{dyn: g.m.sliceOf(g.arrT, vals)}
}

func strVal(t types.Type, s string) oSlice {
	arr := make([]oval, len(s))
	for i := 0; i < len(s); i++ {
		arr[i] = oInt(s[i])
	}
	return oSlice{typ: t, arr: &arr, lo: 0, hi: len(arr), capEnd: len(arr)}
}

func strOf(v oval) (string, bool) {
	s, ok := v.(oSlice)
	if !ok {
		return "", false
	}
	b := make([]byte, s.length())
	for i := range b {
		e, ok := s.at(i).(oInt)
		if !ok {
			return "", false
		}
		b[i] = byte(e)
	}
	return string(b), true
}

func (g *gjModel) geometry(typeName string, coords oval) oval {
	st := g.m.it.zero(g.geomT).(*oStruct)
	st.fields["Type"] = strVal(g.strT, typeName)
	st.fields["Coordinates"] = coords
	return oPtr{st}
}

func (g *gjModel) cases() []gjCase {
	m := g.m
	ringT := m.polyT.Underlying().(*types.Slice).Elem()
	var out []gjCase
	p := m.fresh()
	out = append(out, gjCase{"Point", "Point", m.it.point(m.ptT, p.x, p.y), gjPos(p), 1})
	for _, n := range []int{1, 3} {
		if g.mpT != nil {
			s, pts := m.ring(g.mpT, m.ptT, n)
			out = append(out, gjCase{"MultiPoint", fmt.Sprintf("MultiPoint(%d)", n), s, gjFromRing(pts), 2})
		}
		s, pts := m.ring(m.lsT, m.ptT, n)
		out = append(out, gjCase{"LineString", fmt.Sprintf("LineString(%d)", n), s, gjFromRing(pts), 2})
	}
	for _, sh := range [][]int{{2}, {3, 1}, {2, 0, 1}, {1, 2, 0}} {
		var ls, rs []oval
		lt, rt := gjTree{}, gjTree{}
		for _, n := range sh {
			l, lp := m.ring(m.lsT, m.ptT, n)
			ls, lt.kids = append(ls, l), append(lt.kids, gjFromRing(lp))
			r, rp := m.ring(ringT, m.ptT, n)
			rs, rt.kids = append(rs, r), append(rt.kids, gjFromRing(rp))
		}
		out = append(out, gjCase{"MultiLineString", fmt.Sprintf("MultiLineString%v", sh), m.sliceOf(m.mlsT, ls), lt, 3})
		out = append(out, gjCase{"Polygon", fmt.Sprintf("Polygon%v", sh), m.sliceOf(m.polyT, rs), rt, 3})
	}
	for _, sh := range [][][]int{{{2}}, {{2, 1}, {3}}, {{1}, {2, 0, 1}, {0}}, {{2}, {}, {1}}} {
		mp, _ := m.multiPolygon(sh...)
		t := gjTree{}
		for i := 0; i < mp.length(); i++ {
			pt := gjTree{}
			pg := mp.at(i).(oSlice)
			for j := 0; j < pg.length(); j++ {
				pts, _ := ptsOf(pg.at(j))
				pt.kids = append(pt.kids, gjFromRing(pts))
			}
			t.kids = append(t.kids, pt)
		}
		out = append(out, gjCase{"MultiPolygon", fmt.Sprintf("MultiPolygon%v", sh), mp, t, 4})
	}
	return out
}

func c06model(c *Ctx) {
	m := newClipModel(c)
	m.it.maxDepth = 48
	gp := c.P.Pkg("encoding/geojson")
	geomT := c.P.NamedType("encoding/geojson", "Geometry")
	toFn, fromFn := c.P.Func("encoding/geojson", "ToGeoJSON"), c.P.Func("encoding/geojson", "FromGeoJSON")
	encFn, decFn := c.P.Func("encoding/geojson", "Encode"), c.P.Func("encoding/geojson", "Decode")
	if gp == nil || geomT == nil || c.P.Decl(toFn) == nil || c.P.Decl(fromFn) == nil || c.P.Decl(encFn) == nil || c.P.Decl(decFn) == nil || m.ptT == nil {
		c.Unk("C06.R1", "encoding/geojson#anchors", token.NoPos, "Geometry / ToGeoJSON / FromGeoJSON / Encode / Decode do not all resolve")
		return
	}
	anyT := types.NewInterfaceType(nil, nil)
	anyT.Complete()
	g := &gjModel{m: m, c: c, anyT: anyT, arrT: types.NewSlice(anyT), geomT: geomT, strT: types.Typ[types.String], mpT: c.P.NamedType("geom", "MultiPoint")}
	errVal := oIface{opaque: &oOpaque{name: "json error", isError: true}}
	var marshalled []oval
	marshalErr := false
	var unmarshalTo oval
	unmarshalErr := false
	m.it.stub = func(f *types.Func, recv oval, args []oval) ([]oval, bool) {
		full := f.FullName()
		switch {
		case full == "encoding/json.Marshal" && len(args) == 1:
			marshalled = append(marshalled, args[0])
			if marshalErr {
				return []oval{oSlice{}, errVal}, true
			}
			return []oval{strVal(types.NewSlice(types.Typ[types.Byte]), "<json>"), oNil{}}, true
		case full == "encoding/json.Unmarshal" && len(args) == 2:
			if unmarshalErr {
				return []oval{errVal}, true
			}
			dst, ok := args[1].(oIface)
			var p oPtr
			if ok {
				p, ok = dst.dyn.(oPtr)
			} else {
				p, ok = args[1].(oPtr)
			}
			src, ok2 := unmarshalTo.(oPtr)
			if !ok || !ok2 || p.s == nil {
				return []oval{oTop{"Unmarshal into " + showVal(args[1])}}, true
			}
			for k, v := range src.s.fields {
				p.s.fields[k] = v
			}
			return []oval{oNil{}}, true
		case f.Pkg() != nil && f.Pkg().Path() == "reflect":
			return []oval{oTop{"reflect value"}}, true
		}
		if f.Pkg() != nil && f.Pkg().Path() == "encoding/json" {
			return []oval{oTop{"encoding/json." + f.Name() + " is not modelled"}}, true
		}
		return nil, false
	}
	names := map[string]string{"Point": "Point", "MultiPoint": "MultiPoint", "LineString": "LineString", "MultiLineString": "MultiLineString", "Polygon": "Polygon", "MultiPolygon": "MultiPolygon"}
	type verdict struct{ msg, unk string }
	encV, decV := map[string]*verdict{}, map[string]*verdict{}
	vget := func(mm map[string]*verdict, k string) *verdict {
		if mm[k] == nil {
			mm[k] = &verdict{}
		}
		return mm[k]
	}
	runs := 0
	for _, cs := range g.cases() {
		ev, dv := vget(encV, cs.tn), vget(decV, cs.tn)
		// ---- encoder
		if ev.msg == "" && ev.unk == "" {
			runs++
			res, why := m.it.Call(toFn, nil, []oval{m.it.ifaceOf(cs.val)}, 0)
			switch {
			case why != "":
				if len(why) > 6 && why[:6] == "panic:" {
					ev.msg = fmt.Sprintf("ToGeoJSON(%s) panics: %s", cs.name, why)
				} else {
					ev.unk = fmt.Sprintf("ToGeoJSON(%s): not interpretable: %s", cs.name, why)
				}
			default:
				obj, ok := res[0].(oPtr)
				if eq, okE := oEqual(res[1], oNil{}); !okE || !eq || !ok || obj.s == nil {
					ev.msg = fmt.Sprintf("ToGeoJSON(%s) fails for a supported type", cs.name)
					break
				}
				if tname, ok := strOf(obj.s.fields["Type"]); !ok || tname != names[cs.tn] {
					ev.msg = fmt.Sprintf("ToGeoJSON(%s) sets type %q, RFC 7946 calls it %q", cs.name, tname, names[cs.tn])
					break
				}
				nilAt := ""
				got, ok := gjOfValue(obj.s.fields["Coordinates"], &nilAt, "coordinates")
				if !ok || !gjEqual(got, cs.tree) {
					ev.msg = fmt.Sprintf("ToGeoJSON(%s) builds coordinates %s, want %s (nesting depth %d, one [x, y] position per vertex, storage order)", cs.name, got, cs.tree, cs.depth)
					break
				}
				if nilAt != "" {
					ev.msg = fmt.Sprintf("ToGeoJSON(%s): the member array %s is a nil slice, which encoding/json writes as null: it does not decode back to an (empty) member", cs.name, nilAt)
				}
			}
		}
		// ---- decoder on the tree encoding/json would produce
		if dv.msg == "" && dv.unk == "" {
			runs++
			in := g.geometry(names[cs.tn], g.jsonValue(cs.tree))
			res, why := m.it.Call(fromFn, nil, []oval{in}, 0)
			switch {
			case why != "":
				if len(why) > 6 && why[:6] == "panic:" {
					dv.msg = fmt.Sprintf("FromGeoJSON(%s %s) panics: %s", names[cs.tn], cs.tree, why)
				} else {
					dv.unk = fmt.Sprintf("FromGeoJSON(%s): not interpretable: %s", cs.name, why)
				}
			default:
				firstEmpty := len(cs.tree.kids) > 0 && !cs.tree.kids[0].leaf && gjFirstEmpty(cs.tree, cs.depth)
				if eq, okE := oEqual(res[1], oNil{}); !okE || !eq {
					if !firstEmpty {
						dv.msg = fmt.Sprintf("FromGeoJSON rejects the object ToGeoJSON builds for %s", cs.name)
					}
					break
				}
				var got, want []oBoxPt
				ga, wa := map[*[]oval]bool{}, map[*[]oval]bool{}
				okG := collectVerts(res[0], &got, ga)
				collectVerts(cs.val, &want, wa)
				if !okG || !samePts(got, want) || !sameShape(res[0], cs.val) {
					dv.msg = fmt.Sprintf("FromGeoJSON(ToGeoJSON(%s)) = %s: not the geometry that was encoded", cs.name, showVal(res[0]))
					break
				}
				if dt := dynTypeOfResult(res[0]); dt != nil {
					if wt := c.P.NamedType("geom", cs.tn); wt != nil && !types.Identical(dt, wt) {
						dv.msg = fmt.Sprintf("a %q object decodes to a %s", names[cs.tn], dt.String())
					}
				}
			}
		}
	}
	c.Evals(runs)
	pos := c.P.Decl(toFn).Pos()
	for _, tn := range []string{"Point", "MultiPoint", "LineString", "MultiLineString", "Polygon", "MultiPolygon"} {
		for _, side := range []struct {
			mm   map[string]*verdict
			what string
			p    token.Pos
		}{{encV, "encoder", pos}, {decV, "decoder", c.P.Decl(fromFn).Pos()}} {
			v := side.mm[tn]
			cons := fmt.Sprintf("encoding/geojson#%s(%s)", side.what, tn)
			switch {
			case v == nil:
				c.Unk("C06.R1", cons, side.p, "no model case")
			case v.msg != "":
				c.Bad("C06.R1", cons, side.p, "%s", v.msg)
			case v.unk != "":
				c.Unk("C06.R1", cons, side.p, "%s", v.unk)
			default:
				c.OK("C06.R1", cons, side.p, "type name, nesting, [x, y] positions and member order agree with RFC 7946 on every model geometry; the two directions are inverse")
			}
		}
	}
	// ---- Encode / Decode wrappers and errors (R4)
	{
		p := m.fresh()
		pt := m.it.point(m.ptT, p.x, p.y)
		cons := "encoding/geojson.Encode#marshal"
		marshalled, marshalErr = nil, false
		res, why := m.it.Call(encFn, nil, []oval{m.it.ifaceOf(pt)}, 0)
		msg, unk := "", ""
		switch {
		case why != "":
			unk = "Encode: not interpretable: " + why
		case len(marshalled) != 1:
			unk = fmt.Sprintf("Encode calls json.Marshal %d times (an encoder other than json.Marshal is not modelled)", len(marshalled))
		default:
			if s, ok := strOf(res[0]); !ok || s != "<json>" {
				msg = "Encode does not return the bytes json.Marshal produced"
			}
			if eq, ok := oEqual(res[1], oNil{}); !ok {
				unk = "Encode: the error result is " + showVal(res[1])
			} else if !eq {
				msg = "Encode returns an error although json.Marshal succeeded"
			}
			obj, ok := marshalled[0].(oIface)
			var op oPtr
			if ok {
				op, ok = obj.dyn.(oPtr)
			}
			if !ok || op.s == nil || named(op.s.typ) != geomT {
				msg = "Encode marshals " + showVal(marshalled[0]) + ", not the Geometry object ToGeoJSON built"
			}
		}
		if msg == "" && unk == "" {
			marshalled, marshalErr = nil, true
			res, why = m.it.Call(encFn, nil, []oval{m.it.ifaceOf(pt)}, 0)
			marshalErr = false
			if why != "" {
				unk = "Encode with a failing json.Marshal: not interpretable: " + why
			} else if eq, ok := oEqual(res[1], oNil{}); !ok || eq {
				msg = "json.Marshal's error (non-finite coordinates) does not reach Encode's caller"
			}
		}
		if unk != "" && msg == "" {
			// an encoder form the model has no stub for (json.NewEncoder …): fall back to the syntactic rule
			c06errors(c, gp.TypesInfo)
		} else {
			report3(c, "C06.R4", cons, c.P.Decl(encFn).Pos(), msg, unk, "Encode marshals the ToGeoJSON object and returns encoding/json's bytes and error")
		}
		// unsupported types
		msg, unk = "", ""
		for _, o := range []oval{oPtr{m.it.bounds(m.bt, m.ptT, 1, 3, 5, 7)}} {
			res, why := m.it.Call(toFn, nil, []oval{m.it.ifaceOf(o)}, 0)
			if why != "" {
				unk = "ToGeoJSON(*Bounds): not interpretable: " + why
			} else if eq, ok := oEqual(res[1], oNil{}); !ok || eq {
				msg = "ToGeoJSON accepts a *Bounds without an error although it has no GeoJSON form here"
			}
		}
		report3(c, "C06.R4", "encoding/geojson.ToGeoJSON#unsupported", pos, msg, unk, "unsupported geometry types return an error")
		// Decode: Unmarshal then FromGeoJSON; Unmarshal's error passed on
		msg, unk = "", ""
		q := m.fresh()
		unmarshalTo = g.geometry("Point", g.jsonValue(gjPos(q)))
		res, why = m.it.Call(decFn, nil, []oval{strVal(types.NewSlice(types.Typ[types.Byte]), "{}")}, 0)
		if why != "" {
			unk = "Decode: not interpretable: " + why
		} else {
			var got []oBoxPt
			if !collectVerts(res[0], &got, map[*[]oval]bool{}) || !samePts(got, []oBoxPt{q}) {
				msg = "Decode does not return FromGeoJSON of the unmarshalled object: " + showVal(res[0])
			}
		}
		if msg == "" && unk == "" {
			unmarshalErr = true
			res, why = m.it.Call(decFn, nil, []oval{strVal(types.NewSlice(types.Typ[types.Byte]), "{")}, 0)
			unmarshalErr = false
			if why != "" {
				unk = "Decode with a failing json.Unmarshal: not interpretable: " + why
			} else if eq, ok := oEqual(res[1], oNil{}); !ok || eq {
				msg = "a JSON syntax error does not reach Decode's caller"
			}
		}
		report3(c, "C06.R4", "encoding/geojson.Decode#unmarshal", c.P.Decl(decFn).Pos(), msg, unk, "Decode unmarshals, converts with FromGeoJSON and passes on encoding/json's error")
	}
	// ---- malformed trees: error, never a panic (C06.R2 for the len==2 guard; shared with C07)
	c06malformed(c, g, fromFn, "C06.R2")
}

func report3(c *Ctx, rule, cons string, pos token.Pos, msg, unk, okText string) {
	switch {
	case msg != "":
		c.Bad(rule, cons, pos, "%s", msg)
	case unk != "":
		c.Unk(rule, cons, pos, "%s", unk)
	default:
		c.OK(rule, cons, pos, "%s", okText)
	}
}

// gjFirstEmpty: the first member at some level below the top is an empty array (the decoder
// inspects the first position to tell 2-D input and rejects such objects).
func gjFirstEmpty(t gjTree, depth int) bool {
	cur := t
	for d := 1; d < depth; d++ {
		if len(cur.kids) == 0 {
			return true
		}
		cur = cur.kids[0]
	}
	return false
}

func collectVerts(v oval, out *[]oBoxPt, arrs map[*[]oval]bool) bool {
	switch x := v.(type) {
	case oIface:
		if x.dyn == nil {
			return false
		}
		return collectVerts(x.dyn, out, arrs)
	case oPtr:
		return x.s != nil && collectVerts(x.s, out, arrs)
	case *oStruct:
		fx, ok1 := x.fields["X"].(oFloat)
		fy, ok2 := x.fields["Y"].(oFloat)
		if !ok1 || !ok2 {
			return false
		}
		*out = append(*out, oBoxPt{fx.r, fy.r})
		return true
	case oSlice:
		if x.arr != nil {
			arrs[x.arr] = true
		}
		for i := 0; i < x.length(); i++ {
			if !collectVerts(x.at(i), out, arrs) {
				return false
			}
		}
		return true
	}
	return false
}

// sameShape: equal nesting structure (member counts at every level).
func sameShape(a, b oval) bool {
	if ia, ok := a.(oIface); ok {
		a = ia.dyn
	}
	if ib, ok := b.(oIface); ok {
		b = ib.dyn
	}
	sa, ok1 := a.(oSlice)
	sb, ok2 := b.(oSlice)
	if ok1 != ok2 {
		return false
	}
	if !ok1 {
		return true
	}
	if sa.length() != sb.length() {
		return false
	}
	for i := 0; i < sa.length(); i++ {
		if !sameShape(sa.at(i), sb.at(i)) {
			return false
		}
	}
	return true
}

// c06malformed feeds FromGeoJSON trees that are not valid for the announced type.
func c06malformed(c *Ctx, g *gjModel, fromFn *types.Func, rule string) {
	m := g.m
	num := func(r int64) gjTree { return gjTree{leaf: true, rank: r} }
	arr := func(k ...gjTree) gjTree { return gjTree{kids: k} }
	pos2 := arr(num(10), num(12))
	bad := []gjTree{
		{other: "null"}, {other: "text"}, num(4), arr(),
		arr(num(1)), arr(num(1), num(3), num(5)), arr(num(1), gjTree{other: "text"}), arr(gjTree{other: "null"}, num(3)),
		arr(arr()), arr(pos2, arr()), arr(pos2, arr(num(1))), arr(arr(num(1), num(3), num(5)), pos2), arr(pos2, arr(num(1), num(3), num(5))), arr(pos2, gjTree{other: "text"}), arr(pos2, num(7)),
		arr(arr(arr())), arr(arr(pos2), arr()), arr(arr(pos2), arr(arr(num(1)))), arr(arr(pos2, arr(num(1), num(3), num(5)))), arr(arr(pos2), num(3)), arr(arr(pos2), arr(num(3))),
		arr(arr(arr(arr()))), arr(arr(arr(pos2)), arr()), arr(arr(arr(pos2)), arr(arr())), arr(arr(arr(pos2), arr(arr(num(1))))), arr(arr(arr(pos2))), arr(arr(arr(pos2)), arr(arr(pos2, num(5)))),
	}
	types_ := []string{"Point", "MultiPoint", "LineString", "MultiLineString", "Polygon", "MultiPolygon", "GeometryCollection", "Circle", ""}
	validDepth := map[string]int{"Point": 1, "MultiPoint": 2, "LineString": 2, "MultiLineString": 3, "Polygon": 3, "MultiPolygon": 4}
	runs, npanic := 0, 0
	msg, unk := "", ""
	for _, tn := range types_ {
		for _, t := range bad {
			wellFormed := false
			if d, ok := validDepth[tn]; ok && gjWellFormed(t, d) {
				wellFormed = true // structurally fine (an empty member somewhere): accepting it is the decoder's choice, panicking is not
			}
			runs++
			res, why := m.it.Call(fromFn, nil, []oval{g.geometry(tn, g.jsonValue(t))}, 0)
			if why != "" {
				if len(why) > 6 && why[:6] == "panic:" {
					npanic++
					if msg == "" {
						msg = fmt.Sprintf("FromGeoJSON panics on {\"type\":%q,\"coordinates\":%s}: %s (a malformed document must give an error)", tn, t, why)
					}
				} else if unk == "" {
					unk = fmt.Sprintf("type %q, coordinates %s: not interpretable: %s", tn, t, why)
				}
				continue
			}
			if eq, ok := oEqual(res[1], oNil{}); (!ok || eq) && msg == "" && !wellFormed {
				msg = fmt.Sprintf("FromGeoJSON accepts {\"type\":%q,\"coordinates\":%s} and returns %s without an error", tn, t, showVal(res[0]))
			}
		}
	}
	// a nil *Geometry
	runs++
	if res, why := m.it.Call(fromFn, nil, []oval{oPtr{nil}}, 0); why != "" {
		if len(why) > 6 && why[:6] == "panic:" && msg == "" {
			msg = "FromGeoJSON(nil) panics: " + why
		}
	} else if eq, ok := oEqual(res[1], oNil{}); (!ok || eq) && msg == "" {
		msg = "FromGeoJSON(nil) returns no error"
	}
	c.Evals(runs)
	report3(c, rule, "encoding/geojson.FromGeoJSON#malformed", c.P.Decl(fromFn).Pos(), msg, unk, fmt.Sprintf("%d malformed documents (wrong nesting, positions of 0/1/3 numbers, non-numbers, empty arrays, unknown types, nil): each gives an error, none panics", runs))
}

// gjWellFormed: t is a valid coordinates value of the given depth with non-empty first members.
func gjWellFormed(t gjTree, depth int) bool {
	if depth == 0 {
		return t.leaf
	}
	if t.leaf || t.other != "" {
		return false
	}
	if depth == 1 && len(t.kids) != 2 {
		return false
	}
	// empty arrays above the position level are structurally fine (an empty member); whether an
	// empty *first* member is accepted is the decoder's choice and is not judged
	for _, k := range t.kids {
		if !gjWellFormed(k, depth-1) {
			return false
		}
	}
	return true
}
