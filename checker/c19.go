package main

// C19 — ShortestRoute returns a minimum-cost path.
//
// R1 the graph handed to gonum's path.AStar implements path.Weighted (otherwise
//    AStar silently uses unit costs).   R2 the heuristic's speed divisor is a
//    running maximum (admissibility).   R3 weights/totals.   R4 symmetric links.

import (
	"fmt"
	"go/ast"
	"go/token"
	"go/types"
	"strings"
)

func init() { register("C19", false, checkC19) }

const gonumPath = "gonum.org/v1/gonum/graph/path"

func checkC19(c *Ctx) {
	c.Rule("C19.R1", "at every call of gonum path.AStar the static type of the graph argument implements path.Weighted (Weight(xid, yid int64) (float64, bool)) — the optional interface AStar asserts before falling back to unit edge costs; model evaluation: on the model map the search the package sets up does not minimise the number of links")
	c.Rule("C19.R5", "a query does not write the network: no function reachable from ShortestRoute inside the package assigns to a Network field, to a map or slice held by the network, or to package-level state; model evaluation: the network's tables are the same before and after every query")
	c.Rule("C19.R2", "model evaluation of ShortestRoute on a map built through NewNetwork/AddLink with symbolic coordinates and speeds, gonum's A* replaced by a transcription that asks the interpreted graph for neighbours, weights and heuristic values: for both options the returned route is the cheapest of all simple routes although the map holds detours on which an over-estimating heuristic (a speed below the fastest link's, a multiple of the distance, a direct link's own cost) closes the destination too early")
	c.Rule("C19.R3", "model evaluation, same runs: the route is a chain of the network's links from the node nearest to the start to the node nearest to the end; distance is the sum of their lengths and time the sum of length ÷ speed, as identities in the symbols; startDistance and endDistance are the straight-line distances to those nodes")
	c.Rule("C19.R4", "model evaluation, same runs: the query in the opposite direction finds a route of the same cost (links are usable both ways)")
	p := c.P.Pkg("route")
	if p == nil {
		c.Unk("C19.R1", "route", token.NoPos, "package not loaded")
		return
	}
	c19model(c)
	info := p.TypesInfo
	dep := c.P.Dep(gonumPath)
	if dep == nil {
		c.Unk("C19.R1", "gonum/graph/path", token.NoPos, "dependency not loaded")
		return
	}
	weightedObj, _ := dep.Types.Scope().Lookup("Weighted").(*types.TypeName)
	if weightedObj == nil {
		c.Unk("C19.R1", "gonum/graph/path.Weighted", token.NoPos, "interface not found in the dependency")
		return
	}
	weighted := weightedObj.Type().Underlying().(*types.Interface)
	netT := c.P.NamedType("route", "Network")
	nAStar := 0
	for _, fn := range c.P.RepoFuncs() {
		if c.P.DeclPkg(fn) != p {
			continue
		}
		fd := c.P.Decl(fn)
		ast.Inspect(fd.Body, func(n ast.Node) bool {
			call, ok := n.(*ast.CallExpr)
			if !ok || !isFuncIn(callee(info, call), gonumPath, "AStar") || len(call.Args) != 4 {
				return true
			}
			nAStar++
			cons := c.P.FuncName(fn) + "#AStar-graph"
			gt := info.TypeOf(call.Args[2])
			if types.Implements(gt, weighted) {
				c.OK("C19.R1", cons, call.Pos(), "%s implements path.Weighted", typeName(gt))
			} else {
				near := ""
				for i := 0; i < weighted.NumMethods(); i++ {
					m := weighted.Method(i)
					obj, _, _ := types.LookupFieldOrMethod(gt, true, p.Types, m.Name())
					if f, ok := obj.(*types.Func); ok {
						near = " (it has " + f.Name() + types.TypeString(f.Type(), types.RelativeTo(p.Types))[4:] + ", path.Weighted wants " + m.Name() + types.TypeString(m.Type(), nil)[4:] + ")"
					} else {
						obj2, _, _ := types.LookupFieldOrMethod(types.NewPointer(gt), true, p.Types, m.Name())
						if f, ok := obj2.(*types.Func); ok {
							near = " (only *" + typeName(gt) + " has " + f.Name() + types.TypeString(f.Type(), types.RelativeTo(p.Types))[4:] + ")"
						}
					}
				}
				c.Bad("C19.R1", cons, call.Pos(), "the graph argument `%s` of type %s does not implement gonum's path.Weighted%s, so AStar uses UniformCost: every link costs 1 and the route minimises the number of links, not distance or time", src(call.Args[2]), typeName(gt), near)
			}
			// (the heuristic handed to the search — a method value, a closure, the result of a factory —
			// is evaluated by the model, whatever form it has: C19.R2)
			return true
		})
	}
	if nAStar == 0 {
		c.Unk("C19.R1", "route#AStar", token.NoPos, "no call of gonum path.AStar found")
		return
	}
	c19queryPure(c, info, p, netT)
	premiseNearest(c, "C19.R6", "a route starts at the network node nearest the start point and ends at the one nearest the end point, both found through the node index")
	c.Floor("C19.R6", 10)
	c.Floor("C19.R5", 1)
	c.Floor("C19.R1", 1)
	c.Floor("C19.R2", 2)
	c.Floor("C19.R3", 3)
	c.Floor("C19.R4", 1)
}

// c19queryPure: ShortestRoute and everything it reaches in the package leave the network untouched.
func c19queryPure(c *Ctx, info *types.Info, p *pkgT, netT *types.Named) {
	sr := c.P.Method("route", "Network", "ShortestRoute")
	if sr == nil || c.P.Decl(sr) == nil {
		c.Unk("C19.R5", "route.(Network).ShortestRoute", token.NoPos, "API anchor does not resolve")
		return
	}
	seen := map[*types.Func]bool{}
	var order []*types.Func
	var visit func(f *types.Func)
	visit = func(f *types.Func) {
		if f == nil || seen[f] || c.P.Decl(f) == nil || c.P.DeclPkg(f) != p {
			return
		}
		seen[f] = true
		order = append(order, f)
		ast.Inspect(c.P.Decl(f).Body, func(n ast.Node) bool {
			switch x := n.(type) {
			case *ast.CallExpr:
				visit(callee(info, x))
			case *ast.SelectorExpr:
				// method values such as net.costHeuristic handed to the search
				if sl := info.Selections[x]; sl != nil && sl.Kind() == types.MethodVal {
					if m, ok := sl.Obj().(*types.Func); ok {
						visit(m)
					}
				}
			}
			return true
		})
	}
	visit(sr)
	// the graph adapter methods gonum calls back
	if ms := types.NewMethodSet(types.NewPointer(netT)); ms != nil {
		for i := 0; i < ms.Len(); i++ {
			if m, ok := ms.At(i).Obj().(*types.Func); ok {
				switch m.Name() {
				case "Weight", "From", "Edge", "Node", "Nodes", "HasEdgeBetween", "Has":
					visit(m)
				}
			}
		}
	}
	nWrites := 0
	for _, f := range order {
		fd := c.P.Decl(f)
		recv := receiverVar(info, fd)
		rootIsState := func(e ast.Expr) (string, bool) {
			for {
				switch x := unparen(e).(type) {
				case *ast.SelectorExpr:
					if o := objOf(info, x.X); o != nil && o == recv && recv != nil && named(recv.Type()) == netT {
						return src(x), true
					}
					e = x.X
					continue
				case *ast.IndexExpr:
					e = x.X
					continue
				case *ast.StarExpr:
					e = x.X
					continue
				case *ast.Ident:
					if v, ok := objOf(info, x).(*types.Var); ok && v.Pkg() != nil && v.Parent() == v.Pkg().Scope() {
						return "package-level " + v.Name(), true
					}
				}
				return "", false
			}
		}
		ast.Inspect(fd.Body, func(n ast.Node) bool {
			var lhs []ast.Expr
			switch x := n.(type) {
			case *ast.AssignStmt:
				if x.Tok == token.DEFINE {
					return true
				}
				lhs = x.Lhs
			case *ast.IncDecStmt:
				lhs = []ast.Expr{x.X}
			case *ast.CallExpr:
				if builtinName(info, x) == "delete" && len(x.Args) > 0 {
					lhs = []ast.Expr{x.Args[0]}
				}
			}
			for _, l := range lhs {
				if what, ok := rootIsState(l); ok {
					nWrites++
					c.Unk("C19.R5", fmt.Sprintf("%s#writes:%s", c.P.FuncName(f), what), l.Pos(), "`%s` is executed while answering a query and changes %s: the route returned may then depend on which queries were asked before (a search tree computed for one destination is final only for that destination), which this analysis cannot exclude", strings.SplitN(src(n), "\n", 2)[0], what)
				}
			}
			return true
		})
	}
	if nWrites == 0 {
		c.OK("C19.R5", "route.(Network).ShortestRoute#no-writes", c.P.Decl(sr).Pos(), "%d functions reachable from the query; none assigns to the network or to package-level state", len(order))
	}
}
