package main

// C19 — ShortestRoute returns a minimum-cost path.
//
// R1 the graph handed to gonum's path.AStar implements path.Weighted (otherwise
//    AStar silently uses unit costs).   R2 the heuristic's speed divisor is a
//    running maximum (admissibility).   R3 weights/totals.   R4 symmetric links.

import (
	"fmt"
	"go/ast"
	"go/token"
	"go/types"
	"strings"
)

func init() { register("C19", false, checkC19) }

const gonumPath = "gonum.org/v1/gonum/graph/path"

func checkC19(c *Ctx) {
	c.Rule("C19.R1", "at every call of gonum path.AStar the static type of the graph argument implements path.Weighted (Weight(xid, yid int64) (float64, bool)) — the optional interface AStar asserts before falling back to unit edge costs")
	c.Rule("C19.R5", "a query does not write the network: no function reachable from ShortestRoute inside the package assigns to a Network field, to a map or slice held by the network, or to package-level state (the answer is a function of the links and the two points, not of earlier queries)")
	c.Rule("C19.R2", "in the heuristic passed to AStar, a network field used as divisor of a distance is maintained as a running maximum of link speeds (stores guarded by new > old or math.Max; initial value not above any speed); every value the heuristic returns is 0, the straight-line distance between the two nodes (when minimising distance) or that distance over the maximum speed (when minimising time) — the only estimates here that are lower bounds of every route's cost")
	c.Rule("C19.R3", "the weight of an edge is its time or length field according to the option switch (no numeric default); a link's time is its length divided by the speed argument; the route loop visits every consecutive node pair and sums length and time of the very edge it appends")
	c.Rule("C19.R4", "every store neighbors[a][b] = e is paired with neighbors[b][a] = e")
	p := c.P.Pkg("route")
	if p == nil {
		c.Unk("C19.R1", "route", token.NoPos, "package not loaded")
		return
	}
	info := p.TypesInfo
	dep := c.P.Dep(gonumPath)
	if dep == nil {
		c.Unk("C19.R1", "gonum/graph/path", token.NoPos, "dependency not loaded")
		return
	}
	weightedObj, _ := dep.Types.Scope().Lookup("Weighted").(*types.TypeName)
	if weightedObj == nil {
		c.Unk("C19.R1", "gonum/graph/path.Weighted", token.NoPos, "interface not found in the dependency")
		return
	}
	weighted := weightedObj.Type().Underlying().(*types.Interface)
	netT := c.P.NamedType("route", "Network")
	var heuristics []*types.Func
	nAStar := 0
	for _, fn := range c.P.RepoFuncs() {
		if c.P.DeclPkg(fn) != p {
			continue
		}
		fd := c.P.Decl(fn)
		ast.Inspect(fd.Body, func(n ast.Node) bool {
			call, ok := n.(*ast.CallExpr)
			if !ok || !isFuncIn(callee(info, call), gonumPath, "AStar") || len(call.Args) != 4 {
				return true
			}
			nAStar++
			cons := c.P.FuncName(fn) + "#AStar-graph"
			gt := info.TypeOf(call.Args[2])
			if types.Implements(gt, weighted) {
				c.OK("C19.R1", cons, call.Pos(), "%s implements path.Weighted", typeName(gt))
			} else {
				near := ""
				for i := 0; i < weighted.NumMethods(); i++ {
					m := weighted.Method(i)
					obj, _, _ := types.LookupFieldOrMethod(gt, true, p.Types, m.Name())
					if f, ok := obj.(*types.Func); ok {
						near = " (it has " + f.Name() + types.TypeString(f.Type(), types.RelativeTo(p.Types))[4:] + ", path.Weighted wants " + m.Name() + types.TypeString(m.Type(), nil)[4:] + ")"
					} else {
						obj2, _, _ := types.LookupFieldOrMethod(types.NewPointer(gt), true, p.Types, m.Name())
						if f, ok := obj2.(*types.Func); ok {
							near = " (only *" + typeName(gt) + " has " + f.Name() + types.TypeString(f.Type(), types.RelativeTo(p.Types))[4:] + ")"
						}
					}
				}
				c.Bad("C19.R1", cons, call.Pos(), "the graph argument `%s` of type %s does not implement gonum's path.Weighted%s, so AStar uses UniformCost: every link costs 1 and the route minimises the number of links, not distance or time", src(call.Args[2]), typeName(gt), near)
			}
			// heuristic: method value X.m
			if sel, ok := unparen(call.Args[3]).(*ast.SelectorExpr); ok {
				if s := info.Selections[sel]; s != nil {
					if m, ok := s.Obj().(*types.Func); ok {
						heuristics = append(heuristics, m)
					}
				}
			} else if !isNilConst(info, call.Args[3]) {
				c.Unk("C19.R2", c.P.FuncName(fn)+"#heuristic", call.Pos(), "heuristic `%s` is not a method value", src(call.Args[3]))
			}
			return true
		})
	}
	if nAStar == 0 {
		c.Unk("C19.R1", "route#AStar", token.NoPos, "no call of gonum path.AStar found")
		return
	}
	// ---------------- R2
	for _, h := range heuristics {
		fd := c.P.Decl(h)
		if fd == nil {
			continue
		}
		var divisors []*types.Var
		ast.Inspect(fd.Body, func(n ast.Node) bool {
			b, ok := n.(*ast.BinaryExpr)
			if !ok || b.Op != token.QUO {
				return true
			}
			if sel, ok := unparen(b.Y).(*ast.SelectorExpr); ok {
				if s := info.Selections[sel]; s != nil {
					if v, ok := s.Obj().(*types.Var); ok && v.IsField() && named(s.Recv()) == netT {
						divisors = append(divisors, v)
					}
				}
			}
			return true
		})
		if len(divisors) == 0 {
			c.OK("C19.R2", c.P.FuncName(h)+"#divisor", fd.Pos(), "the heuristic divides by no network field")
		}
		for _, f := range divisors {
			cons := c.P.FuncName(h) + "#divisor:" + f.Name()
			msg := c19maxAccumulator(c, info, p, f)
			if msg == "" {
				c.OK("C19.R2", cons, fd.Pos(), "`%s` is a running maximum: distance/%s never exceeds the true travel time", f.Name(), f.Name())
			} else {
				c.Bad("C19.R2", cons, fd.Pos(), "the heuristic estimates time as distance / %s, but %s; dividing by anything below the fastest link speed over-estimates the remaining time, the heuristic is inadmissible and A* returns non-minimal routes", f.Name(), msg)
			}
		}
	}
	for _, h := range heuristics {
		if fd := c.P.Decl(h); fd != nil {
			c19heuristicReturns(c, info, p, h, fd)
		}
	}
	if len(heuristics) == 0 {
		c.OK("C19.R2", "route#heuristic", token.NoPos, "no heuristic is passed (null heuristic is admissible)")
	}
	c19weights(c, info, p, netT)
	c19symmetric(c, info, p)
	c19queryPure(c, info, p, netT)
	c.Floor("C19.R5", 1)
	c.Floor("C19.R1", 1)
	c.Floor("C19.R2", 2)
	c.Floor("C19.R3", 2)
	c.Floor("C19.R4", 1)
}

// c19maxAccumulator: every store to field f keeps it a running maximum.
func c19maxAccumulator(c *Ctx, info *types.Info, p *pkgT, f *types.Var) string {
	stores := 0
	msg := ""
	for _, fn := range c.P.RepoFuncs() {
		if c.P.DeclPkg(fn) != p {
			continue
		}
		fd := c.P.Decl(fn)
		ast.Inspect(fd.Body, func(n ast.Node) bool {
			switch x := n.(type) {
			case *ast.CompositeLit:
				for _, el := range x.Elts {
					kv, ok := el.(*ast.KeyValueExpr)
					if !ok || src(kv.Key) != f.Name() || named(info.TypeOf(x)) == nil {
						continue
					}
					if st, ok := named(info.TypeOf(x)).Underlying().(*types.Struct); ok {
						has := false
						for i := 0; i < st.NumFields(); i++ {
							if st.Field(i) == f {
								has = true
							}
						}
						if !has {
							continue
						}
					}
					stores++
					// initial value: 0 or -Inf
					okInit := false
					if v := constOf(info, kv.Value); v != nil && (v.String() == "0") {
						okInit = true
					}
					if call, ok := unparen(kv.Value).(*ast.CallExpr); ok && isFuncIn(callee(info, call), "math", "Inf") {
						if k, ok := constInt(info, call.Args[0]); ok && k < 0 {
							okInit = true
						}
					}
					if !okInit {
						msg = "it starts at `" + src(kv.Value) + "`, which is above every link speed"
					}
				}
			case *ast.AssignStmt:
				for i, l := range x.Lhs {
					sel, ok := unparen(l).(*ast.SelectorExpr)
					if !ok {
						continue
					}
					s := info.Selections[sel]
					if s == nil || s.Obj() != f {
						continue
					}
					stores++
					rhs := x.Rhs[min(i, len(x.Rhs)-1)]
					// math.Max(old, new)
					if call, ok := unparen(rhs).(*ast.CallExpr); ok && isFuncIn(callee(info, call), "math", "Max") {
						if sameExpr(info, call.Args[0], l) || sameExpr(info, call.Args[1], l) {
							continue
						}
					}
					// if new > old { old = new }
					guarded := false
					for _, anc := range enclosing(fd.Body, x) {
						is, ok := anc.(*ast.IfStmt)
						if !ok {
							continue
						}
						b, ok := unparen(is.Cond).(*ast.BinaryExpr)
						if !ok {
							continue
						}
						if (b.Op == token.GTR || b.Op == token.GEQ) && sameExpr(info, b.X, rhs) && sameExpr(info, b.Y, l) {
							guarded = true
						}
						if (b.Op == token.LSS || b.Op == token.LEQ) && sameExpr(info, b.Y, rhs) && sameExpr(info, b.X, l) {
							guarded = true
						}
					}
					if !guarded {
						msg = "`" + src(x) + "` in " + fn.Name() + " does not keep it at the maximum of the link speeds (it is lowered to slower links)"
					}
				}
			}
			return true
		})
	}
	if msg == "" && stores == 0 {
		return "it is never assigned"
	}
	return msg
}

func c19weights(c *Ctx, info *types.Info, p *pkgT, netT *types.Named) {
	// field roles from AddLink's edge literal: time = length / speed, length = op.Length(l)
	add := c.P.Method("route", "Network", "AddLink")
	afd := c.P.Decl(add)
	if afd == nil {
		c.Unk("C19.R3", "route.(*Network).AddLink", token.NoPos, "API anchor does not resolve")
		return
	}
	params := paramVars(info, afd.Type)
	var speedParam types.Object
	for _, pv := range params {
		if pv != nil && isFloat64(pv.Type()) {
			speedParam = pv
		}
	}
	sc := newFnScope(info, afd.Body)
	var lengthField, timeField string
	var lit *ast.CompositeLit
	ast.Inspect(afd.Body, func(n ast.Node) bool {
		cl, ok := n.(*ast.CompositeLit)
		if !ok {
			return true
		}
		for _, el := range cl.Elts {
			kv, ok := el.(*ast.KeyValueExpr)
			if !ok {
				continue
			}
			v := unparen(kv.Value)
			if b, ok := v.(*ast.BinaryExpr); ok && b.Op == token.QUO {
				timeField = src(kv.Key)
				lit = cl
				lenOK := false
				if o := objOf(info, b.X); o != nil {
					if d := sc.singleDef(o); d != nil {
						if call, ok := unparen(d).(*ast.CallExpr); ok && isFuncIn(callee(info, call), modPath+"/op", "Length") {
							lenOK = true
						}
					}
				}
				if lenOK && objOf(info, b.Y) == speedParam && speedParam != nil {
					c.OK("C19.R3", "route.(*Network).AddLink#time", kv.Pos(), "time = length / speed")
				} else {
					c.Bad("C19.R3", "route.(*Network).AddLink#time", kv.Pos(), "a link's time is `%s`, not its length divided by the speed argument", src(v))
				}
			} else if o := objOf(info, v); o != nil && isFloat64(o.Type()) {
				if d := sc.singleDef(o); d != nil {
					if call, ok := unparen(d).(*ast.CallExpr); ok && isFuncIn(callee(info, call), modPath+"/op", "Length") {
						lengthField = src(kv.Key)
					}
				}
			}
		}
		return true
	})
	_ = lit
	if timeField == "" || lengthField == "" {
		if timeField == "" {
			c.Bad("C19.R3", "route.(*Network).AddLink#time", afd.Pos(), "no field of the link is initialised as length / speed")
		}
		if lengthField == "" {
			c.Unk("C19.R3", "route.(*Network).AddLink#length", afd.Pos(), "no field of the link is initialised from op.Length")
		}
		return
	}
	// the Weight method of Network (any receiver form)
	var wm *types.Func
	for _, recv := range []types.Type{netT, types.NewPointer(netT)} {
		if obj, _, _ := types.LookupFieldOrMethod(recv, true, p.Types, "Weight"); obj != nil {
			if f, ok := obj.(*types.Func); ok {
				wm = f
			}
		}
	}
	if wfd := c.P.Decl(wm); wfd != nil {
		// every return of an edge field in Weight (or in a helper it calls with the edge) stands under a
		// test of the minimisation option — a case clause or an `if opt == Const` — and returns that
		// option's field; both options are handled; nothing else returns a weight by default
		seen := map[string]bool{}
		msg := ""
		var scan func(fd *ast.FuncDecl, depth int)
		scan = func(fd *ast.FuncDecl, depth int) {
			ast.Inspect(fd.Body, func(n ast.Node) bool {
				switch x := n.(type) {
				case *ast.ReturnStmt:
					if len(x.Results) < 1 {
						return true
					}
					sel, ok := unparen(x.Results[0]).(*ast.SelectorExpr)
					if !ok || (sel.Sel.Name != timeField && sel.Sel.Name != lengthField) {
						return true
					}
					opt := c19option(info, p, fd, x)
					want := map[string]string{"Time": timeField, "Distance": lengthField}[opt]
					switch {
					case opt == "":
						if msg == "" {
							msg = "`" + src(x) + "` returns an edge field without a test of the minimisation option"
						}
					case sel.Sel.Name != want:
						if msg == "" {
							msg = "minimising " + opt + " weighs an edge by `" + src(x.Results[0]) + "`, want its " + want + " field"
						}
					default:
						seen[opt] = true
					}
				case *ast.CallExpr:
					if depth < 2 {
						if f := callee(info, x); f != nil && c.P.Decl(f) != nil && c.P.DeclPkg(f) == p && f != wm {
							scan(c.P.Decl(f), depth+1)
						}
					}
				}
				return true
			})
		}
		scan(wfd, 0)
		if msg == "" && (!seen["Time"] || !seen["Distance"]) {
			msg = "Weight does not return the time field under Time and the length field under Distance (found: " + fmt.Sprint(seen) + ")"
		}
		if msg == "" {
			c.OK("C19.R3", c.P.FuncName(wm)+"#option", wfd.Pos(), "Time→%s, Distance→%s", timeField, lengthField)
		} else {
			c.Bad("C19.R3", c.P.FuncName(wm)+"#option", wfd.Pos(), "%s", msg)
		}
	} else {
		c.Unk("C19.R3", "route.Network.Weight", token.NoPos, "Weight method not found")
	}
	// route loop
	sr := c.P.Method("route", "Network", "ShortestRoute")
	sfd := c.P.Decl(sr)
	if sfd == nil {
		c.Unk("C19.R3", "route.(Network).ShortestRoute", token.NoPos, "API anchor does not resolve")
		return
	}
	// the loop that turns the node path into links and totals: in ShortestRoute or in a helper it calls
	type found struct {
		fd               *ast.FuncDecl
		loop             ast.Stmt
		body             *ast.BlockStmt
		route, dist, tim types.Object
		msg              string
	}
	var hit *found
	isNeighborsLookup := func(e ast.Expr) (x, y ast.Expr, ok bool) {
		o, ok1 := unparen(e).(*ast.IndexExpr)
		if !ok1 {
			return nil, nil, false
		}
		in, ok2 := unparen(o.X).(*ast.IndexExpr)
		if !ok2 {
			return nil, nil, false
		}
		if _, isMap := info.TypeOf(in.X).Underlying().(*types.Map); !isMap {
			return nil, nil, false
		}
		return in.Index, o.Index, true
	}
	var search func(fd *ast.FuncDecl, depth int)
	search = func(fd *ast.FuncDecl, depth int) {
		if hit != nil {
			return
		}
		ast.Inspect(fd.Body, func(n ast.Node) bool {
			if hit != nil {
				return false
			}
			var body *ast.BlockStmt
			switch x := n.(type) {
			case *ast.ForStmt:
				body = x.Body
			case *ast.RangeStmt:
				body = x.Body
			case *ast.CallExpr:
				if depth < 2 {
					if f := callee(info, x); f != nil && c.P.Decl(f) != nil && c.P.DeclPkg(f) == p {
						search(c.P.Decl(f), depth+1)
					}
				}
				return true
			default:
				return true
			}
			// does the body accumulate e.length and e.time of a looked-up link?
			var ev types.Object
			var kx, ky ast.Expr
			h := &found{fd: fd, loop: n.(ast.Stmt), body: body}
			for _, bs := range body.List {
				as, ok := bs.(*ast.AssignStmt)
				if !ok || len(as.Rhs) != 1 {
					continue
				}
				if x, y, ok := isNeighborsLookup(as.Rhs[0]); ok && ev == nil {
					ev, kx, ky = objOf(info, as.Lhs[0]), x, y
					continue
				}
				if ev == nil {
					continue
				}
				if call, ok := unparen(as.Rhs[0]).(*ast.CallExpr); ok && builtinName(info, call) == "append" && len(call.Args) == 2 && rootObj(info, call.Args[1]) == ev {
					h.route = objOf(info, as.Lhs[0])
				}
				if as.Tok == token.ADD_ASSIGN {
					if sel, ok := unparen(as.Rhs[0]).(*ast.SelectorExpr); ok && objOf(info, sel.X) == ev {
						switch sel.Sel.Name {
						case lengthField:
							h.dist = objOf(info, as.Lhs[0])
						case timeField:
							h.tim = objOf(info, as.Lhs[0])
						}
					}
				}
			}
			if ev == nil || (h.dist == nil && h.tim == nil && h.route == nil) {
				return true
			}
			hit = h
			if h.route == nil {
				h.msg = "the link looked up for a pair of path nodes is not appended to the route"
			} else if h.dist == nil || h.tim == nil {
				h.msg = "the totals do not add the appended link's " + lengthField + " and " + timeField
			}
			if brk, cont, _ := earlyExits(body); len(brk)+len(cont) > 0 && h.msg == "" {
				h.msg = "the route loop has break/continue: links after it are missing from the route and the totals"
			}
			// consecutive pairs
			if h.msg == "" {
				sc := newFnScope(info, fd.Body)
				idOf := func(e ast.Expr) ast.Expr { // X.ID() → X ; a local defined as X.ID() → X
					e = unparen(e)
					if o := objOf(info, e); o != nil {
						if d := sc.singleDef(o); d != nil {
							e = unparen(d)
						}
					}
					if call, ok := e.(*ast.CallExpr); ok && len(call.Args) == 0 {
						if sel, ok := unparen(call.Fun).(*ast.SelectorExpr); ok && sel.Sel.Name == "ID" {
							return unparen(sel.X)
						}
					}
					return nil
				}
				okPairs := false
				if l := sc.loopOf(h.loop); l != nil && l.Idx != nil {
					// idiom A: X[i], X[i+1] over [0, len-1)
					ax, ay := idOf(kx), idOf(ky)
					ix, okx := ax.(*ast.IndexExpr)
					iy, oky := ay.(*ast.IndexExpr)
					if okx && oky && sameExpr(info, ix.X, iy.X) {
						o1, ok1 := sc.idxOffset(ix.Index, l.Idx)
						o2, ok2 := sc.idxOffset(iy.Index, l.Idx)
						full := l.Lo.ok && l.Lo.Of == nil && l.Lo.K == 0 && l.Hi.ok && l.Hi.K == -1 && l.Hi.Of != nil && sameExpr(info, l.Hi.Of, ix.X)
						if ok1 && ok2 && o1 == 0 && o2 == 1 && full {
							okPairs = true
						} else if ok1 && ok2 {
							h.msg = "the loop " + l.String() + " with nodes [i" + fmt.Sprintf("%+d", o1) + "], [i" + fmt.Sprintf("%+d", o2) + "] does not visit every consecutive pair of path nodes (0..len-2)"
						}
					}
				}
				if rs, ok := h.loop.(*ast.RangeStmt); ok && !okPairs && h.msg == "" {
					// idiom B: for _, n := range X[1:] { …neighbors[prev][n.ID()]…; prev = n.ID() } with prev := X[0].ID()
					if se, ok := unparen(rs.X).(*ast.SliceExpr); ok && se.High == nil && rs.Value != nil {
						lowOne := false
						if k, ok := constInt(info, se.Low); ok && k == 1 {
							lowOne = true
						}
						cur := objOf(info, rs.Value)
						prev := objOf(info, kx)
						curID := idOf(ky)
						isCur := curID != nil && objOf(info, curID) == cur
						// prev initialised from X[0].ID() before the loop, reassigned to the current id as last statement
						initOK, stepOK := false, false
						if prev != nil {
							for _, d := range sc.defs[prev] {
								if d == nil {
									continue
								}
								if x := idOf(d); x != nil {
									if ix, ok := x.(*ast.IndexExpr); ok && sameExpr(info, ix.X, se.X) {
										if k, ok := constInt(info, ix.Index); ok && k == 0 && d.Pos() < rs.Pos() {
											initOK = true
										}
									}
								}
							}
							if n := len(body.List); n > 0 {
								if as, ok := body.List[n-1].(*ast.AssignStmt); ok && len(as.Lhs) == 1 && objOf(info, as.Lhs[0]) == prev && as.Tok == token.ASSIGN {
									if x := idOf(as.Rhs[0]); x != nil && objOf(info, x) == cur {
										stepOK = true
									} else if o := objOf(info, as.Rhs[0]); o != nil && o == objOf(info, ky) {
										stepOK = true
									}
								}
							}
						}
						if lowOne && isCur && initOK && stepOK {
							okPairs = true
						}
					}
				}
				if !okPairs && h.msg == "" {
					h.msg = "?the way the loop pairs consecutive path nodes is not one of the recognised forms (nodes[i], nodes[i+1] over 0..len-2; or range over nodes[1:] with the previous node carried along)"
				}
			}
			return false
		})
	}
	search(sfd, 0)
	msg := ""
	switch {
	case hit == nil:
		msg = "no loop turning the node path into links and totals found in ShortestRoute or its helpers"
	case hit.msg != "":
		msg = hit.msg
	default:
		// the accumulated values are what ShortestRoute reports: either they are its named results, or the
		// helper returns them and ShortestRoute assigns the call to (route, distance, time); nothing else writes them
		results := map[string]types.Object{}
		for _, rv := range resultVars(info, sfd.Type) {
			if rv != nil {
				results[rv.Name()] = rv
			}
		}
		var target [3]types.Object // route, distance, time results of ShortestRoute
		for _, rv := range resultVars(info, sfd.Type) {
			if rv == nil {
				continue
			}
			switch {
			case isNamed(rv.Type(), modPath, "MultiLineString"):
				target[0] = rv
			case rv.Name() == "distance":
				target[1] = rv
			case rv.Name() == "time":
				target[2] = rv
			}
		}
		var writer ast.Node // the statement in ShortestRoute that legitimately writes the three results
		if hit.fd == sfd {
			if hit.route != target[0] || hit.dist != target[1] || hit.tim != target[2] {
				msg = "the loop accumulates into variables that are not ShortestRoute's route/distance/time results"
			}
			writer = hit.loop
		} else {
			// helper: returns (route, dist, time) in that order; ShortestRoute assigns them in that order
			order := [3]types.Object{hit.route, hit.dist, hit.tim}
			okRet := false
			ast.Inspect(hit.fd.Body, func(n ast.Node) bool {
				if r, ok := n.(*ast.ReturnStmt); ok && len(r.Results) == 3 && r.Pos() > hit.loop.End() {
					if objOf(info, r.Results[0]) == order[0] && objOf(info, r.Results[1]) == order[1] && objOf(info, r.Results[2]) == order[2] {
						okRet = true
					}
				}
				return true
			})
			if !okRet {
				hr := resultVars(info, hit.fd.Type)
				if len(hr) == 3 && hr[0] == order[0] && hr[1] == order[1] && hr[2] == order[2] {
					okRet = true
				}
			}
			if !okRet {
				msg = "the helper does not return the accumulated route, distance and time (in that order)"
			}
			ast.Inspect(sfd.Body, func(n ast.Node) bool {
				as, ok := n.(*ast.AssignStmt)
				if !ok || len(as.Rhs) != 1 || len(as.Lhs) != 3 {
					return true
				}
				if call, ok := unparen(as.Rhs[0]).(*ast.CallExpr); ok && c.P.Decl(callee(info, call)) == hit.fd {
					if objOf(info, as.Lhs[0]) == target[0] && objOf(info, as.Lhs[1]) == target[1] && objOf(info, as.Lhs[2]) == target[2] {
						writer = as
					}
				}
				return true
			})
			if writer == nil && msg == "" {
				msg = "ShortestRoute does not assign the helper's (route, distance, time) to its results in that order"
			}
		}
		if msg == "" {
			ast.Inspect(sfd.Body, func(n ast.Node) bool {
				as, ok := n.(*ast.AssignStmt)
				if !ok || n == writer || (writer != nil && as.Pos() >= writer.Pos() && as.End() <= writer.End()) {
					return true
				}
				for _, lh := range as.Lhs {
					if o := objOf(info, lh); o != nil && (o == target[0] || o == target[1] || o == target[2]) && msg == "" {
						msg = "`" + src(as) + "` overwrites `" + o.Name() + "` outside the loop over the route's links: the reported total is no longer the sum over the returned links (for unconnected nodes the search cost is +Inf while the route is empty)"
					}
				}
				return true
			})
		}
	}
	switch {
	case msg == "":
		c.OK("C19.R3", c.P.FuncName(sr)+"#totals", sfd.Pos(), "every consecutive pair of path nodes; the looked-up link is appended and its %s and %s are summed into the reported totals, which nothing else writes", lengthField, timeField)
	case strings.HasPrefix(msg, "?"):
		c.Unk("C19.R3", c.P.FuncName(sr)+"#totals", sfd.Pos(), "%s", msg[1:])
	default:
		c.Bad("C19.R3", c.P.FuncName(sr)+"#totals", sfd.Pos(), "%s", msg)
	}
}

func c19symmetric(c *Ctx, info *types.Info, p *pkgT) {
	n := 0
	for _, fn := range c.P.RepoFuncs() {
		if c.P.DeclPkg(fn) != p {
			continue
		}
		fd := c.P.Decl(fn)
		ast.Inspect(fd.Body, func(nd ast.Node) bool {
			blk, ok := nd.(*ast.BlockStmt)
			if !ok {
				return true
			}
			type st struct {
				m, a, b, v ast.Expr
				pos        token.Pos
			}
			var stores []st
			for _, s := range blk.List {
				as, ok := s.(*ast.AssignStmt)
				if !ok || len(as.Lhs) != 1 || len(as.Rhs) != 1 {
					continue
				}
				o, ok := unparen(as.Lhs[0]).(*ast.IndexExpr)
				if !ok {
					continue
				}
				in, ok := unparen(o.X).(*ast.IndexExpr)
				if !ok {
					continue
				}
				if _, isMap := info.TypeOf(in.X).Underlying().(*types.Map); !isMap {
					continue
				}
				stores = append(stores, st{in.X, in.Index, o.Index, as.Rhs[0], as.Pos()})
			}
			for _, s := range stores {
				n++
				paired := false
				for _, t := range stores {
					if sameExpr(info, s.m, t.m) && sameExpr(info, s.a, t.b) && sameExpr(info, s.b, t.a) && sameExpr(info, s.v, t.v) {
						paired = true
					}
				}
				cons := c.P.FuncName(fn) + "#link:" + src(s.m) + "[" + src(s.a) + "][" + src(s.b) + "]"
				if paired {
					c.OK("C19.R4", cons, s.pos, "mirrored")
				} else {
					c.Bad("C19.R4", cons, s.pos, "the link is stored for %s→%s but not for %s→%s: links are two-way, a route in the other direction would not find it", src(s.a), src(s.b), src(s.b), src(s.a))
				}
			}
			return true
		})
	}
	if n == 0 {
		c.Unk("C19.R4", "route#neighbor-stores", token.NoPos, "no adjacency stores found")
	}
}

// c19heuristicReturns: every return of the A* heuristic is a lower bound by construction.
func c19heuristicReturns(c *Ctx, info *types.Info, p *pkgT, h *types.Func, fd *ast.FuncDecl) {
	sc := newFnScope(info, fd.Body)
	ps := paramVars(info, fd.Type)
	mentions := func(e ast.Expr, o types.Object) bool {
		found := false
		ast.Inspect(e, func(n ast.Node) bool {
			if id, ok := n.(*ast.Ident); ok && info.ObjectOf(id) == o {
				found = true
			}
			return !found
		})
		return found
	}
	// straight: op.Distance(point of x, point of y)
	var straight func(e ast.Expr, depth int) bool
	straight = func(e ast.Expr, depth int) bool {
		e = unparen(e)
		if depth > 3 {
			return false
		}
		if call, ok := e.(*ast.CallExpr); ok {
			if isFuncIn(callee(info, call), modPath+"/op", "Distance") && len(call.Args) == 2 && len(ps) == 2 && ps[0] != nil && ps[1] != nil {
				return (mentions(call.Args[0], ps[0]) && mentions(call.Args[1], ps[1])) || (mentions(call.Args[0], ps[1]) && mentions(call.Args[1], ps[0]))
			}
			return false
		}
		if o := objOf(info, e); o != nil {
			ds := sc.defs[o]
			if len(ds) == 0 {
				return false
			}
			for _, d := range ds {
				if d == nil || !straight(d, depth+1) {
					return false
				}
			}
			return true
		}
		return false
	}
	kind := func(e ast.Expr) string {
		e = unparen(e)
		if v := constOf(info, e); v != nil && v.String() == "0" {
			return "zero"
		}
		if straight(e, 0) {
			return "distance"
		}
		if b, ok := e.(*ast.BinaryExpr); ok && b.Op == token.QUO && straight(b.X, 0) {
			if sel, ok := unparen(b.Y).(*ast.SelectorExpr); ok {
				if sl := info.Selections[sel]; sl != nil {
					if v, ok := sl.Obj().(*types.Var); ok && v.IsField() {
						return "time" // the divisor field is judged by the running-maximum obligation
					}
				}
			}
		}
		return ""
	}
	n := 0
	ast.Inspect(fd.Body, func(nd ast.Node) bool {
		if _, ok := nd.(*ast.FuncLit); ok {
			return false
		}
		r, ok := nd.(*ast.ReturnStmt)
		if !ok || len(r.Results) != 1 {
			return true
		}
		n++
		cons := fmt.Sprintf("%s#return:%s", c.P.FuncName(h), src(r.Results[0]))
		k := kind(r.Results[0])
		// which minimisation option is this return under?
		opt := c19option(info, p, fd, r)
		switch {
		case k == "":
			c.Bad("C19.R2", cons, r.Pos(), "the heuristic returns `%s`, which is not 0, the straight-line distance between the two nodes, or that distance over the maximum speed: nothing makes it a lower bound of the cheapest route's cost (a direct link's own weight, for example, exceeds a cheaper detour), so A* may settle the destination through a non-minimal route", src(r.Results[0]))
		case k == "zero":
			c.OK("C19.R2", cons, r.Pos(), "0 is a lower bound")
		case k == "distance" && opt == "Distance":
			c.OK("C19.R2", cons, r.Pos(), "minimising distance: the straight line is no longer than any chain of links")
		case k == "time" && opt == "Time":
			c.OK("C19.R2", cons, r.Pos(), "minimising time: straight-line distance over the maximum speed")
		case k == "distance" && opt == "Time":
			c.Bad("C19.R2", cons, r.Pos(), "when minimising time the heuristic returns a distance: for speeds above 1 it exceeds the true remaining time")
		case k == "time" && opt == "Distance":
			c.Bad("C19.R2", cons, r.Pos(), "when minimising distance the heuristic returns distance/speed: for maximum speeds below 1 it exceeds the true remaining distance")
		default:
			c.Unk("C19.R2", cons, r.Pos(), "return `%s` (%s) is not under a case of the minimisation option: cannot tell which cost it must bound", src(r.Results[0]), k)
		}
		return true
	})
	if n == 0 {
		c.Unk("C19.R2", c.P.FuncName(h)+"#returns", fd.Pos(), "the heuristic has no return statement")
	}
}

// c19queryPure: ShortestRoute and everything it reaches in the package leave the network untouched.
func c19queryPure(c *Ctx, info *types.Info, p *pkgT, netT *types.Named) {
	sr := c.P.Method("route", "Network", "ShortestRoute")
	if sr == nil || c.P.Decl(sr) == nil {
		c.Unk("C19.R5", "route.(Network).ShortestRoute", token.NoPos, "API anchor does not resolve")
		return
	}
	seen := map[*types.Func]bool{}
	var order []*types.Func
	var visit func(f *types.Func)
	visit = func(f *types.Func) {
		if f == nil || seen[f] || c.P.Decl(f) == nil || c.P.DeclPkg(f) != p {
			return
		}
		seen[f] = true
		order = append(order, f)
		ast.Inspect(c.P.Decl(f).Body, func(n ast.Node) bool {
			switch x := n.(type) {
			case *ast.CallExpr:
				visit(callee(info, x))
			case *ast.SelectorExpr:
				// method values such as net.costHeuristic handed to the search
				if sl := info.Selections[x]; sl != nil && sl.Kind() == types.MethodVal {
					if m, ok := sl.Obj().(*types.Func); ok {
						visit(m)
					}
				}
			}
			return true
		})
	}
	visit(sr)
	// the graph adapter methods gonum calls back
	if ms := types.NewMethodSet(types.NewPointer(netT)); ms != nil {
		for i := 0; i < ms.Len(); i++ {
			if m, ok := ms.At(i).Obj().(*types.Func); ok {
				switch m.Name() {
				case "Weight", "From", "Edge", "Node", "Nodes", "HasEdgeBetween", "Has":
					visit(m)
				}
			}
		}
	}
	nWrites := 0
	for _, f := range order {
		fd := c.P.Decl(f)
		recv := receiverVar(info, fd)
		rootIsState := func(e ast.Expr) (string, bool) {
			for {
				switch x := unparen(e).(type) {
				case *ast.SelectorExpr:
					if o := objOf(info, x.X); o != nil && o == recv && recv != nil && named(recv.Type()) == netT {
						return src(x), true
					}
					e = x.X
					continue
				case *ast.IndexExpr:
					e = x.X
					continue
				case *ast.StarExpr:
					e = x.X
					continue
				case *ast.Ident:
					if v, ok := objOf(info, x).(*types.Var); ok && v.Pkg() != nil && v.Parent() == v.Pkg().Scope() {
						return "package-level " + v.Name(), true
					}
				}
				return "", false
			}
		}
		ast.Inspect(fd.Body, func(n ast.Node) bool {
			var lhs []ast.Expr
			switch x := n.(type) {
			case *ast.AssignStmt:
				if x.Tok == token.DEFINE {
					return true
				}
				lhs = x.Lhs
			case *ast.IncDecStmt:
				lhs = []ast.Expr{x.X}
			case *ast.CallExpr:
				if builtinName(info, x) == "delete" && len(x.Args) > 0 {
					lhs = []ast.Expr{x.Args[0]}
				}
			}
			for _, l := range lhs {
				if what, ok := rootIsState(l); ok {
					nWrites++
					c.Unk("C19.R5", fmt.Sprintf("%s#writes:%s", c.P.FuncName(f), what), l.Pos(), "`%s` is executed while answering a query and changes %s: the route returned may then depend on which queries were asked before (a search tree computed for one destination is final only for that destination), which this analysis cannot exclude", strings.SplitN(src(n), "\n", 2)[0], what)
				}
			}
			return true
		})
	}
	if nWrites == 0 {
		c.OK("C19.R5", "route.(Network).ShortestRoute#no-writes", c.P.Decl(sr).Pos(), "%d functions reachable from the query; none assigns to the network or to package-level state", len(order))
	}
}

// c19option tells under which minimisation option a node of fd executes: the constant named in an
// enclosing case clause, or in the condition of an enclosing `if X == Const` (node in the body) /
// `if X != Const` (node in the else branch).  "" when neither.
func c19option(info *types.Info, p *pkgT, fd *ast.FuncDecl, n ast.Node) string {
	timeC, distC := p.Types.Scope().Lookup("Time"), p.Types.Scope().Lookup("Distance")
	name := func(o types.Object) string {
		switch o {
		case timeC:
			return "Time"
		case distC:
			return "Distance"
		}
		return ""
	}
	opt := ""
	for _, anc := range enclosing(fd.Body, n) {
		switch x := anc.(type) {
		case *ast.CaseClause:
			for _, e := range x.List {
				if nm := name(objOf(info, e)); nm != "" {
					opt += nm
				}
			}
		case *ast.IfStmt:
			b, ok := unparen(x.Cond).(*ast.BinaryExpr)
			if !ok || (b.Op != token.EQL && b.Op != token.NEQ) {
				continue
			}
			nm := name(objOf(info, b.Y))
			if nm == "" {
				nm = name(objOf(info, b.X))
			}
			if nm == "" {
				continue
			}
			inBody := containsNode(x.Body, n)
			inElse := x.Else != nil && containsNode(x.Else, n)
			if (b.Op == token.EQL && inBody) || (b.Op == token.NEQ && inElse) {
				opt += nm
			}
		}
	}
	return opt
}
