package main

// C10 — reprojection is pointwise, history-independent, structure-preserving.
//
// Geometry side (package geom, transform.go):
// R3  error-before-use in all eight Transform methods.
// R4  structure: nil transformer returns the receiver; otherwise a fresh value,
//     filled by out[i] = t(in[i]) over the full range, X→X/Y→Y through the
//     transformer, receiver elements never written.
// Projection side (package proj): R1 (no per-call state survives) and R2
// (constant index needs a length guard) live in c10proj.go.

import (
	"go/ast"
	"go/token"
	"go/types"
)

func init() { register("C10", true, checkC10) }

func checkC10(c *Ctx) {
	c.Rule("C10.R3", "the geometry returned with an error by a member Transform is not type-asserted/indexed/returned-with-nil-error before the error is tested")
	c.Rule("C10.R4", "Transform, evaluated on small geometries with a host transformer T: t==nil returns the receiver; otherwise a value of the receiver's shape and type whose i-th vertex is T(i-th vertex), in fresh storage, the receiver untouched, T called once per vertex in storage order (*Bounds → its four corners as a ring); a failure of T at any vertex comes back as a non-nil error and nothing panics")
	pk := c.P.Pkg("geom")
	info := pk.TypesInfo
	for _, tn := range geomTypes {
		m := c.P.Method("geom", tn, "Transform")
		fd := c.P.Decl(m)
		if fd == nil {
			c.Unk("C10.R3", "geom."+tn+".Transform", token.NoPos, "API anchor does not resolve")
			continue
		}
		name := c.P.FuncName(m)
		bad, tracked, unsup := errBeforeUse(info, fd.Body, fd.Type)
		if len(unsup) > 0 {
			c.Unk("C10.R3", name, unsup[0].Pos(), "unsupported control flow `%s`", src(unsup[0]))
		} else if len(bad) > 0 {
			b := bad[0]
			c.Bad("C10.R3", name, b.Node.Pos(), "%s of `%s` (`%s`) on a path where `%s` has not been tested: a failing vertex makes the member result nil and this panics instead of returning the error", b.Kind, b.Var.Name(), src(b.Node), b.Err.Name())
		} else {
			c.OK("C10.R3", name, fd.Pos(), "%d (value, err) pairs tracked, none used before the error test", tracked)
		}
	}
	c10model(c, "C10.R4")
	c.Floor("C10.R3", 8)
	c.Floor("C10.R4", 8)
	c10proj(c)
}

func isTransformerType(t types.Type) bool {
	return isNamed(t, modPath+"/proj", "Transformer")
}

func c10structure(c *Ctx, info *types.Info, tn string, m *types.Func, fd *ast.FuncDecl) {
	name := c.P.FuncName(m)
	recv := receiverVar(info, fd)
	params := paramVars(info, fd.Type)
	if recv == nil || len(params) != 1 || params[0] == nil || !isTransformerType(params[0].Type()) {
		c.Unk("C10.R4", name, fd.Pos(), "unexpected signature")
		return
	}
	t := params[0]
	sc := newFnScope(info, fd.Body)
	var problems []string
	var ppos token.Pos = fd.Pos()
	prob := func(pos token.Pos, f string) {
		if len(problems) == 0 {
			ppos = pos
		}
		problems = append(problems, f)
	}
	// (a) path facts: t==nil / t!=nil at returns
	nilReturns, nonNilOKReturns := 0, 0
	cl := &FactsClient{}
	cl.OnBranch = func(cond ast.Expr, truth bool, s Facts) Facts {
		for _, at := range conjuncts(cond, truth) {
			if b, ok := unparen(at.E).(*ast.BinaryExpr); ok && (b.Op == token.EQL || b.Op == token.NEQ) {
				var o types.Object
				if isNilConst(info, b.Y) {
					o = objOf(info, b.X)
				} else if isNilConst(info, b.X) {
					o = objOf(info, b.Y)
				}
				if o == t {
					isNil := (b.Op == token.EQL) == at.Truth
					if isNil {
						s["tnil"] = true
					} else {
						s["tnonnil"] = true
					}
				}
			}
		}
		return s
	}
	seen := map[*ast.ReturnStmt]bool{}
	cl.OnReturn = func(r *ast.ReturnStmt, s Facts) {
		if r == nil || seen[r] {
			return
		}
		seen[r] = true
		if len(r.Results) == 1 {
			// delegation: return x.Transform(t)
			if s["tnil"] {
				prob(r.Pos(), "nil transformer is not answered with the receiver itself")
			} else if s["tnonnil"] {
				nonNilOKReturns++
				c10delegation(c, info, sc, recv, t, r, prob)
			} else {
				prob(r.Pos(), "return reached without testing the transformer for nil")
			}
			return
		}
		if len(r.Results) != 2 {
			prob(r.Pos(), "unexpected result arity")
			return
		}
		if s["tnil"] {
			nilReturns++
			if objOf(info, r.Results[0]) != recv || !isNilConst(info, r.Results[1]) {
				prob(r.Pos(), "nil transformer must return (receiver, nil), got `"+src(r)+"`")
			}
			return
		}
		if !s["tnonnil"] {
			prob(r.Pos(), "return `"+src(r)+"` reached without testing the transformer for nil (a nil transformer would be called)")
			return
		}
		if isNilConst(info, r.Results[0]) {
			return // error path
		}
		nonNilOKReturns++
		o := objOf(info, r.Results[0])
		if o == recv {
			prob(r.Pos(), "non-nil transformer returns the receiver itself")
			return
		}
		if o == nil {
			prob(r.Pos(), "result `"+src(r.Results[0])+"` is not a local fresh value")
			return
		}
		fresh := false
		for _, d := range sc.defs[o] {
			if d == nil {
				continue
			}
			switch x := unparen(d).(type) {
			case *ast.CallExpr:
				if builtinName(info, x) == "make" {
					fresh = true
					// make(T, len(recv))
					if len(x.Args) >= 2 {
						a := sc.aff(x.Args[1])
						if !(a.ok && a.K == 0 && a.Of != nil && objOf(info, a.Of) == recv) {
							prob(x.Pos(), "result allocated with length `"+src(x.Args[1])+"`, not len(receiver)")
						}
					}
					if rt := info.TypeOf(x.Args[0]); rt != nil && !types.Identical(rt, recv.Type()) {
						prob(x.Pos(), "result type "+typeName(rt)+" differs from receiver type "+typeName(recv.Type()))
					}
				}
			case *ast.CompositeLit:
				fresh = true
				if rt := info.TypeOf(x); rt != nil && !types.Identical(rt, recv.Type()) {
					prob(x.Pos(), "result type "+typeName(rt)+" differs from receiver type")
				}
			}
		}
		if !fresh {
			prob(r.Pos(), "result `"+o.Name()+"` is not freshly allocated in this call")
		}
	}
	fl := &Flow[Facts]{C: cl, Info: info}
	fl.Run(fd.Body, Facts{})
	if len(fl.Unsupported) > 0 {
		c.Unk("C10.R4", name, fl.Unsupported[0].Pos(), "unsupported control flow")
		return
	}
	if nilReturns == 0 {
		prob(fd.Pos(), "no `t == nil` path returning the receiver")
	}
	if nonNilOKReturns == 0 {
		prob(fd.Pos(), "no success return for a non-nil transformer")
	}
	// (b) no store into the receiver
	ast.Inspect(fd.Body, func(n ast.Node) bool {
		switch n := n.(type) {
		case *ast.AssignStmt:
			for _, l := range n.Lhs {
				if _, isId := unparen(l).(*ast.Ident); isId {
					continue
				}
				if rootObj(info, l) == recv {
					prob(n.Pos(), "store into the receiver: `"+src(n)+"`")
				}
			}
		case *ast.IncDecStmt:
			if rootObj(info, n.X) == recv {
				prob(n.Pos(), "store into the receiver")
			}
		}
		return true
	})
	// (c) transformer calls: (w.X, w.Y, err) = t(v.X, v.Y)
	ast.Inspect(fd.Body, func(n ast.Node) bool {
		as, ok := n.(*ast.AssignStmt)
		if !ok || len(as.Rhs) != 1 {
			return true
		}
		call, ok := unparen(as.Rhs[0]).(*ast.CallExpr)
		if !ok || objOf(info, call.Fun) != t {
			return true
		}
		if len(call.Args) != 2 || len(as.Lhs) != 3 {
			prob(as.Pos(), "transformer call shape not recognised")
			return true
		}
		ax, ay := selParts(info, call.Args[0]), selParts(info, call.Args[1])
		lx, ly := selParts(info, as.Lhs[0]), selParts(info, as.Lhs[1])
		if ax.obj == nil || ax.obj != ay.obj || ax.field != "X" || ay.field != "Y" {
			prob(call.Pos(), "transformer called as `"+src(call)+"`, want t(v.X, v.Y) of one input vertex")
		}
		if lx.obj == nil || lx.obj != ly.obj || lx.field != "X" || ly.field != "Y" {
			prob(as.Pos(), "transformer results stored as `"+src(as)+"`, want (w.X, w.Y, err)")
		}
		return true
	})
	// (d) identity-index copy for slice receivers
	if _, isSlice := recv.Type().Underlying().(*types.Slice); isSlice {
		c10copy(c, info, sc, recv, fd, prob)
	}
	if len(problems) == 0 {
		c.OK("C10.R4", name, fd.Pos(), "nil→receiver, fresh result, identity copy, receiver untouched")
	} else {
		c.Bad("C10.R4", name, ppos, "%s", problems[0])
	}
}

type selPart struct {
	obj   types.Object
	field string
}

func selParts(info *types.Info, e ast.Expr) selPart {
	if sel, ok := unparen(e).(*ast.SelectorExpr); ok {
		return selPart{objOf(info, sel.X), sel.Sel.Name}
	}
	return selPart{}
}

// rootObj returns the variable at the root of an lvalue like x[i].f[j].
func rootObj(info *types.Info, e ast.Expr) types.Object {
	for {
		e = unparen(e)
		switch x := e.(type) {
		case *ast.IndexExpr:
			e = x.X
		case *ast.SelectorExpr:
			if _, isPkg := info.Uses[identOf(x.X)].(*types.PkgName); isPkg {
				return nil
			}
			e = x.X
		case *ast.StarExpr:
			e = x.X
		case *ast.SliceExpr:
			e = x.X
		case *ast.Ident:
			return objOf(info, x)
		default:
			return nil
		}
	}
}

func identOf(e ast.Expr) *ast.Ident {
	id, _ := unparen(e).(*ast.Ident)
	return id
}

// c10delegation handles `return x.Transform(t)`: x must be a fresh value built
// from the receiver (today: *Bounds → rectangle Polygon), t passed unchanged.
func c10delegation(c *Ctx, info *types.Info, sc *fnScope, recv, t types.Object, r *ast.ReturnStmt, prob func(token.Pos, string)) {
	call, ok := unparen(r.Results[0]).(*ast.CallExpr)
	if !ok {
		prob(r.Pos(), "single-result return is not a delegation call")
		return
	}
	f := callee(info, call)
	if f == nil || f.Name() != "Transform" || len(call.Args) != 1 || objOf(info, call.Args[0]) != t {
		prob(r.Pos(), "delegation does not pass the transformer to a Transform method")
		return
	}
	sel, _ := unparen(call.Fun).(*ast.SelectorExpr)
	if sel == nil {
		prob(r.Pos(), "delegation shape not recognised")
		return
	}
	o := objOf(info, sel.X)
	var lit *ast.CompositeLit
	if o != nil {
		if d := sc.singleDef(o); d != nil {
			var linfo *types.Info
			var lrecv types.Object
			if lit, linfo, lrecv = litThroughHelper(c.P, info, d, recv); lit != nil {
				info, recv = linfo, lrecv
			}
		}
	} else {
		var linfo *types.Info
		var lrecv types.Object
		if lit, linfo, lrecv = litThroughHelper(c.P, info, sel.X, recv); lit != nil {
			info, recv = linfo, lrecv
		}
	}
	if lit == nil {
		prob(r.Pos(), "delegate receiver is not a fresh composite literal")
		return
	}
	if !isNamed(info.TypeOf(lit), modPath, "Polygon") {
		prob(lit.Pos(), "a *Bounds must become a Polygon")
		return
	}
	if msg := rectangleRing(info, lit, recv); msg != "" {
		prob(lit.Pos(), msg)
	}
}

// rectangleRing checks that a Polygon literal {{c0,c1,c2,c3}} lists the four
// corners of bounds b in ring order.  Returns "" when it does.
func rectangleRing(info *types.Info, lit *ast.CompositeLit, b types.Object) string {
	if len(lit.Elts) != 1 {
		return "rectangle polygon must have exactly one ring"
	}
	ring, ok := unparen(lit.Elts[0]).(*ast.CompositeLit)
	if !ok || len(ring.Elts) < 4 || len(ring.Elts) > 5 {
		return "rectangle ring must list 4 (or 5, closed) corners"
	}
	type corner struct{ x, y string }
	var cs []corner
	side := func(e ast.Expr, axis string) string {
		// b.Min.X / b.Max.X
		s1, ok := unparen(e).(*ast.SelectorExpr)
		if !ok || s1.Sel.Name != axis {
			return ""
		}
		s2, ok := unparen(s1.X).(*ast.SelectorExpr)
		if !ok || objOf(info, s2.X) != b {
			return ""
		}
		return s2.Sel.Name
	}
	for _, e := range ring.Elts {
		e = unparen(e)
		if s, ok := e.(*ast.SelectorExpr); ok && objOf(info, s.X) == b && (s.Sel.Name == "Min" || s.Sel.Name == "Max") {
			cs = append(cs, corner{s.Sel.Name, s.Sel.Name})
			continue
		}
		cl, ok := e.(*ast.CompositeLit)
		if !ok || len(cl.Elts) != 2 {
			return "corner `" + src(e) + "` not recognised"
		}
		var xe, ye ast.Expr
		for i, el := range cl.Elts {
			if kv, ok := el.(*ast.KeyValueExpr); ok {
				switch src(kv.Key) {
				case "X":
					xe = kv.Value
				case "Y":
					ye = kv.Value
				}
			} else if i == 0 {
				xe = el
			} else {
				ye = el
			}
		}
		if xe == nil || ye == nil {
			return "corner `" + src(e) + "` not recognised"
		}
		cx, cy := side(xe, "X"), side(ye, "Y")
		if cx == "" || cy == "" {
			return "corner `" + src(e) + "` does not take X from an X bound and Y from a Y bound of the receiver"
		}
		cs = append(cs, corner{cx, cy})
	}
	if len(cs) == 5 {
		if cs[4] != cs[0] {
			return "fifth corner does not close the ring"
		}
		cs = cs[:4]
	}
	seen := map[corner]bool{}
	for i, k := range cs {
		if seen[k] {
			return "corner repeated: the ring does not visit all four corners"
		}
		seen[k] = true
		n := cs[(i+1)%4]
		if (k.x != n.x) == (k.y != n.y) {
			return "consecutive corners are not adjacent (ring would self-intersect)"
		}
	}
	return ""
}

// c10copy: every store into the result structure uses the indices of enclosing
// full-range loops over the corresponding receiver level, and stores a value
// derived from that element.
func c10copy(c *Ctx, info *types.Info, sc *fnScope, recv types.Object, fd *ast.FuncDecl, prob func(token.Pos, string)) {
	copyLoops(info, sc, recv, fd, false, prob)
}

// copyLoops checks an element-wise copy from the nested collection src into a
// fresh structure.  With closing=true each member is allocated one slot longer
// and that slot must receive the member's first element (ring closing);
// it returns whether the closing store was seen.
func copyLoops(info *types.Info, sc *fnScope, recv types.Object, fd *ast.FuncDecl, closing bool, prob func(token.Pos, string)) (closed bool) {
	type frame struct {
		l    *Loop
		over ast.Expr // collection iterated
	}
	stores := 0
	var walk func(n ast.Node, stack []frame)
	walk = func(n ast.Node, stack []frame) {
		switch n := n.(type) {
		case nil:
			return
		case *ast.FuncLit:
			return
		case *ast.RangeStmt, *ast.ForStmt:
			var body *ast.BlockStmt
			st := n.(ast.Stmt)
			l := sc.loopOf(st)
			if rs, ok := n.(*ast.RangeStmt); ok {
				body = rs.Body
			} else {
				body = n.(*ast.ForStmt).Body
			}
			if l == nil {
				prob(n.Pos(), "loop not recognised as a counting loop")
				return
			}
			// the loop must cover the receiver (level 0) or the element of the enclosing loop
			var want ast.Expr
			if len(stack) == 0 {
				want = &ast.Ident{Name: recv.Name()}
				if !(l.Lo.ok && l.Lo.Of == nil && l.Lo.K == 0 && l.Hi.ok && l.Hi.K == 0 && l.Hi.Of != nil && objOf(info, l.Hi.Of) == recv) {
					prob(n.Pos(), "outer loop "+l.String()+" does not cover every member of the receiver")
				}
			} else {
				outer := stack[len(stack)-1].l
				okCover := false
				if l.Lo.ok && l.Lo.Of == nil && l.Lo.K == 0 && l.Hi.ok && l.Hi.K == 0 && l.Hi.Of != nil {
					if outer.Val != nil && objOf(info, l.Hi.Of) == outer.Val {
						okCover = true
					}
					if ix, ok := unparen(l.Hi.Of).(*ast.IndexExpr); ok && outer.Idx != nil && objOf(info, ix.Index) == outer.Idx && rootObj(info, ix.X) == recv {
						okCover = true
					}
				}
				if !okCover {
					prob(n.Pos(), "inner loop "+l.String()+" does not cover every vertex of the current member")
				}
			}
			_ = want
			brk, cont, _ := earlyExits(body)
			if len(brk)+len(cont) > 0 {
				prob(n.Pos(), "copy loop has break/continue: some members may be skipped")
			}
			for _, s := range body.List {
				walk(s, append(stack, frame{l: l}))
			}
			return
		case *ast.AssignStmt:
			for i, lh := range n.Lhs {
				ix, ok := unparen(lh).(*ast.IndexExpr)
				if !ok {
					continue
				}
				root := rootObj(info, ix)
				if root == nil || root == recv {
					continue
				}
				if _, isParam := root.(*types.Var); !isParam {
					continue
				}
				// collect index chain
				var idxs []ast.Expr
				e := ast.Expr(ix)
				for {
					x, ok := unparen(e).(*ast.IndexExpr)
					if !ok {
						break
					}
					idxs = append([]ast.Expr{x.Index}, idxs...)
					e = x.X
				}
				stores++
				if closing && len(idxs) == len(stack)+1 && len(stack) >= 1 && len(n.Rhs) == len(n.Lhs) {
					// out[i][len(elem)] = out[i][0]
					fr := stack[len(stack)-1]
					last := sc.aff(idxs[len(idxs)-1])
					okIdx := last.ok && last.K == 0 && last.Of != nil && ((fr.l.Val != nil && objOf(info, last.Of) == fr.l.Val) || isRecvElem(info, last.Of, recv, fr.l.Idx))
					okVal := false
					if vx, ok := unparen(n.Rhs[i]).(*ast.IndexExpr); ok {
						if k, ok := constInt(info, vx.Index); ok && k == 0 && sameExpr(info, vx.X, ix.X) {
							okVal = true
						}
					}
					okOuter := true
					for k, ie := range idxs[:len(idxs)-1] {
						if off, ok := sc.idxOffset(ie, stack[k].l.Idx); !ok || off != 0 {
							okOuter = false
						}
					}
					if okIdx && okVal && okOuter {
						closed = true
						continue
					}
					prob(n.Pos(), "closing store `"+src(n)+"` does not put the ring's first vertex into its last slot")
					continue
				}
				if len(idxs) > len(stack) {
					prob(n.Pos(), "store `"+src(lh)+"` is not inside loops over the corresponding receiver levels")
					continue
				}
				for k, ie := range idxs {
					fr := stack[k]
					if off, ok := sc.idxOffset(ie, fr.l.Idx); !ok || off != 0 {
						prob(n.Pos(), "store `"+src(lh)+"`: index `"+src(ie)+"` is not the loop index of level "+string(rune('0'+k))+" (vertex order/position not preserved)")
					}
				}
				// value provenance: must derive from the innermost element
				if len(n.Rhs) == len(n.Lhs) {
					val := n.Rhs[i]
					if call, ok := unparen(val).(*ast.CallExpr); ok && builtinName(info, call) == "make" {
						// inner allocation: make([]T, len(elem))
						if len(idxs) <= len(stack) && len(call.Args) >= 2 {
							fr := stack[len(idxs)-1]
							a := sc.aff(call.Args[1])
							wantK := int64(0)
							if closing {
								wantK = 1
							}
							okLen := a.ok && a.K == wantK && a.Of != nil && ((fr.l.Val != nil && objOf(info, a.Of) == fr.l.Val) || isRecvElem(info, a.Of, recv, fr.l.Idx))
							if !okLen && closing {
								prob(call.Pos(), "ring allocated with length `"+src(call.Args[1])+"`, want the contour's length + 1 (room for the repeated first vertex)")
							} else if !okLen {
								prob(call.Pos(), "member allocated with length `"+src(call.Args[1])+"`, not the member's own length")
							}
						}
						continue
					}
					fr := stack[len(idxs)-1]
					if !derivesFrom(info, sc, val, recv, fr.l, 0) {
						prob(n.Pos(), "value stored by `"+src(n)+"` does not derive from the element at the same index")
					}
				}
			}
			return
		case *ast.BlockStmt:
			for _, s := range n.List {
				walk(s, stack)
			}
			return
		case *ast.IfStmt:
			walk(n.Init, stack)
			walk(n.Body, stack)
			walk(n.Else, stack)
			return
		}
	}
	walk(fd.Body, nil)
	if stores == 0 {
		prob(fd.Pos(), "no store into the result structure found")
	}
	return closed
}

func isRecvElem(info *types.Info, e ast.Expr, recv types.Object, idx types.Object) bool {
	ix, ok := unparen(e).(*ast.IndexExpr)
	return ok && idx != nil && objOf(info, ix.Index) == idx && rootObj(info, ix.X) == recv
}

// derivesFrom: does val come from the loop's current element (range value or recv[idx])?
func derivesFrom(info *types.Info, sc *fnScope, val ast.Expr, recv types.Object, l *Loop, depth int) bool {
	if depth > 4 {
		return false
	}
	found := false
	ast.Inspect(val, func(n ast.Node) bool {
		if found {
			return false
		}
		switch n := n.(type) {
		case *ast.CallExpr:
			if b := builtinName(info, n); b == "len" || b == "cap" {
				return false // a length says nothing about the element's value
			}
		case *ast.Ident:
			o := objOf(info, n)
			if o == nil {
				return true
			}
			if l.Val != nil && o == l.Val {
				found = true
				return false
			}
			if o != recv {
				for _, d := range sc.defs[o] {
					if d != nil && derivesFrom(info, sc, d, recv, l, depth+1) {
						found = true
					}
				}
				// fields assigned individually: w.X, w.Y, err = t(v.X, v.Y)
				if !found {
					ast.Inspect(sc.body, func(m ast.Node) bool {
						as, ok := m.(*ast.AssignStmt)
						if !ok {
							return true
						}
						for _, lh := range as.Lhs {
							if sel, ok := unparen(lh).(*ast.SelectorExpr); ok && objOf(info, sel.X) == o {
								for _, r := range as.Rhs {
									if derivesFrom(info, sc, r, recv, l, depth+1) {
										found = true
									}
								}
							}
						}
						return !found
					})
				}
			}
		case *ast.IndexExpr:
			if isRecvElem(info, n, recv, l.Idx) {
				found = true
				return false
			}
		}
		return true
	})
	return found
}
