package main

// C10 — reprojection is pointwise, history-independent, structure-preserving.
//
// Geometry side (package geom, transform.go):
// R3  error-before-use in all eight Transform methods.
// R4  structure: nil transformer returns the receiver; otherwise a fresh value,
//     filled by out[i] = t(in[i]) over the full range, X→X/Y→Y through the
//     transformer, receiver elements never written.
// Projection side (package proj): R1 (no per-call state survives) and R2
// (constant index needs a length guard) live in c10proj.go.

import (
	"go/token"
	"go/types"
)

func init() { register("C10", true, checkC10) }

func checkC10(c *Ctx) {
	c.Rule("C10.R3", "the geometry returned with an error by a member Transform is not type-asserted/indexed/returned-with-nil-error before the error is tested")
	c.Rule("C10.R4", "Transform, evaluated on small geometries with a host transformer T: t==nil returns the receiver; otherwise a value of the receiver's shape and type whose i-th vertex is T(i-th vertex), in fresh storage, the receiver untouched, T called once per vertex in storage order (*Bounds → its four corners as a ring); a failure of T at any vertex comes back as a non-nil error and nothing panics")
	pk := c.P.Pkg("geom")
	info := pk.TypesInfo
	for _, tn := range geomTypes {
		m := c.P.Method("geom", tn, "Transform")
		fd := c.P.Decl(m)
		if fd == nil {
			c.Unk("C10.R3", "geom."+tn+".Transform", token.NoPos, "API anchor does not resolve")
			continue
		}
		name := c.P.FuncName(m)
		bad, tracked, unsup := errBeforeUse(info, fd.Body, fd.Type)
		if len(unsup) > 0 {
			c.Unk("C10.R3", name, unsup[0].Pos(), "unsupported control flow `%s`", src(unsup[0]))
		} else if len(bad) > 0 {
			b := bad[0]
			c.Bad("C10.R3", name, b.Node.Pos(), "%s of `%s` (`%s`) on a path where `%s` has not been tested: a failing vertex makes the member result nil and this panics instead of returning the error", b.Kind, b.Var.Name(), src(b.Node), b.Err.Name())
		} else {
			c.OK("C10.R3", name, fd.Pos(), "%d (value, err) pairs tracked, none used before the error test", tracked)
		}
	}
	c10model(c, "C10.R4")
	premiseEqual(c, "C10.R5", "whether a Transformer is the identity must depend on the two references, not on what an earlier use wrote into them")
	c.Floor("C10.R5", 9)
	c.Floor("C10.R3", 2)
	c.Floor("C10.R4", 8)
	c10proj(c)
	c08pipeModel(c, "", "", "C10.R1")
	c10members(c, "C10.R1")
	c09shiftModel(c, "", "C10.R1")
}

type selPart struct {
	obj   types.Object
	field string
}
