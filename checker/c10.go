package main

// C10 — reprojection is pointwise, history-independent, structure-preserving.
//
// Geometry side (package geom, transform.go):
// R3  error-before-use in all eight Transform methods.
// R4  structure: nil transformer returns the receiver; otherwise a fresh value,
//     filled by out[i] = t(in[i]) over the full range, X→X/Y→Y through the
//     transformer, receiver elements never written.
// Projection side (package proj): R1 (no per-call state survives) and R2
// (constant index needs a length guard) live in c10proj.go.

import (
	"go/ast"
	"go/token"
	"go/types"
)

func init() { register("C10", true, checkC10) }

func checkC10(c *Ctx) {
	c.Rule("C10.R3", "the geometry returned with an error by a member Transform is not type-asserted/indexed/returned-with-nil-error before the error is tested")
	c.Rule("C10.R4", "Transform, evaluated on small geometries with a host transformer T: t==nil returns the receiver; otherwise a value of the receiver's shape and type whose i-th vertex is T(i-th vertex), in fresh storage, the receiver untouched, T called once per vertex in storage order (*Bounds → its four corners as a ring); a failure of T at any vertex comes back as a non-nil error and nothing panics")
	pk := c.P.Pkg("geom")
	info := pk.TypesInfo
	for _, tn := range geomTypes {
		m := c.P.Method("geom", tn, "Transform")
		fd := c.P.Decl(m)
		if fd == nil {
			c.Unk("C10.R3", "geom."+tn+".Transform", token.NoPos, "API anchor does not resolve")
			continue
		}
		name := c.P.FuncName(m)
		bad, tracked, unsup := errBeforeUse(info, fd.Body, fd.Type)
		if len(unsup) > 0 {
			c.Unk("C10.R3", name, unsup[0].Pos(), "unsupported control flow `%s`", src(unsup[0]))
		} else if len(bad) > 0 {
			b := bad[0]
			c.Bad("C10.R3", name, b.Node.Pos(), "%s of `%s` (`%s`) on a path where `%s` has not been tested: a failing vertex makes the member result nil and this panics instead of returning the error", b.Kind, b.Var.Name(), src(b.Node), b.Err.Name())
		} else {
			c.OK("C10.R3", name, fd.Pos(), "%d (value, err) pairs tracked, none used before the error test", tracked)
		}
	}
	c10model(c, "C10.R4")
	c.Floor("C10.R3", 5)
	c.Floor("C10.R4", 8)
	c10proj(c)
	c08pipeModel(c, "", "", "C10.R1")
	c10members(c, "C10.R1")
	c09shiftModel(c, "", "C10.R1")
}

type selPart struct {
	obj   types.Object
	field string
}

// rootObj returns the variable at the root of an lvalue like x[i].f[j].
func rootObj(info *types.Info, e ast.Expr) types.Object {
	for {
		e = unparen(e)
		switch x := e.(type) {
		case *ast.IndexExpr:
			e = x.X
		case *ast.SelectorExpr:
			if _, isPkg := info.Uses[identOf(x.X)].(*types.PkgName); isPkg {
				return nil
			}
			e = x.X
		case *ast.StarExpr:
			e = x.X
		case *ast.SliceExpr:
			e = x.X
		case *ast.Ident:
			return objOf(info, x)
		default:
			return nil
		}
	}
}

func identOf(e ast.Expr) *ast.Ident {
	id, _ := unparen(e).(*ast.Ident)
	return id
}

// copyLoops checks an element-wise copy from the nested collection src into a
// fresh structure.  With closing=true each member is allocated one slot longer
// and that slot must receive the member's first element (ring closing);
// it returns whether the closing store was seen.
func copyLoops(info *types.Info, sc *fnScope, recv types.Object, fd *ast.FuncDecl, closing bool, prob func(token.Pos, string)) (closed bool) {
	type frame struct {
		l    *Loop
		over ast.Expr // collection iterated
	}
	stores := 0
	var walk func(n ast.Node, stack []frame)
	walk = func(n ast.Node, stack []frame) {
		switch n := n.(type) {
		case nil:
			return
		case *ast.FuncLit:
			return
		case *ast.RangeStmt, *ast.ForStmt:
			var body *ast.BlockStmt
			st := n.(ast.Stmt)
			l := sc.loopOf(st)
			if rs, ok := n.(*ast.RangeStmt); ok {
				body = rs.Body
			} else {
				body = n.(*ast.ForStmt).Body
			}
			if l == nil {
				prob(n.Pos(), "loop not recognised as a counting loop")
				return
			}
			// the loop must cover the receiver (level 0) or the element of the enclosing loop
			var want ast.Expr
			if len(stack) == 0 {
				want = &ast.Ident{Name: recv.Name()}
				if !(l.Lo.ok && l.Lo.Of == nil && l.Lo.K == 0 && l.Hi.ok && l.Hi.K == 0 && l.Hi.Of != nil && objOf(info, l.Hi.Of) == recv) {
					prob(n.Pos(), "outer loop "+l.String()+" does not cover every member of the receiver")
				}
			} else {
				outer := stack[len(stack)-1].l
				okCover := false
				if l.Lo.ok && l.Lo.Of == nil && l.Lo.K == 0 && l.Hi.ok && l.Hi.K == 0 && l.Hi.Of != nil {
					if outer.Val != nil && objOf(info, l.Hi.Of) == outer.Val {
						okCover = true
					}
					if ix, ok := unparen(l.Hi.Of).(*ast.IndexExpr); ok && outer.Idx != nil && objOf(info, ix.Index) == outer.Idx && rootObj(info, ix.X) == recv {
						okCover = true
					}
				}
				if !okCover {
					prob(n.Pos(), "inner loop "+l.String()+" does not cover every vertex of the current member")
				}
			}
			_ = want
			brk, cont, _ := earlyExits(body)
			if len(brk)+len(cont) > 0 {
				prob(n.Pos(), "copy loop has break/continue: some members may be skipped")
			}
			for _, s := range body.List {
				walk(s, append(stack, frame{l: l}))
			}
			return
		case *ast.AssignStmt:
			for i, lh := range n.Lhs {
				ix, ok := unparen(lh).(*ast.IndexExpr)
				if !ok {
					continue
				}
				root := rootObj(info, ix)
				if root == nil || root == recv {
					continue
				}
				if _, isParam := root.(*types.Var); !isParam {
					continue
				}
				// collect index chain
				var idxs []ast.Expr
				e := ast.Expr(ix)
				for {
					x, ok := unparen(e).(*ast.IndexExpr)
					if !ok {
						break
					}
					idxs = append([]ast.Expr{x.Index}, idxs...)
					e = x.X
				}
				stores++
				if closing && len(idxs) == len(stack)+1 && len(stack) >= 1 && len(n.Rhs) == len(n.Lhs) {
					// out[i][len(elem)] = out[i][0]
					fr := stack[len(stack)-1]
					last := sc.aff(idxs[len(idxs)-1])
					okIdx := last.ok && last.K == 0 && last.Of != nil && ((fr.l.Val != nil && objOf(info, last.Of) == fr.l.Val) || isRecvElem(info, last.Of, recv, fr.l.Idx))
					okVal := false
					if vx, ok := unparen(n.Rhs[i]).(*ast.IndexExpr); ok {
						if k, ok := constInt(info, vx.Index); ok && k == 0 && sameExpr(info, vx.X, ix.X) {
							okVal = true
						}
					}
					okOuter := true
					for k, ie := range idxs[:len(idxs)-1] {
						if off, ok := sc.idxOffset(ie, stack[k].l.Idx); !ok || off != 0 {
							okOuter = false
						}
					}
					if okIdx && okVal && okOuter {
						closed = true
						continue
					}
					prob(n.Pos(), "closing store `"+src(n)+"` does not put the ring's first vertex into its last slot")
					continue
				}
				if len(idxs) > len(stack) {
					prob(n.Pos(), "store `"+src(lh)+"` is not inside loops over the corresponding receiver levels")
					continue
				}
				for k, ie := range idxs {
					fr := stack[k]
					if off, ok := sc.idxOffset(ie, fr.l.Idx); !ok || off != 0 {
						prob(n.Pos(), "store `"+src(lh)+"`: index `"+src(ie)+"` is not the loop index of level "+string(rune('0'+k))+" (vertex order/position not preserved)")
					}
				}
				// value provenance: must derive from the innermost element
				if len(n.Rhs) == len(n.Lhs) {
					val := n.Rhs[i]
					if call, ok := unparen(val).(*ast.CallExpr); ok && builtinName(info, call) == "make" {
						// inner allocation: make([]T, len(elem))
						if len(idxs) <= len(stack) && len(call.Args) >= 2 {
							fr := stack[len(idxs)-1]
							a := sc.aff(call.Args[1])
							wantK := int64(0)
							if closing {
								wantK = 1
							}
							okLen := a.ok && a.K == wantK && a.Of != nil && ((fr.l.Val != nil && objOf(info, a.Of) == fr.l.Val) || isRecvElem(info, a.Of, recv, fr.l.Idx))
							if !okLen && closing {
								prob(call.Pos(), "ring allocated with length `"+src(call.Args[1])+"`, want the contour's length + 1 (room for the repeated first vertex)")
							} else if !okLen {
								prob(call.Pos(), "member allocated with length `"+src(call.Args[1])+"`, not the member's own length")
							}
						}
						continue
					}
					fr := stack[len(idxs)-1]
					if !derivesFrom(info, sc, val, recv, fr.l, 0) {
						prob(n.Pos(), "value stored by `"+src(n)+"` does not derive from the element at the same index")
					}
				}
			}
			return
		case *ast.BlockStmt:
			for _, s := range n.List {
				walk(s, stack)
			}
			return
		case *ast.IfStmt:
			walk(n.Init, stack)
			walk(n.Body, stack)
			walk(n.Else, stack)
			return
		}
	}
	walk(fd.Body, nil)
	if stores == 0 {
		prob(fd.Pos(), "no store into the result structure found")
	}
	return closed
}

func isRecvElem(info *types.Info, e ast.Expr, recv types.Object, idx types.Object) bool {
	ix, ok := unparen(e).(*ast.IndexExpr)
	return ok && idx != nil && objOf(info, ix.Index) == idx && rootObj(info, ix.X) == recv
}

// derivesFrom: does val come from the loop's current element (range value or recv[idx])?
func derivesFrom(info *types.Info, sc *fnScope, val ast.Expr, recv types.Object, l *Loop, depth int) bool {
	if depth > 4 {
		return false
	}
	found := false
	ast.Inspect(val, func(n ast.Node) bool {
		if found {
			return false
		}
		switch n := n.(type) {
		case *ast.CallExpr:
			if b := builtinName(info, n); b == "len" || b == "cap" {
				return false // a length says nothing about the element's value
			}
		case *ast.Ident:
			o := objOf(info, n)
			if o == nil {
				return true
			}
			if l.Val != nil && o == l.Val {
				found = true
				return false
			}
			if o != recv {
				for _, d := range sc.defs[o] {
					if d != nil && derivesFrom(info, sc, d, recv, l, depth+1) {
						found = true
					}
				}
				// fields assigned individually: w.X, w.Y, err = t(v.X, v.Y)
				if !found {
					ast.Inspect(sc.body, func(m ast.Node) bool {
						as, ok := m.(*ast.AssignStmt)
						if !ok {
							return true
						}
						for _, lh := range as.Lhs {
							if sel, ok := unparen(lh).(*ast.SelectorExpr); ok && objOf(info, sel.X) == o {
								for _, r := range as.Rhs {
									if derivesFrom(info, sc, r, recv, l, depth+1) {
										found = true
									}
								}
							}
						}
						return !found
					})
				}
			}
		case *ast.IndexExpr:
			if isRecvElem(info, n, recv, l.Idx) {
				found = true
				return false
			}
		}
		return true
	})
	return found
}
