package main

// C20.R5 — SR.Equal is a total, NaN-aware comparison.
//
// Equal walks the two structs by reflection, so its behaviour is in the shape of
// one kind switch:
//
//   - Float64 fields (NaN = "parameter not set"): the clause is evaluated as a
//     boolean function of the atoms isNaN(a), isNaN(b), withinULP(a,b) — helper
//     functions are inlined — over the five consistent valuations; it must let
//     the comparison continue exactly when both are NaN or neither is and the
//     values agree, and `return false` otherwise.
//   - Slice fields: every Index call is dominated by a Len()==Len() test
//     (otherwise the shorter second slice is indexed out of range: a panic, or
//     its extra elements are ignored).
//   - Pointer fields: the recursive comparison of the pointees is dominated by
//     a nil-parity test and a non-nil test (reflect.Indirect of a nil pointer is
//     the zero Value; NumField on it panics).

import (
	"fmt"
	"go/ast"
	"go/token"
	"go/types"
)

func (a *c20) equalTotal() {
	c := a.c
	eqm := c.P.Method("proj", "SR", "Equal")
	efd := c.P.Decl(eqm)
	if efd == nil {
		c.Unk("C20.R5", "proj.(*SR).Equal", token.NoPos, "API anchor does not resolve")
		return
	}
	info := a.info
	// the reflective worker: callee of Equal taking two reflect.Value
	var worker *types.Func
	ast.Inspect(efd.Body, func(n ast.Node) bool {
		if call, ok := n.(*ast.CallExpr); ok {
			if f := callee(info, call); f != nil && c.P.Decl(f) != nil && len(call.Args) >= 2 {
				if isNamed(info.TypeOf(call.Args[0]), "reflect", "Value") && isNamed(info.TypeOf(call.Args[1]), "reflect", "Value") {
					worker = f
				}
			}
		}
		return true
	})
	if worker == nil {
		c.Unk("C20.R5", "proj.(*SR).Equal#worker", efd.Pos(), "no helper comparing two reflect.Values found")
		return
	}
	wfd := c.P.Decl(worker)
	wname := c.P.FuncName(worker)
	kindOf := func(e ast.Expr) string {
		if sel, ok := unparen(e).(*ast.SelectorExpr); ok {
			if cst, ok := info.Uses[sel.Sel].(*types.Const); ok && cst.Pkg() != nil && cst.Pkg().Path() == "reflect" {
				return cst.Name()
			}
		}
		return ""
	}
	clauses := map[string]*ast.CaseClause{}
	ast.Inspect(wfd.Body, func(n ast.Node) bool {
		if cc, ok := n.(*ast.CaseClause); ok {
			for _, e := range cc.List {
				if k := kindOf(e); k != "" {
					clauses[k] = cc
				}
			}
		}
		return true
	})
	// ---- Float64: truth table
	if cc := clauses["Float64"]; cc == nil {
		c.Unk("C20.R5", wname+"#float", wfd.Pos(), "no case for reflect.Float64")
	} else {
		a.equalFloatClause(worker, cc)
	}
	// ---- Slice and Ptr: dominance facts
	isValueMethod := func(call *ast.CallExpr, name string) ast.Expr {
		sel, ok := unparen(call.Fun).(*ast.SelectorExpr)
		if !ok || sel.Sel.Name != name {
			return nil
		}
		if f := callee(info, call); f != nil && f.Pkg() != nil && f.Pkg().Path() == "reflect" {
			return sel.X
		}
		return nil
	}
	var sliceBad, ptrBad ast.Node
	nIndex, nRec := 0, 0
	cl := &FactsClient{}
	cl.OnBranch = func(cond ast.Expr, truth bool, s Facts) Facts {
		for _, at := range conjuncts(cond, truth) {
			e := unparen(at.E)
			neg := false
			if u, ok := e.(*ast.UnaryExpr); ok && u.Op == token.NOT {
				e, neg = unparen(u.X), true
			}
			if b, ok := e.(*ast.BinaryExpr); ok && (b.Op == token.EQL || b.Op == token.NEQ) {
				lc, ok1 := unparen(b.X).(*ast.CallExpr)
				rc, ok2 := unparen(b.Y).(*ast.CallExpr)
				if ok1 && ok2 {
					same := (b.Op == token.EQL) == at.Truth
					if x, y := isValueMethod(lc, "Len"), isValueMethod(rc, "Len"); x != nil && y != nil && !sameExpr(info, x, y) && same {
						s["leneq"] = true
					}
					if x, y := isValueMethod(lc, "IsNil"), isValueMethod(rc, "IsNil"); x != nil && y != nil && !sameExpr(info, x, y) && same {
						s["nilsame"] = true
					}
				}
			}
			if call, ok := e.(*ast.CallExpr); ok {
				if x := isValueMethod(call, "IsNil"); x != nil && at.Truth == neg {
					s["nonnil"] = true
				}
			}
		}
		return s
	}
	inClause := func(n ast.Node, k string) bool {
		cc := clauses[k]
		return cc != nil && n.Pos() >= cc.Pos() && n.End() <= cc.End()
	}
	cl.OnStmt = func(n ast.Node, s Facts) Facts {
		var scope ast.Node = n
		if rs, ok := n.(*ast.RangeStmt); ok {
			scope = rs.X
		}
		ast.Inspect(scope, func(m ast.Node) bool {
			call, ok := m.(*ast.CallExpr)
			if !ok {
				return true
			}
			if isValueMethod(call, "Index") != nil && inClause(call, "Slice") {
				nIndex++
				if !s["leneq"] && sliceBad == nil {
					sliceBad = call
				}
			}
			if callee(info, call) == worker && inClause(call, "Ptr") {
				nRec++
				if !(s["nilsame"] && s["nonnil"]) && ptrBad == nil {
					ptrBad = call
				}
			}
			return true
		})
		return s
	}
	// conditions are statements too for the purpose of finding calls inside them
	cl2 := *cl
	var scanCond func(e ast.Expr, s Facts)
	scanCond = func(e ast.Expr, s Facts) {
		e = unparen(e)
		if b, ok := e.(*ast.BinaryExpr); ok && (b.Op == token.LAND || b.Op == token.LOR) {
			scanCond(b.X, s)
			// the right operand is evaluated only when the left one is true (&&) / false (||)
			scanCond(b.Y, cl2.OnBranch(b.X, b.Op == token.LAND, s.Copy()))
			return
		}
		cl2.OnStmt(e, s)
	}
	cl.OnBranch = func(cond ast.Expr, truth bool, s Facts) Facts {
		if truth {
			scanCond(cond, s.Copy())
		}
		return cl2.OnBranch(cond, truth, s)
	}
	fl := &Flow[Facts]{C: cl, Info: info}
	fl.Run(wfd.Body, Facts{})
	if len(fl.Unsupported) > 0 {
		c.Unk("C20.R5", wname+"#total", fl.Unsupported[0].Pos(), "unsupported control flow")
		return
	}
	if clauses["Slice"] != nil {
		switch {
		case sliceBad != nil:
			c.Bad("C20.R5", wname+"#slice", sliceBad.Pos(), "`%s` indexes a slice field without first establishing that both slices have the same length: a 7-parameter datum compared with a 3-parameter one panics (index out of range) in one direction and ignores four parameters in the other", src(sliceBad))
		case nIndex == 0:
			c.Unk("C20.R5", wname+"#slice", clauses["Slice"].Pos(), "no element access found in the slice case")
		default:
			c.OK("C20.R5", wname+"#slice", clauses["Slice"].Pos(), "%d element accesses, all after a Len()==Len() test", nIndex)
		}
	}
	if clauses["Ptr"] != nil {
		switch {
		case ptrBad != nil:
			c.Bad("C20.R5", wname+"#pointer", ptrBad.Pos(), "`%s` descends into pointer fields without first establishing that both are non-nil: reflect.Indirect of a nil pointer is the zero Value and NumField panics on it", src(ptrBad))
		case nRec == 0:
			c.Unk("C20.R5", wname+"#pointer", clauses["Ptr"].Pos(), "no recursive comparison found in the pointer case")
		default:
			c.OK("C20.R5", wname+"#pointer", clauses["Ptr"].Pos(), "pointees compared only after nil-parity and non-nil tests")
		}
	}
}

// ---- boolean evaluation of the Float64 clause

type bEnv struct {
	a       *c20
	vals    map[types.Object]string // local → value id
	ids     []string                // the two compared values, in order of appearance
	nan     [2]bool
	eq      bool
	unknown string
}

func (e *bEnv) valID(x ast.Expr) int {
	x = unparen(x)
	key := ""
	if o := objOf(e.a.info, x); o != nil {
		if v, ok := e.vals[o]; ok {
			key = v
		}
	}
	if key == "" {
		key = src(x)
	}
	for i, id := range e.ids {
		if id == key {
			return i
		}
	}
	if len(e.ids) < 2 {
		e.ids = append(e.ids, key)
		return len(e.ids) - 1
	}
	e.unknown = "a third float value `" + key + "` takes part in the comparison"
	return 0
}

// eval returns the truth value of a boolean expression.
func (e *bEnv) eval(x ast.Expr, depth int) bool {
	info := e.a.info
	x = unparen(x)
	switch v := x.(type) {
	case *ast.Ident:
		if v.Name == "true" {
			return true
		}
		if v.Name == "false" {
			return false
		}
	case *ast.UnaryExpr:
		if v.Op == token.NOT {
			return !e.eval(v.X, depth)
		}
	case *ast.BinaryExpr:
		switch v.Op {
		case token.LAND:
			return e.eval(v.X, depth) && e.eval(v.Y, depth)
		case token.LOR:
			return e.eval(v.X, depth) || e.eval(v.Y, depth)
		case token.EQL:
			if isBoolExpr(info, v.X) {
				return e.eval(v.X, depth) == e.eval(v.Y, depth)
			}
		case token.NEQ:
			if isBoolExpr(info, v.X) {
				return e.eval(v.X, depth) != e.eval(v.Y, depth)
			}
		}
	case *ast.CallExpr:
		f := callee(info, v)
		if isFuncIn(f, "math", "IsNaN") && len(v.Args) == 1 {
			return e.nan[e.valID(v.Args[0])]
		}
		if f != nil && f.Name() == "EqualWithinULP" && e.a.c.P.Decl(f) == nil && len(v.Args) >= 2 {
			i, j := e.valID(v.Args[0]), e.valID(v.Args[1])
			if i == j {
				e.unknown = "a value is compared with itself"
			}
			return e.eq
		}
		if f != nil && depth < 3 {
			if fd := e.a.c.P.Decl(f); fd != nil {
				// inline a repo helper: bind float parameters to the argument values
				sub := &bEnv{a: e.a, vals: map[types.Object]string{}, ids: e.ids, nan: e.nan, eq: e.eq}
				// make sure argument ids are registered in the caller first
				ps := paramVars(e.a.c.P.InfoOf(f), fd.Type)
				for i, arg := range v.Args {
					if i < len(ps) && ps[i] != nil && isFloat64(ps[i].Type()) {
						id := e.valID(arg)
						sub.ids = e.ids
						sub.vals[ps[i]] = e.ids[id]
					}
				}
				sub.ids = e.ids
				saved := e.a.info
				e.a.info = e.a.c.P.InfoOf(f)
				out, ret := sub.block(fd.Body.List, depth+1)
				e.a.info = saved
				if sub.unknown != "" {
					e.unknown = sub.unknown
				}
				if !ret {
					e.unknown = "helper " + f.Name() + " falls off its end"
				}
				return out
			}
		}
	}
	e.unknown = "condition `" + src(x) + "` is not a boolean combination of math.IsNaN and EqualWithinULP"
	return false
}

func isBoolExpr(info *types.Info, x ast.Expr) bool {
	if t := info.TypeOf(x); t != nil {
		if b, ok := t.Underlying().(*types.Basic); ok {
			return b.Info()&types.IsBoolean != 0
		}
	}
	return false
}

// block runs statements; returns (value, returned).
func (e *bEnv) block(list []ast.Stmt, depth int) (bool, bool) {
	for _, st := range list {
		switch s := st.(type) {
		case *ast.AssignStmt:
			if len(s.Lhs) == len(s.Rhs) {
				for i, l := range s.Lhs {
					if o := objOf(e.a.info, l); o != nil && isFloat64(o.Type()) {
						r := unparen(s.Rhs[i])
						if ro := objOf(e.a.info, r); ro != nil {
							if v, ok := e.vals[ro]; ok {
								e.vals[o] = v
								continue
							}
						}
						e.vals[o] = src(r)
					}
				}
			}
		case *ast.IfStmt:
			if s.Init != nil {
				if v, ret := e.block([]ast.Stmt{s.Init}, depth); ret {
					return v, true
				}
			}
			if e.eval(s.Cond, depth) {
				if v, ret := e.block(s.Body.List, depth); ret {
					return v, true
				}
			} else if s.Else != nil {
				var l []ast.Stmt
				if b, ok := s.Else.(*ast.BlockStmt); ok {
					l = b.List
				} else {
					l = []ast.Stmt{s.Else}
				}
				if v, ret := e.block(l, depth); ret {
					return v, true
				}
			}
		case *ast.ReturnStmt:
			if len(s.Results) == 1 {
				return e.eval(s.Results[0], depth), true
			}
			e.unknown = "return with several results"
			return false, true
		case *ast.BlockStmt:
			if v, ret := e.block(s.List, depth); ret {
				return v, true
			}
		case *ast.DeclStmt, *ast.EmptyStmt:
		default:
			e.unknown = "statement `" + src(st) + "` not supported"
			return false, true
		}
		if e.unknown != "" {
			return false, true
		}
	}
	return false, false
}

func (a *c20) equalFloatClause(worker *types.Func, cc *ast.CaseClause) {
	c := a.c
	cons := c.P.FuncName(worker) + "#float"
	type val struct{ na, nb, eq bool }
	for _, v := range []val{{false, false, true}, {false, false, false}, {true, false, false}, {false, true, false}, {true, true, false}} {
		e := &bEnv{a: a, vals: map[types.Object]string{}, nan: [2]bool{v.na, v.nb}, eq: v.eq}
		saved := a.info
		out, ret := e.block(cc.Body, 0)
		a.info = saved
		if e.unknown != "" {
			c.Unk("C20.R5", cons, cc.Pos(), "%s", e.unknown)
			return
		}
		if ret && out {
			c.Unk("C20.R5", cons, cc.Pos(), "the float case returns true before the remaining fields are compared")
			return
		}
		continues := !ret
		want := (v.na && v.nb) || (!v.na && !v.nb && v.eq)
		if continues != want {
			got := map[bool]string{true: "treats the fields as equal", false: "returns false"}[continues]
			c.Bad("C20.R5", cons, cc.Pos(), "with isNaN(a)=%v, isNaN(b)=%v, withinULP=%v the float case %s; NaN marks an unset parameter, so two values are equal exactly when both are unset or both are set and agree (otherwise a reference with a parameter is Equal to one without it, and NewTransform returns the identity)", v.na, v.nb, v.eq, got)
			return
		}
	}
	c.Evals(5)
	c.OK("C20.R5", cons, cc.Pos(), "all 5 consistent valuations of (isNaN a, isNaN b, withinULP): continue ⇔ both NaN, or neither and within ULP")
	_ = fmt.Sprint
}
