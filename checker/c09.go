package main

// C09 — agreement with proj4js 2.3.12 (the bundled upstream source is the
// specification artefact for the tables, named constants and angle units).

import (
	"fmt"
	"go/ast"
	"go/constant"
	"go/token"
	"go/types"
	"path/filepath"
	"sort"
	"strconv"
	"strings"
)

func init() { register("C09", false, checkC09) }

func normName(s string) string {
	return strings.ToLower(strings.ReplaceAll(s, "_", ""))
}

type c09 struct {
	c    *Ctx
	info *types.Info
	p    *pkgT
	js   string // proj4js lib dir
}

func checkC09(c *Ctx) {
	c.Rule("C09.R1", "the ellipsoid, datum, prime-meridian and unit tables and the named numeric constants of package proj equal the bundled proj4js 2.3.12 source (same keys; numbers equal as float64; towgs84 element-wise)")
	c.Rule("C09.R2", "no constant division of two integer constants with a non-integer quotient is used in a floating-point expression (it would be evaluated as integer division)")
	c.Rule("C09.R3", "model evaluation with a symbolic parameter value: for every PROJ.4 key that the bundled proj4js multiplies by D2R, proj.Parse of `+key=P` stores P × deg2rad (once) in the fields that depend on P; for the other numeric keys no field is P × deg2rad")
	c.Rule("C09.R6", "model evaluation: every function of package proj taking one datum and three ordinates and returning three ordinates is evaluated on a symbolic geocentric position with the datum of a reference parsed from symbolic +towgs84 values; those that are rational and mention a shift parameter are the shift functions and equal, as rational terms, the 3- and 7-parameter Helmert shift to or from WGS84 in the stored parameters; the whole shift between a 7-parameter and a 3-parameter datum, with the geodetic and geocentric conversions (the members of the class that need a transcendental function) left as named operations, hands the conversion back exactly from₃(to₇(G)) of the source's geocentric position G and returns its three results")
	c.Rule("C09.R7", "eccentricity arguments: with SR.E : e, SR.Es : e², sqrt(e²) : e, e·e : e², 1−(B/A)² : e², every helper parameter receives the same one of the two at all typed call sites")
	c.Rule("C09.R8", "model evaluation of the NewTransform pipeline (shared with C08.R2): each reference's unit, prime meridian, angle unit, projection member and axis order is applied once, on its own side of the datum shift, for eleven pairs of references including shifted datums with prime meridians on either side")
	c.Rule("C09.R4", "model evaluation of the pipeline between a 3-parameter and a 7-parameter datum: the position goes through a single datum shift, or the height each shift produces is what the next one is given")
	p := c.P.Pkg("proj")
	if p == nil {
		c.Unk("C09.R1", "proj", token.NoPos, "package not loaded")
		return
	}
	a := &c09{c: c, info: p.TypesInfo, p: p, js: filepath.Join(c.P.Root, "proj", "proj4js-2.3.12", "lib")}
	a.tables()
	a.namedConstants()
	a.intDivision()
	a.angleUnits()
	c.Rule("C09.R9", "model evaluation with symbolic values: a +towgs84 list is classified as proj4js does (first three values not all zero: 3-parameter; seven values with the last four not all zero: 7-parameter, whatever the first three; otherwise no shift) and the rotations and the scale are converted from arc seconds and parts per million exactly once")
	c09datumModel(c, a.js)
	c.Floor("C09.R9", 6)
	c.exhaust = true
	c09shiftModel(c, "C09.R6", "")
	// R8 / R4: the pipeline around the datum shift, by model evaluation
	c08pipeModel(c, "C09.R8", "C09.R4", "")
	c.Floor("C09.R8", 4)
	a.eccentricity()
	c.Rule("C09.R10", "model evaluation with symbolic parameters: every registered projection whose forward easting has a polar angle N·(λ−λ₀) with N following the standard parallels (a conic) is rebuilt with +lat_2 = +lat_1 and a different +lat_0; N must then be, as a term, the sine of the stored standard parallel — Snyder's cone constant of a single-parallel Lambert, Albers and equidistant conic on sphere and ellipsoid alike (a necessary condition of agreeing with the reference formulas; the radius functions are not compared)")
	c09coneModel(c, "C09.R10")
	c.Floor("C09.R10", 3)
	c.Rule("C09.R11", "model evaluation: for several zones, with and without +south, both members built for +proj=utm +zone=Z return term for term what the members of the transverse Mercator projection return for lat_0 = 0, lon_0 = 6·Z − 183°, k_0 = 0.9996, x_0 = 500000 and y_0 = 0 (north) or 10000000 (south)")
	c09utmModel(c, "C09.R11")
	c.Floor("C09.R11", 5)
	c.Rule("C09.R12", "model evaluation: for every entry of the bundled proj4js datum table, +datum=<name> parses to the same semi-axes, eccentricity and stored shift values as +ellps=<the entry's ellipsoid> +towgs84=<the entry's shift> (a named datum brings its own ellipsoid and shift, as in proj4js deriveConstants)")
	c09namedDatumModel(c, "C09.R12", a.js)
	c.Floor("C09.R12", 10)
	premiseEqual(c, "C09.R13", "a transformation between references that Equal wrongly holds equal is the identity instead of what proj4js computes")
	c.Floor("C09.R13", 9)
	c.Floor("C09.R7", 2)
	c.Floor("C09.R6", 1)
	c.Floor("C09.R1", 60)
	c.Floor("C09.R2", 1)
	c.Floor("C09.R3", 12)
	c.Floor("C09.R4", 1)
}

// ---------------------------------------------------------------- Go tables

type goEntry struct {
	nums map[string]float64
	strs map[string]string
	arrs map[string][]float64
	sarr map[string][]string
	pos  token.Pos
}

// goMapTables reads the package-level tables of package proj — variables whose type is a map with
// string keys — as the interpreter finds them after the package's initialisers and init functions
// have run: whether a table is written as a literal, filled in init or built by a helper is
// immaterial.  Struct values contribute their fields by name, a bare number or string the entry "".
func (a *c09) goMapTables() map[string]map[string]*goEntry {
	out := map[string]map[string]*goEntry{}
	it := &oInterp{p: a.c.P, maxDepth: 48, maxLoop: 8192, symbolic: true}
	num := func(v oval) (float64, bool) {
		switch x := v.(type) {
		case oInt:
			return float64(x), true
		case oSym:
			if c, ok := symConst(x.p); ok {
				f, _ := c.Float64()
				return f, true
			}
		}
		return 0, false
	}
	var fill func(e *goEntry, name string, v oval)
	fill = func(e *goEntry, name string, v oval) {
		if iv, ok := v.(oIface); ok {
			v = iv.dyn
		}
		if p, ok := v.(oPtr); ok && p.s != nil {
			v = p.s
		}
		if f, ok := num(v); ok {
			e.nums[name] = f
			return
		}
		switch x := v.(type) {
		case *oStruct:
			if x == nil || name != "" {
				return
			}
			for _, fn := range x.order {
				fill(e, fn, x.fields[fn])
			}
		case oSlice:
			if b, ok := x.typ.Underlying().(*types.Basic); ok && b.Info()&types.IsString != 0 {
				if str, ok := strOf(x); ok {
					e.strs[name] = str
				}
				return
			}
			for i := 0; i < x.length(); i++ {
				el := x.at(i)
				if f, ok := num(el); ok {
					e.arrs[name] = append(e.arrs[name], f)
				} else if str, ok := strOf(el); ok {
					e.sarr[name] = append(e.sarr[name], str)
				}
			}
		}
	}
	scope := a.p.Types.Scope()
	for _, n := range scope.Names() {
		v, ok := scope.Lookup(n).(*types.Var)
		if !ok {
			continue
		}
		mt, ok := v.Type().Underlying().(*types.Map)
		if !ok {
			continue
		}
		if b, ok := mt.Key().Underlying().(*types.Basic); !ok || b.Kind() != types.String {
			continue
		}
		cell := it.global(v)
		if cell == nil {
			continue
		}
		mp, ok := (*cell).(oMap)
		if !ok || mp.keys == nil {
			continue
		}
		tbl := map[string]*goEntry{}
		for i, k := range *mp.keys {
			key, ok := strOf(k)
			if !ok {
				continue
			}
			e := &goEntry{nums: map[string]float64{}, strs: map[string]string{}, arrs: map[string][]float64{}, sarr: map[string][]string{}, pos: v.Pos()}
			fill(e, "", (*mp.vals)[i])
			tbl[key] = e
		}
		if len(tbl) > 0 {
			out[n] = tbl
		}
	}
	return out
}

func constFloat(v constant.Value) (float64, bool) {
	switch v.Kind() {
	case constant.Int, constant.Float:
		f, _ := constant.Float64Val(constant.ToFloat(v))
		return f, true
	}
	return 0, false
}

func (a *c09) tables() {
	c := a.c
	goTables := a.goMapTables()
	for _, spec := range []struct{ file, label string }{{"Ellipsoid.js", "ellipsoid"}, {"Datum.js", "datum"}, {"PrimeMeridian.js", "prime-meridian"}, {"units.js", "unit"}} {
		js, err := parseJSExports(filepath.Join(a.js, "constants", spec.file))
		if err != nil {
			c.Unk("C09.R1", "proj4js#"+spec.file, token.NoPos, "cannot read the bundled table: %v", err)
			continue
		}
		// pick the Go table with the largest key overlap
		best, bestN := "", 0
		for name, t := range goTables {
			n := 0
			for k := range t {
				if _, ok := js[k]; ok {
					n++
				}
			}
			if n > bestN {
				best, bestN = name, n
			}
		}
		if best == "" {
			// the table may be a function of the name (a switch): evaluate it on every name
			if fname, ft := a.funcTable(js); ft != nil {
				best = fname
				goTables[best] = ft
			}
		}
		if best == "" {
			c.Unk("C09.R1", "proj#"+spec.label+"-table", token.NoPos, "no package-level map and no function of a name gives the entries of proj4js %s: the table is kept some other way", spec.file)
			continue
		}
		gt := goTables[best]
		var keys []string
		seen := map[string]bool{}
		for k := range js {
			keys = append(keys, k)
			seen[k] = true
		}
		for k := range gt {
			if !seen[k] {
				keys = append(keys, k)
			}
		}
		sort.Strings(keys)
		for _, k := range keys {
			cons := "proj#" + spec.label + "(" + k + ")"
			je, inJS := js[k]
			ge, inGo := gt[k]
			switch {
			case !inGo:
				c.Bad("C09.R1", cons, token.NoPos, "proj4js %s defines %q but the Go table %s does not", spec.file, k, best)
				continue
			case !inJS:
				c.Bad("C09.R1", cons, ge.pos, "the Go table %s defines %q, which proj4js 2.3.12 %s does not", best, k, spec.file)
				continue
			}
			var diffs []string
			// a bare number or string stands for the entry's only field
			if len(je) == 1 && len(ge.nums)+len(ge.strs) == 1 {
				for f := range je {
					if v, ok := ge.nums[""]; ok {
						delete(ge.nums, "")
						ge.nums[f] = v
					}
					if v, ok := ge.strs[""]; ok {
						delete(ge.strs, "")
						ge.strs[f] = v
					}
				}
			}
			for f, jv := range je {
				gname := ""
				// match field names case/underscore-insensitively
				for gf := range ge.nums {
					if normName(gf) == normName(f) {
						gname = gf
					}
				}
				for gf := range ge.strs {
					if normName(gf) == normName(f) {
						gname = gf
					}
				}
				for gf := range ge.arrs {
					if normName(gf) == normName(f) {
						gname = gf
					}
				}
				for gf := range ge.sarr {
					if normName(gf) == normName(f) {
						gname = gf
					}
				}
				switch {
				case jv.isNum:
					gv, ok := ge.nums[gname]
					if !ok || gv != jv.num {
						diffs = append(diffs, fmt.Sprintf("%s: Go %v, proj4js %v", f, fmtNum(gv, ok), jv.num))
					}
				case ge.arrs[gname] != nil:
					parts := strings.Split(jv.str, ",")
					if len(parts) != len(ge.arrs[gname]) {
						diffs = append(diffs, fmt.Sprintf("%s: Go has %d terms, proj4js %q", f, len(ge.arrs[gname]), jv.str))
						break
					}
					for i, ps := range parts {
						pv, err := strconv.ParseFloat(strings.TrimSpace(ps), 64)
						if err != nil || pv != ge.arrs[gname][i] {
							diffs = append(diffs, fmt.Sprintf("%s[%d]: Go %v, proj4js %s", f, i, ge.arrs[gname][i], ps))
						}
					}
				case ge.sarr[gname] != nil:
					if strings.Join(ge.sarr[gname], ",") != jv.str {
						diffs = append(diffs, fmt.Sprintf("%s: Go %v, proj4js %q", f, ge.sarr[gname], jv.str))
					}
				default:
					gs, ok := ge.strs[gname]
					if !ok || gs != jv.str {
						diffs = append(diffs, fmt.Sprintf("%s: Go %q, proj4js %q", f, gs, jv.str))
					}
				}
			}
			// Go fields with a non-zero value that proj4js does not have
			for gf, gv := range ge.nums {
				found := false
				for f := range je {
					if normName(f) == normName(gf) {
						found = true
					}
				}
				if !found && gv != 0 {
					diffs = append(diffs, fmt.Sprintf("%s: Go %v, absent in proj4js", gf, gv))
				}
			}
			sort.Strings(diffs)
			c.Evals(len(je))
			if len(diffs) == 0 {
				c.OK("C09.R1", cons, ge.pos, "equal (%d fields)", len(je))
			} else {
				c.Bad("C09.R1", cons, ge.pos, "differs from proj4js 2.3.12 %s: %s", spec.file, strings.Join(diffs, "; "))
			}
		}
	}
}

// funcTable: a package function from a name to a number (and, optionally, a found flag or an error)
// read as a table over the names of js and the string constants it mentions itself — for tables
// whose proj4js entries are one number each.
func (a *c09) funcTable(js jsTable) (string, map[string]*goEntry) {
	for _, e := range js {
		if len(e) != 1 {
			return "", nil
		}
		for _, v := range e {
			if !v.isNum {
				return "", nil
			}
		}
	}
	m, _ := newC20m(a.c)
	if m == nil {
		return "", nil
	}
	strT := types.Typ[types.String]
	bestName, bestN := "", 0
	var bestT map[string]*goEntry
	for _, fn := range a.c.P.RepoFuncs() {
		if a.c.P.DeclPkg(fn) != a.p || a.c.P.Decl(fn) == nil {
			continue
		}
		sig := fn.Type().(*types.Signature)
		if sig.Recv() != nil || sig.Params().Len() != 1 || sig.Results().Len() < 1 || sig.Results().Len() > 2 {
			continue
		}
		if b, ok := sig.Params().At(0).Type().Underlying().(*types.Basic); !ok || b.Kind() != types.String {
			continue
		}
		if !isFloat64(sig.Results().At(0).Type()) {
			continue
		}
		keys := map[string]bool{}
		for k := range js {
			keys[k] = true
		}
		ast.Inspect(a.c.P.Decl(fn).Body, func(n ast.Node) bool {
			if bl, ok := n.(*ast.BasicLit); ok && bl.Kind == token.STRING {
				if s, err := strconv.Unquote(bl.Value); err == nil {
					keys[s] = true
				}
			}
			return true
		})
		t := map[string]*goEntry{}
		hits := 0
		for k := range keys {
			res, why := m.it.Call(fn, nil, []oval{strVal(strT, k)}, 0)
			if why != "" || len(res) == 0 {
				continue
			}
			if len(res) == 2 {
				if b, isB := res[1].(oBool); isB && !bool(b) {
					continue // not in the table
				}
				if eq, ok := oEqual(res[1], oNil{}); ok && !eq {
					continue // an error: not in the table
				}
			}
			p, ok := symOf(res[0])
			if !ok {
				continue
			}
			r, ok := symConst(p)
			if !ok {
				continue
			}
			f, _ := r.Float64()
			if _, inJS := js[k]; !inJS && f == 0 {
				continue // a name the function does not know either (zero for unknown names)
			}
			t[k] = &goEntry{nums: map[string]float64{"": f}, strs: map[string]string{}, arrs: map[string][]float64{}, sarr: map[string][]string{}, pos: a.c.P.Decl(fn).Pos()}
			if _, inJS := js[k]; inJS {
				hits++
			}
		}
		if hits > bestN {
			bestName, bestN, bestT = a.c.P.FuncName(fn), hits, t
		}
	}
	if bestN*2 < len(js) {
		return "", nil
	}
	return bestName, bestT
}

func fmtNum(v float64, ok bool) string {
	if !ok {
		return "<absent>"
	}
	return strconv.FormatFloat(v, 'g', -1, 64)
}

func (a *c09) namedConstants() {
	c := a.c
	// JS: every `var NAME = number;` under lib/ (not projections: their constants are local coefficients)
	jsVals := map[string]map[float64][]string{}
	files, _ := filepath.Glob(filepath.Join(a.js, "*.js"))
	more, _ := filepath.Glob(filepath.Join(a.js, "common", "*.js"))
	files = append(files, more...)
	for _, f := range files {
		vs, err := parseJSVarNums(f)
		if err != nil {
			continue
		}
		for n, v := range vs {
			k := normName(n)
			if jsVals[k] == nil {
				jsVals[k] = map[float64][]string{}
			}
			jsVals[k][v] = append(jsVals[k][v], filepath.Base(f))
		}
	}
	alias := map[string]string{"deg2rad": "d2r", "adc": "adc", "cos67p5": "cos67p5"}
	scope := a.p.Types.Scope()
	for _, name := range scope.Names() {
		cst, ok := scope.Lookup(name).(*types.Const)
		if !ok {
			continue
		}
		gv, ok := constFloat(cst.Val())
		if !ok {
			continue
		}
		k := normName(name)
		if al, ok := alias[k]; ok {
			k = al
		}
		jv, ok := jsVals[k]
		if !ok {
			continue
		}
		cons := "proj#const(" + name + ")"
		if len(jv) != 1 {
			c.Note("C09.R1: proj4js defines %s with several values; not compared", name)
			continue
		}
		for v, where := range jv {
			c.Evals(1)
			if v == gv {
				c.OK("C09.R1", cons, cst.Pos(), "= %s (proj4js %s)", fmtNum(v, true), where[0])
			} else {
				c.Bad("C09.R1", cons, cst.Pos(), "Go %s, proj4js %s (%s)", fmtNum(gv, true), fmtNum(v, true), strings.Join(where, ","))
			}
		}
	}
}

// ---------------------------------------------------------------- R2

func (a *c09) intDivision() {
	c := a.c
	n := 0
	for _, fn := range c.P.RepoFuncs() {
		if c.P.DeclPkg(fn) != a.p {
			continue
		}
		fd := c.P.Decl(fn)
		k := 0
		ast.Inspect(fd, func(nd ast.Node) bool {
			b, ok := nd.(*ast.BinaryExpr)
			if !ok || b.Op != token.QUO {
				return true
			}
			tv, ok := a.info.Types[b]
			if !ok || tv.Value == nil {
				return true
			}
			xv, yv := constOf(a.info, b.X), constOf(a.info, b.Y)
			if xv == nil || yv == nil || xv.Kind() != constant.Int || yv.Kind() != constant.Int || constant.Sign(yv) == 0 {
				return true
			}
			bt, ok := tv.Type.Underlying().(*types.Basic)
			if !ok || bt.Info()&types.IsFloat == 0 {
				return true // integer context: integer division is meant
			}
			n++
			k++
			exact := constant.BinaryOp(constant.ToFloat(xv), token.QUO, constant.ToFloat(yv))
			cons := fmt.Sprintf("%s#const-div:%s", c.P.FuncName(fn), src(b))
			if constant.Compare(constant.ToFloat(tv.Value), token.EQL, exact) {
				c.OK("C09.R2", cons, b.Pos(), "quotient is exact")
			} else {
				ev, _ := constant.Float64Val(exact)
				c.Bad("C09.R2", cons, b.Pos(), "`%s` is a division of two integer constants in a float expression: Go evaluates it as %s, proj4js (floating point) as %v — the coefficient is wrong", src(b), tv.Value.String(), ev)
			}
			return true
		})
	}
	if n == 0 {
		c.OK("C09.R2", "proj#const-div", token.NoPos, "no division of two integer constants occurs in a float context")
	}
}

// ---------------------------------------------------------------- R3

func (a *c09) angleUnits() {
	c := a.c
	params, err := parseJSParams(filepath.Join(a.js, "projString.js"))
	if err != nil {
		c.Unk("C09.R3", "proj4js#projString.js", token.NoPos, "%v", err)
		return
	}
	deg := map[string]bool{}
	numeric := map[string]bool{}
	for _, p := range params {
		if p.degrees {
			deg[p.key] = true
		}
	}
	for _, k := range []string{"x_0", "y_0", "k_0", "k", "a", "b", "rf", "to_meter", "zone"} {
		numeric[k] = true
	}
	c09angleModel(c, deg, numeric)
}

// ---------------------------------------------------------------- R4
