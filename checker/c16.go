package main

// C16 — shapefile write/read round trip (geometry conversion and attribute tables).

import (
	"fmt"
	"go/ast"
	"go/constant"
	"go/token"
	"go/types"
	"sort"
	"strings"

	"golang.org/x/tools/go/ssa"
)

func init() { register("C16", true, checkC16) }

const goshpPath = "github.com/jonas-p/go-shp"

// geom type name → (shape type constant, concrete go-shp shape type, geom type read back)
var shpRows = map[string][3]string{
	"Point":           {"POINT", "Point", "Point"},
	"LineString":      {"POLYLINE", "PolyLine", "MultiLineString"},
	"MultiLineString": {"POLYLINE", "PolyLine", "MultiLineString"},
	"Polygon":         {"POLYGON", "Polygon", "Polygon"},
	"Bounds":          {"POLYGON", "Polygon", "Polygon"},
	"MultiPoint":      {"MULTIPOINT", "MultiPoint", "MultiPoint"},
}

type c16 struct {
	c    *Ctx
	info *types.Info
	p    *pkgT
}

func checkC16(c *Ctx) {
	c.Rule("C16.R1", "for each supported geom type the shape type NewEncoder selects from the field's type name, the concrete go-shp shape geom2Shp builds and the geom type shp2Geom rebuilds from that shape are consistent (Point↔POINT↔*shp.Point↔Point, (Multi)LineString↔POLYLINE↔*shp.PolyLine↔MultiLineString, Polygon/*Bounds↔POLYGON↔*shp.Polygon↔Polygon, MultiPoint↔MULTIPOINT↔*shp.MultiPoint↔MultiPoint)")
	c.Rule("C16.R2", "every geometry copy loop in both directions is an identity index map over the full part range (dst[j-start] = src[j] for start ≤ j < end, whatever the loop direction); part i runs from parts[i] to parts[i+1], the last one to len(points)")
	c.Rule("C16.R3", "a ring is closed by appending its first vertex exactly when it is non-empty and first ≠ last")
	c.Rule("C16.R6", "the attribute-row counter advances with the shape cursor: in each decoding method, every return reached with a record and no recorded error has incremented the row counter exactly once")
	c.Rule("C16.R5", "attribute columns are matched case-insensitively and by tag or name: the decoder's column index is keyed by lower-cased column names, every lookup key is lower-cased, and DecodeRow looks each struct field up once by its tag and once, independently of the tag, by its Go name, handing the column it found to the attribute setter")
	c.Rule("C16.R4", "encoder kind→field table and decoder kind→parser table cover the same kinds {int, float64, string}; field widths satisfy the documented guarantees (string ≥ 50, float precision ≥ 10, float width ≥ sign+17 digits+point+precision, int width ≥ 10)")
	p := c.P.Pkg("encoding/shp")
	if p == nil {
		c.Unk("C16.R1", "encoding/shp", token.NoPos, "package not loaded")
		return
	}
	a := &c16{c: c, info: p.TypesInfo, p: p}
	a.tables()
	a.indexMaps()
	a.closing()
	a.attributes()
	a.matching()
	a.rowCursor()
	c.Floor("C16.R6", 2)
	c.Floor("C16.R5", 4)
	c.Floor("C16.R1", 6)
	c.Floor("C16.R2", 8)
	c.Floor("C16.R3", 1)
	c.Floor("C16.R4", 5)
}

func (a *c16) fn(name string) (*types.Func, *ast.FuncDecl) {
	f := a.c.P.Func("encoding/shp", name)
	return f, a.c.P.Decl(f)
}

// concreteReturns: the dynamic types a function returns through its interface result.
func (a *c16) concreteReturns(f *types.Func) []string {
	sf := a.c.P.SSAFunc(f)
	set := map[string]bool{}
	if sf == nil {
		return nil
	}
	for _, b := range sf.Blocks {
		for _, in := range b.Instrs {
			r, ok := in.(*ssa.Return)
			if !ok || len(r.Results) == 0 {
				continue
			}
			switch v := r.Results[0].(type) {
			case *ssa.MakeInterface:
				set[qualTypeName(v.X.Type())] = true
			case *ssa.Const:
			default:
				set["?"+v.Type().String()] = true
			}
		}
	}
	var out []string
	for k := range set {
		out = append(out, k)
	}
	sort.Strings(out)
	return out
}

func (a *c16) tables() {
	c := a.c
	// (1) NewEncoder: switch on Type.Name()
	_, nfd := a.fn("NewEncoder")
	g2s, gfd := a.fn("geom2Shp")
	s2g, sfd := a.fn("shp2Geom")
	if nfd == nil || gfd == nil || sfd == nil {
		c.Unk("C16.R1", "encoding/shp#anchors", token.NoPos, "NewEncoder / geom2Shp / shp2Geom do not resolve")
		return
	}
	_ = g2s
	_ = s2g
	encType := map[string]string{} // type name → shape const name
	ast.Inspect(nfd.Body, func(n ast.Node) bool {
		switch x := n.(type) {
		case *ast.CaseClause:
			for _, e := range x.List {
				name, ok := constString(a.info, e)
				if !ok {
					continue
				}
				for _, s := range x.Body {
					if as, ok := s.(*ast.AssignStmt); ok && len(as.Rhs) == 1 {
						if cst, ok := objOf(a.info, selOrIdent(as.Rhs[0])).(*types.Const); ok && cst.Pkg() != nil && cst.Pkg().Path() == goshpPath {
							encType[name] = cst.Name()
						}
					}
				}
			}
		case *ast.IfStmt:
			// if sField.Type.Elem().Name() == "Bounds" { shpType = shp.POLYGON }
			if b, ok := unparen(x.Cond).(*ast.BinaryExpr); ok && b.Op == token.EQL {
				if name, ok := constString(a.info, b.Y); ok {
					for _, s := range x.Body.List {
						if as, ok := s.(*ast.AssignStmt); ok && len(as.Rhs) == 1 {
							if cst, ok := objOf(a.info, selOrIdent(as.Rhs[0])).(*types.Const); ok && cst.Pkg() != nil && cst.Pkg().Path() == goshpPath {
								encType[name] = cst.Name()
							}
						}
					}
				}
			}
		}
		return true
	})
	// (2) geom2Shp: type switch T → builder call → concrete shape
	builtShape := map[string][]string{}
	ast.Inspect(gfd.Body, func(n ast.Node) bool {
		sw, ok := n.(*ast.TypeSwitchStmt)
		if !ok {
			return true
		}
		_, cls := typeSwitch(a.info, sw)
		for _, cl := range cls {
			for _, t := range cl.Types {
				if t == nil {
					continue
				}
				tn := geomTypeName(t)
				if pt, ok := t.(*types.Pointer); ok {
					tn = geomTypeName(pt.Elem())
				}
				if tn == "" {
					continue
				}
				ast.Inspect(&ast.BlockStmt{List: cl.Clause.Body}, func(m ast.Node) bool {
					if r, ok := m.(*ast.ReturnStmt); ok && len(r.Results) == 2 {
						if call, ok := unparen(r.Results[0]).(*ast.CallExpr); ok {
							if f := callee(a.info, call); f != nil && c.P.Decl(f) != nil {
								builtShape[tn] = a.concreteReturns(f)
							}
						}
					}
					return true
				})
			}
		}
		return true
	})
	// (3) shp2Geom: case t == reflect.TypeOf(&shp.X{}) → returns f(...) → concrete geom type
	readBack := map[string][]string{}
	ast.Inspect(sfd.Body, func(n ast.Node) bool {
		cc, ok := n.(*ast.CaseClause)
		if !ok {
			return true
		}
		for _, e := range cc.List {
			b, ok := unparen(e).(*ast.BinaryExpr)
			if !ok || b.Op != token.EQL {
				continue
			}
			call, ok := unparen(b.Y).(*ast.CallExpr)
			if !ok || !isFuncIn(callee(a.info, call), "reflect", "TypeOf") || len(call.Args) != 1 {
				continue
			}
			shapeT := qualTypeName(a.info.TypeOf(call.Args[0]))
			for _, s := range cc.Body {
				if r, ok := s.(*ast.ReturnStmt); ok && len(r.Results) == 3 {
					if inner, ok := unparen(r.Results[1]).(*ast.CallExpr); ok {
						if f := callee(a.info, inner); f != nil && c.P.Decl(f) != nil {
							readBack[shapeT] = a.concreteReturns(f)
							// the asserted type must be the case's type
							ast.Inspect(inner, func(m ast.Node) bool {
								if ta, ok := m.(*ast.TypeAssertExpr); ok && ta.Type != nil {
									if got := qualTypeName(a.info.TypeOf(ta.Type)); got != shapeT {
										readBack[shapeT] = []string{"assert:" + got}
									}
								}
								return true
							})
						}
					}
				}
			}
		}
		return true
	})
	var names []string
	for tn := range shpRows {
		names = append(names, tn)
	}
	sort.Strings(names)
	for _, tn := range names {
		row := shpRows[tn]
		cons := "encoding/shp#row(" + tn + ")"
		wantShape := "*shp." + row[1]
		wantBack := "geom." + row[2]
		var problems []string
		if got := encType[tn]; got != row[0] {
			problems = append(problems, fmt.Sprintf("NewEncoder creates a %q shapefile for a %s field, want %s", got, tn, row[0]))
		}
		if got := builtShape[tn]; len(got) != 1 || got[0] != wantShape {
			problems = append(problems, fmt.Sprintf("geom2Shp builds %v for a %s, want %s", got, tn, wantShape))
		}
		if got := readBack[wantShape]; len(got) != 1 || got[0] != wantBack {
			problems = append(problems, fmt.Sprintf("shp2Geom turns %s into %v, want %s", wantShape, got, wantBack))
		}
		if len(problems) == 0 {
			c.OK("C16.R1", cons, nfd.Pos(), "%s ↔ %s ↔ %s ↔ %s", tn, row[0], wantShape, wantBack)
		} else {
			c.Bad("C16.R1", cons, nfd.Pos(), "%s", strings.Join(problems, "; "))
		}
	}
	// shape-type constants must exist in go-shp with the expected concrete types
	if dep := c.P.Dep(goshpPath); dep != nil {
		for _, row := range shpRows {
			if dep.Types.Scope().Lookup(row[0]) == nil || dep.Types.Scope().Lookup(row[1]) == nil {
				c.Unk("C16.R1", "go-shp#"+row[0], token.NoPos, "shape type %s / type %s not found in the dependency", row[0], row[1])
			}
		}
	}
}

func selOrIdent(e ast.Expr) ast.Expr {
	e = unparen(e)
	if sel, ok := e.(*ast.SelectorExpr); ok {
		return sel.Sel
	}
	return e
}

// ---------------------------------------------------------------- R2

func (a *c16) indexMaps() {
	c := a.c
	// getStartEnd-like helper: (parts, points, i) → (start, end)
	var bounds *types.Func
	for _, fn := range c.P.RepoFuncs() {
		if c.P.DeclPkg(fn) != a.p {
			continue
		}
		sig := fn.Type().(*types.Signature)
		if sig.Recv() == nil && sig.Params().Len() == 3 && sig.Results().Len() == 2 && !sig.Variadic() {
			isInt := func(t types.Type) bool {
				b, ok := t.Underlying().(*types.Basic)
				return ok && b.Kind() == types.Int
			}
			if isInt(sig.Results().At(0).Type()) && isInt(sig.Results().At(1).Type()) && isInt(sig.Params().At(2).Type()) {
				bounds = fn
			}
		}
	}
	if bounds != nil {
		fd := c.P.Decl(bounds)
		ps := paramVars(a.info, fd.Type)
		rs := resultVars(a.info, fd.Type)
		msg := ""
		if len(ps) != 3 || len(rs) != 2 || rs[0] == nil || rs[1] == nil {
			msg = "shape not recognised (named results start, end expected)"
		} else {
			parts, points, i := ps[0], ps[1], ps[2]
			okStart, okEndLast, okEndNext := false, false, false
			ast.Inspect(fd.Body, func(n ast.Node) bool {
				as, ok := n.(*ast.AssignStmt)
				if !ok || len(as.Lhs) != 1 || len(as.Rhs) != 1 {
					return true
				}
				rhs := stripIntConv(a.info, as.Rhs[0])
				switch objOf(a.info, as.Lhs[0]) {
				case rs[0]:
					if ix, ok := rhs.(*ast.IndexExpr); ok && objOf(a.info, ix.X) == parts && objOf(a.info, ix.Index) == i {
						okStart = true
					}
				case rs[1]:
					// under i == len(parts)-1: len(points); else parts[i+1]
					guardLast := false
					inElse := false
					for _, anc := range enclosing(fd.Body, as) {
						if is, ok := anc.(*ast.IfStmt); ok {
							if b, ok := unparen(is.Cond).(*ast.BinaryExpr); ok && b.Op == token.EQL && objOf(a.info, b.X) == i {
								sc := newFnScope(a.info, fd.Body)
								af := sc.aff(b.Y)
								if af.ok && af.K == -1 && af.Of != nil && objOf(a.info, af.Of) == parts {
									guardLast = true
									inElse = !containsNode(is.Body, as)
								}
							}
						}
					}
					if la := lenArg(a.info, rhs); la != nil && objOf(a.info, la) == points && guardLast && !inElse {
						okEndLast = true
					}
					if ix, ok := rhs.(*ast.IndexExpr); ok && objOf(a.info, ix.X) == parts && guardLast && inElse {
						sc := newFnScope(a.info, fd.Body)
						if off, ok := sc.idxOffset(ix.Index, i); ok && off == 1 {
							okEndNext = true
						}
					}
				}
				return true
			})
			if !(okStart && okEndLast && okEndNext) {
				msg = fmt.Sprintf("part boundaries are not parts[i] .. parts[i+1] (len(points) for the last part): start ok=%v, last-part end ok=%v, next-part end ok=%v", okStart, okEndLast, okEndNext)
			}
		}
		if msg == "" {
			c.OK("C16.R2", c.P.FuncName(bounds), fd.Pos(), "part i = [parts[i], parts[i+1]) and [parts[last], len(points))")
		} else {
			c.Bad("C16.R2", c.P.FuncName(bounds), fd.Pos(), "%s", msg)
		}
	} else {
		c.Unk("C16.R2", "encoding/shp#part-bounds", token.NoPos, "part boundary helper not found")
	}
	// converter functions: every function whose name contains "2geom"/"geom2" is discovered by type:
	// param is a go-shp shape or geom type, result is the other side.
	for _, fn := range c.P.RepoFuncs() {
		if c.P.DeclPkg(fn) != a.p || fn == bounds {
			continue
		}
		fd := c.P.Decl(fn)
		sig := fn.Type().(*types.Signature)
		if sig.Recv() != nil || sig.Params().Len() != 1 || sig.Results().Len() != 1 {
			continue
		}
		// converters: result is the geom.Geom or shp.Shape interface
		rt := sig.Results().At(0).Type()
		if !(isNamed(rt, modPath, "Geom") || isNamed(rt, goshpPath, "Shape")) {
			continue
		}
		// only functions containing loops with indexed stores
		hasLoopStore := false
		ast.Inspect(fd.Body, func(n ast.Node) bool {
			switch n.(type) {
			case *ast.ForStmt, *ast.RangeStmt:
				ast.Inspect(n, func(m ast.Node) bool {
					if as, ok := m.(*ast.AssignStmt); ok {
						for _, l := range as.Lhs {
							if _, ok := unparen(l).(*ast.IndexExpr); ok {
								hasLoopStore = true
							}
						}
					}
					return true
				})
			}
			return true
		})
		if !hasLoopStore {
			continue
		}
		name := c.P.FuncName(fn)
		msg := a.copyShape(fd, bounds)
		if msg == "" {
			c.OK("C16.R2", name, fd.Pos(), "identity index map over every part and vertex")
		} else {
			c.Bad("C16.R2", name, fd.Pos(), "%s", msg)
		}
	}
}

func stripIntConv(info *types.Info, e ast.Expr) ast.Expr {
	e = unparen(e)
	if call, ok := e.(*ast.CallExpr); ok && len(call.Args) == 1 {
		if tv, ok := info.Types[call.Fun]; ok && tv.IsType() {
			return unparen(call.Args[0])
		}
	}
	return e
}

// copyShape checks the loops of one converter.  Two loop families are accepted:
// affine full-range loops (range / 0..len) with dst[i] (or dst[i][j]) = f(src[i](…[j])),
// and part loops `for j in [start,end)` (either direction) with dst[i][j-start] = f(src.Points[j]).
func (a *c16) copyShape(fd *ast.FuncDecl, bounds *types.Func) string {
	info := a.info
	sc := newFnScope(info, fd.Body)
	msg := ""
	set := func(s string) {
		if msg == "" {
			msg = s
		}
	}
	stores := 0
	var walk func(n ast.Node, loops []*Loop, part *partLoop)
	walk = func(n ast.Node, loops []*Loop, part *partLoop) {
		switch x := n.(type) {
		case nil:
			return
		case *ast.BlockStmt:
			for _, s := range x.List {
				walk(s, loops, part)
			}
		case *ast.IfStmt:
			walk(x.Body, loops, part)
			walk(x.Else, loops, part)
		case *ast.ForStmt, *ast.RangeStmt:
			st := n.(ast.Stmt)
			var body *ast.BlockStmt
			if rs, ok := st.(*ast.RangeStmt); ok {
				body = rs.Body
			} else {
				body = st.(*ast.ForStmt).Body
			}
			brk, cont, _ := earlyExits(body)
			if len(brk)+len(cont) > 0 {
				set("copy loop has break/continue")
			}
			if l := sc.loopOf(st); l != nil {
				if !(l.Lo.ok && l.Lo.Of == nil && l.Lo.K == 0 && l.Hi.ok && l.Hi.K == 0 && l.Hi.Of != nil) {
					set("loop " + l.String() + " does not cover its whole collection")
				}
				walk(body, append(loops, l), part)
				return
			}
			if fs, ok := st.(*ast.ForStmt); ok {
				if pl := a.partLoopOf(fs, sc, bounds, fd); pl != nil {
					walk(body, loops, pl)
					return
				}
			}
			set("loop `" + src(st)[:min(60, len(src(st)))] + "…` is neither a full-range loop nor a [start,end) part loop")
		case *ast.AssignStmt:
			for i, lh := range x.Lhs {
				ix, ok := unparen(lh).(*ast.IndexExpr)
				if !ok {
					continue
				}
				if _, isSlice := info.TypeOf(ix.X).Underlying().(*types.Slice); !isSlice {
					continue
				}
				rhs := x.Rhs[min(i, len(x.Rhs)-1)]
				if call, ok := unparen(rhs).(*ast.CallExpr); ok && builtinName(info, call) == "make" {
					// inner allocation: len(elem) or end-start
					if len(call.Args) >= 2 {
						if b, ok := unparen(call.Args[1]).(*ast.BinaryExpr); ok && b.Op == token.SUB {
							if !a.isStartEnd(fd, bounds, b.Y, 0) || !a.isStartEnd(fd, bounds, b.X, 1) {
								set("part allocated with length `" + src(call.Args[1]) + "`, want end-start")
							}
						} else {
							af := sc.aff(call.Args[1])
							if !(af.ok && af.K == 0 && af.Of != nil) {
								set("member allocated with length `" + src(call.Args[1]) + "`")
							}
						}
					}
					// index must be the outer loop index
					if len(loops) == 0 {
						set("allocation outside a loop")
					} else if off, ok := sc.idxOffset(ix.Index, loops[len(loops)-1].Idx); !ok || off != 0 {
						set("member stored at `" + src(ix.Index) + "`, not at the loop index")
					}
					continue
				}
				if call, ok := unparen(rhs).(*ast.CallExpr); ok && builtinName(info, call) == "append" {
					continue // ring closing, checked by R3
				}
				if se, ok := unparen(rhs).(*ast.SliceExpr); ok {
					if _, inner := info.TypeOf(lh).Underlying().(*types.Slice); inner {
						// member carved out of a block allocation: block[lo:hi] with hi-lo = len(member);
						// whether it may be appended to is R3's business
						lo, hi := Aff{ok: true}, Aff{}
						if se.Low != nil {
							lo = sc.aff(se.Low)
						}
						if se.High != nil {
							hi = sc.aff(se.High)
						}
						if lo.ok && hi.ok && lo.Of == nil && !(hi.Of != nil && hi.K-lo.K == 0) {
							set("member `" + src(lh) + "` is the window `" + src(rhs) + "`, whose length is not that of the source member")
						}
						continue
					}
				}
				stores++
				if part != nil {
					// dst[i][j-start] = f(src[j])
					b, ok := unparen(ix.Index).(*ast.BinaryExpr)
					if !ok || b.Op != token.SUB || objOf(info, b.X) != part.j || !a.isStartEnd(fd, bounds, b.Y, 0) {
						set("vertex stored at `" + src(ix.Index) + "`, want j-start: vertex order within the part is not preserved")
					}
					if !mentionsIndexBy(info, rhs, part.j) {
						// through a local: ss := s.Points[j]
						okLocal := false
						ast.Inspect(rhs, func(m ast.Node) bool {
							if id, ok := m.(*ast.Ident); ok {
								if o := objOf(info, id); o != nil {
									for _, d := range sc.defs[o] {
										if d != nil && mentionsIndexBy(info, d, part.j) {
											okLocal = true
										}
									}
								}
							}
							return true
						})
						if !okLocal {
							set("stored vertex `" + src(rhs) + "` is not the source vertex at index j")
						}
					}
					// outer index
					if ox, ok := unparen(ix.X).(*ast.IndexExpr); ok && len(loops) > 0 {
						if off, ok := sc.idxOffset(ox.Index, loops[len(loops)-1].Idx); !ok || off != 0 {
							set("part stored at `" + src(ox.Index) + "`, not at the part index")
						}
					}
					continue
				}
				// affine: every index of the chain is the index of an enclosing loop, in order
				var idxs []ast.Expr
				e := ast.Expr(ix)
				for {
					y, ok := unparen(e).(*ast.IndexExpr)
					if !ok {
						break
					}
					idxs = append([]ast.Expr{y.Index}, idxs...)
					e = y.X
				}
				if len(idxs) > len(loops) {
					set("store `" + src(lh) + "` is not inside loops over the corresponding levels")
					continue
				}
				base := len(loops) - len(idxs)
				for k, ie := range idxs {
					if off, ok := sc.idxOffset(ie, loops[base+k].Idx); !ok || off != 0 {
						set("store `" + src(lh) + "`: index `" + src(ie) + "` is not the loop index (vertex order not preserved)")
					}
				}
				l := loops[len(loops)-1]
				var srcColl types.Object
				if l.Hi.Of != nil {
					srcColl = rootObj(info, l.Hi.Of)
				}
				if !derivesFrom(info, sc, rhs, srcColl, l, 0) && !mentionsIndexBy(info, rhs, l.Idx) {
					set("value stored by `" + src(x) + "` does not come from the element at the same index")
				}
			}
		}
	}
	walk(fd.Body, nil, nil)
	if stores == 0 && msg == "" {
		return "no vertex store found"
	}
	return msg
}

func mentionsIndexBy(info *types.Info, e ast.Node, idx types.Object) bool {
	found := false
	ast.Inspect(e, func(n ast.Node) bool {
		if ix, ok := n.(*ast.IndexExpr); ok && idx != nil && objOf(info, ix.Index) == idx {
			found = true
		}
		return !found
	})
	return found
}

type partLoop struct {
	j types.Object
}

// isStartEnd: e is the variable bound to result #which of the part-bounds helper.
func (a *c16) isStartEnd(fd *ast.FuncDecl, bounds *types.Func, e ast.Expr, which int) bool {
	o := objOf(a.info, e)
	if o == nil || bounds == nil {
		return false
	}
	ok := false
	ast.Inspect(fd.Body, func(n ast.Node) bool {
		as, isAs := n.(*ast.AssignStmt)
		if !isAs || len(as.Lhs) != 2 || len(as.Rhs) != 1 {
			return true
		}
		if call, isCall := unparen(as.Rhs[0]).(*ast.CallExpr); isCall && callee(a.info, call) == bounds {
			if objOf(a.info, as.Lhs[which]) == o {
				ok = true
			}
		}
		return true
	})
	return ok
}

// partLoopOf recognises `for j := start; j < end; j++` and `for j := end-1; j >= start; j--`.
func (a *c16) partLoopOf(fs *ast.ForStmt, sc *fnScope, bounds *types.Func, fd *ast.FuncDecl) *partLoop {
	init, ok := fs.Init.(*ast.AssignStmt)
	if !ok || len(init.Lhs) != 1 || len(init.Rhs) != 1 || fs.Cond == nil || fs.Post == nil {
		return nil
	}
	j := objOf(a.info, init.Lhs[0])
	cond, ok := unparen(fs.Cond).(*ast.BinaryExpr)
	post, ok2 := fs.Post.(*ast.IncDecStmt)
	if j == nil || !ok || !ok2 || objOf(a.info, cond.X) != j || objOf(a.info, post.X) != j || sc.writtenIn(j, fs.Body) {
		return nil
	}
	if post.Tok == token.INC {
		if a.isStartEnd(fd, bounds, init.Rhs[0], 0) && cond.Op == token.LSS && a.isStartEnd(fd, bounds, cond.Y, 1) {
			return &partLoop{j}
		}
		return nil
	}
	// j := end-1; j >= start; j--
	b, ok := unparen(init.Rhs[0]).(*ast.BinaryExpr)
	if !ok || b.Op != token.SUB || !a.isStartEnd(fd, bounds, b.X, 1) {
		return nil
	}
	if k, ok := constInt(a.info, b.Y); !ok || k != 1 {
		return nil
	}
	if cond.Op == token.GEQ && a.isStartEnd(fd, bounds, cond.Y, 0) {
		return &partLoop{j}
	}
	return nil
}

// ---------------------------------------------------------------- R3

func (a *c16) closing() {
	c := a.c
	found := 0
	for _, fn := range c.P.RepoFuncs() {
		if c.P.DeclPkg(fn) != a.p {
			continue
		}
		fd := c.P.Decl(fn)
		sc := newFnScope(a.info, fd.Body)
		ast.Inspect(fd.Body, func(n ast.Node) bool {
			is, ok := n.(*ast.IfStmt)
			if !ok || len(is.Body.List) != 1 {
				return true
			}
			as, ok := is.Body.List[0].(*ast.AssignStmt)
			if !ok || len(as.Rhs) != 1 {
				return true
			}
			call, ok := unparen(as.Rhs[0]).(*ast.CallExpr)
			if !ok || builtinName(a.info, call) != "append" || len(call.Args) != 2 || call.Ellipsis.IsValid() {
				return true
			}
			// append(X, X[0])
			elem, ok := unparen(call.Args[1]).(*ast.IndexExpr)
			if !ok || !sameExpr(a.info, elem.X, call.Args[0]) || !sameExpr(a.info, as.Lhs[0], call.Args[0]) {
				return true
			}
			if k, ok := constInt(a.info, elem.Index); !ok || k != 0 {
				return true
			}
			found++
			name := c.P.FuncName(fn) + "#ring-closing"
			// condition: len(r) > 0 && first != last
			atoms := conjuncts(is.Cond, true)
			nonEmpty, neq := false, false
			for _, at := range atoms {
				e := unparen(at.E)
				if b, ok := e.(*ast.BinaryExpr); ok && at.Truth {
					if la := lenArg(a.info, b.X); la != nil {
						k, kok := constInt(a.info, b.Y)
						if kok && ((b.Op == token.GTR && k == 0) || (b.Op == token.GEQ && k == 1) || (b.Op == token.NEQ && k == 0)) {
							nonEmpty = true
						}
					}
					if b.Op == token.NEQ && a.firstLast(sc, b.X, b.Y) {
						neq = true
					}
				}
				if cl, ok := e.(*ast.CallExpr); ok && !at.Truth {
					if sel, ok := unparen(cl.Fun).(*ast.SelectorExpr); ok && sel.Sel.Name == "Equals" && len(cl.Args) == 1 && a.firstLast(sc, sel.X, cl.Args[0]) {
						neq = true
					}
				}
			}
			// the slice appended to must own its backing array: a window X = block[a:b] of a shared
			// block has spare capacity that belongs to the next ring, and append writes into it
			shared := ""
			ast.Inspect(fd.Body, func(m ast.Node) bool {
				as2, ok := m.(*ast.AssignStmt)
				if !ok || as2 == as {
					return true
				}
				for i, lh := range as2.Lhs {
					if !sameExpr(a.info, lh, call.Args[0]) {
						continue
					}
					rhs := as2.Rhs[min(i, len(as2.Rhs)-1)]
					if se, ok := unparen(rhs).(*ast.SliceExpr); ok {
						if !(se.Slice3 && se.Max != nil && se.High != nil && sameExpr(a.info, se.Max, se.High)) {
							shared = src(as2)
						}
					}
				}
				return true
			})
			if shared != "" {
				c.Bad("C16.R3", name, is.Pos(), "`%s` makes the ring a window of a larger block without limiting its capacity, so the closing `%s` writes the first vertex over the first vertex of the next ring instead of growing this one", shared, src(as))
				return true
			}
			switch {
			case !neq:
				c.Bad("C16.R3", name, is.Pos(), "the first vertex is appended under `%s`, which is not 'first vertex ≠ last vertex': closed rings get a duplicate vertex or unclosed rings stay open", src(is.Cond))
			case !nonEmpty:
				c.Bad("C16.R3", name, is.Pos(), "the closing test indexes the ring without a non-empty guard: an empty ring panics")
			default:
				c.OK("C16.R3", name, is.Pos(), "closed exactly when non-empty and first ≠ last")
			}
			return true
		})
	}
	if found == 0 {
		c.Bad("C16.R3", "encoding/shp#ring-closing", token.NoPos, "no ring is closed on the way to the shapefile: unclosed rings are written as they are")
	}
}

// firstLast: {x, y} = {r[0], r[len(r)-1]} of the same r.
func (a *c16) firstLast(sc *fnScope, x, y ast.Expr) bool {
	xi, ok1 := unparen(x).(*ast.IndexExpr)
	yi, ok2 := unparen(y).(*ast.IndexExpr)
	if !ok1 || !ok2 || !sameExpr(a.info, xi.X, yi.X) {
		return false
	}
	ax, ay := sc.aff(xi.Index), sc.aff(yi.Index)
	first := func(f Aff) bool { return f.ok && f.Of == nil && f.K == 0 }
	last := func(f Aff) bool { return f.ok && f.Of != nil && f.K == -1 && sameExpr(a.info, f.Of, xi.X) }
	return (first(ax) && last(ay)) || (last(ax) && first(ay))
}

// ---------------------------------------------------------------- R4

func (a *c16) attributes() {
	c := a.c
	_, nfd := a.fn("NewEncoder")
	if nfd == nil {
		return
	}
	kindName := func(e ast.Expr) string {
		if sel, ok := unparen(e).(*ast.SelectorExpr); ok {
			if cst, ok := a.info.Uses[sel.Sel].(*types.Const); ok && cst.Pkg() != nil && cst.Pkg().Path() == "reflect" {
				return cst.Name()
			}
		}
		return ""
	}
	enc := map[string]string{}
	widths := map[string][]int64{}
	ast.Inspect(nfd.Body, func(n ast.Node) bool {
		cc, ok := n.(*ast.CaseClause)
		if !ok {
			return true
		}
		for _, e := range cc.List {
			k := kindName(e)
			if k == "" {
				continue
			}
			ast.Inspect(&ast.BlockStmt{List: cc.Body}, func(m ast.Node) bool {
				if call, ok := m.(*ast.CallExpr); ok {
					if f := callee(a.info, call); f != nil && f.Pkg() != nil && f.Pkg().Path() == goshpPath && strings.HasSuffix(f.Name(), "Field") {
						enc[k] = f.Name()
						for _, arg := range call.Args[1:] {
							if v, ok := constInt(a.info, arg); ok {
								widths[k] = append(widths[k], v)
							}
						}
					}
				}
				return true
			})
		}
		return true
	})
	want := map[string]string{"Int": "NumberField", "Float64": "FloatField", "String": "StringField"}
	for k, w := range want {
		cons := "encoding/shp.NewEncoder#field(" + k + ")"
		if enc[k] == w {
			c.OK("C16.R4", cons, nfd.Pos(), "%s → shp.%s%v", k, w, widths[k])
		} else {
			c.Bad("C16.R4", cons, nfd.Pos(), "a struct field of kind %s becomes shp.%s, want shp.%s", k, enc[k], w)
		}
	}
	// widths
	okW := func(cond bool, cons, good, bad string) {
		if cond {
			c.OK("C16.R4", cons, nfd.Pos(), "%s", good)
		} else {
			c.Bad("C16.R4", cons, nfd.Pos(), "%s", bad)
		}
	}
	if w := widths["String"]; len(w) == 1 {
		okW(w[0] >= 50 && w[0] <= 254, "encoding/shp.NewEncoder#width(String)", fmt.Sprintf("string width %d ≥ 50", w[0]), fmt.Sprintf("string width %d: strings up to 50 bytes would be truncated (or the dBase limit 254 is exceeded)", w[0]))
	} else {
		c.Unk("C16.R4", "encoding/shp.NewEncoder#width(String)", nfd.Pos(), "constant width not found")
	}
	if w := widths["Int"]; len(w) == 1 {
		okW(w[0] >= 10, "encoding/shp.NewEncoder#width(Int)", fmt.Sprintf("integer width %d ≥ 10", w[0]), fmt.Sprintf("integer width %d < 10 digits", w[0]))
	} else {
		c.Unk("C16.R4", "encoding/shp.NewEncoder#width(Int)", nfd.Pos(), "constant width not found")
	}
	if w := widths["Float64"]; len(w) == 2 {
		okW(w[1] >= 10 && w[0] >= 1+17+1+w[1], "encoding/shp.NewEncoder#width(Float64)", fmt.Sprintf("float width %d, precision %d", w[0], w[1]), fmt.Sprintf("float width %d / precision %d: need precision ≥ 10 and width ≥ sign + 17 digits + point + precision", w[0], w[1]))
	} else {
		c.Unk("C16.R4", "encoding/shp.NewEncoder#width(Float64)", nfd.Pos(), "constant width/precision not found")
	}
	// decoder kinds
	var dfd *ast.FuncDecl
	for _, fn := range c.P.RepoFuncs() {
		if c.P.DeclPkg(fn) == a.p && fn.Name() == "setFieldToAttribute" {
			dfd = c.P.Decl(fn)
		}
	}
	if dfd == nil {
		// discover: method of Decoder with a switch on Kind()
		for _, fn := range c.P.RepoFuncs() {
			if c.P.DeclPkg(fn) != a.p {
				continue
			}
			fd := c.P.Decl(fn)
			ast.Inspect(fd.Body, func(n ast.Node) bool {
				if sw, ok := n.(*ast.SwitchStmt); ok && sw.Tag != nil && strings.HasSuffix(src(sw.Tag), ".Kind()") && fn.Name() != "NewEncoder" {
					dfd = fd
				}
				return true
			})
		}
	}
	if dfd == nil {
		c.Unk("C16.R4", "encoding/shp#decoder-kinds", token.NoPos, "attribute decoding switch not found")
		return
	}
	dec := map[string]bool{}
	ast.Inspect(dfd.Body, func(n ast.Node) bool {
		if cc, ok := n.(*ast.CaseClause); ok {
			for _, e := range cc.List {
				if k := kindName(e); k != "" {
					dec[k] = true
				}
			}
		}
		return true
	})
	var missing []string
	for k := range want {
		if !dec[k] {
			missing = append(missing, k)
		}
	}
	for k := range dec {
		if _, ok := want[k]; !ok {
			missing = append(missing, "+"+k)
		}
	}
	sort.Strings(missing)
	if len(missing) == 0 {
		c.OK("C16.R4", "encoding/shp#decoder-kinds", dfd.Pos(), "decoder parses exactly {Int, Float64, String}")
	} else {
		c.Bad("C16.R4", "encoding/shp#decoder-kinds", dfd.Pos(), "encoder and decoder attribute kinds differ: %v", missing)
	}
	_ = constant.MakeInt64
}

// ---------------------------------------------------------------- R5

func (a *c16) matching() {
	c := a.c
	decT := c.P.NamedType("encoding/shp", "Decoder")
	if decT == nil {
		c.Unk("C16.R5", "encoding/shp.Decoder", token.NoPos, "type anchor does not resolve")
		return
	}
	var idx *types.Var
	if st, ok := decT.Underlying().(*types.Struct); ok {
		for i := 0; i < st.NumFields(); i++ {
			if m, ok := st.Field(i).Type().Underlying().(*types.Map); ok {
				if b, ok := m.Key().Underlying().(*types.Basic); ok && b.Kind() == types.String {
					if e, ok := m.Elem().Underlying().(*types.Basic); ok && e.Info()&types.IsInteger != 0 {
						idx = st.Field(i)
					}
				}
			}
		}
	}
	if idx == nil {
		c.Unk("C16.R5", "encoding/shp.Decoder#column-index", token.NoPos, "no map[string]int field found on Decoder")
		return
	}
	isIdx := func(e ast.Expr) bool {
		sel, ok := unparen(e).(*ast.SelectorExpr)
		if !ok {
			return false
		}
		sl := a.info.Selections[sel]
		return sl != nil && sl.Obj() == idx
	}
	for _, fn := range c.P.RepoFuncs() {
		if c.P.DeclPkg(fn) != a.p {
			continue
		}
		fd := c.P.Decl(fn)
		sc := newFnScope(a.info, fd.Body)
		// classification of a key expression
		var classify func(e ast.Expr, depth int, lower *bool, kinds map[string]bool)
		classify = func(e ast.Expr, depth int, lower *bool, kinds map[string]bool) {
			if depth > 5 || e == nil {
				return
			}
			ast.Inspect(e, func(n ast.Node) bool {
				switch x := n.(type) {
				case *ast.CallExpr:
					if f := callee(a.info, x); f != nil {
						if isFuncIn(f, "strings", "ToLower") {
							*lower = true
						}
						if f.Pkg() != nil && f.Pkg().Path() == "reflect" && (f.Name() == "Get" || f.Name() == "Lookup") {
							kinds["tag"] = true
							return false
						}
					}
				case *ast.SelectorExpr:
					if sl := a.info.Selections[x]; sl != nil && sl.Kind() == types.FieldVal {
						if v, ok := sl.Obj().(*types.Var); ok && v.Pkg() != nil && v.Pkg().Path() == "reflect" && v.Name() == "Name" {
							kinds["name"] = true
							return false
						}
					}
				case *ast.Ident:
					if o := objOf(a.info, x); o != nil {
						if _, isVar := o.(*types.Var); isVar {
							ds := sc.defs[o]
							allLower := len(ds) > 0
							for _, d := range ds {
								if d == nil {
									allLower = false
									continue
								}
								lw := false
								classify(d, depth+1, &lw, kinds)
								if !lw {
									allLower = false
								}
							}
							if allLower {
								*lower = true
							}
							if len(ds) == 0 {
								kinds["other:"+o.Name()] = true
							}
						}
					}
				}
				return true
			})
		}
		nStore, nLookup := 0, 0
		byKind := map[string]bool{}
		usesReflectFields := false
		var firstLookup token.Pos
		ast.Inspect(fd.Body, func(n ast.Node) bool {
			as, ok := n.(*ast.AssignStmt)
			if !ok {
				return true
			}
			// stores M[k] = i
			for _, lh := range as.Lhs {
				if ix, ok := unparen(lh).(*ast.IndexExpr); ok && isIdx(ix.X) {
					nStore++
					lw := false
					classify(ix.Index, 0, &lw, map[string]bool{})
					cons := fmt.Sprintf("%s#store:%s", c.P.FuncName(fn), src(lh))
					if lw {
						c.OK("C16.R5", cons, as.Pos(), "column index keyed by the lower-cased column name")
					} else {
						c.Bad("C16.R5", cons, as.Pos(), "the column index is keyed by `%s`, which is not lower-cased: lookups are lower-cased, so a column with capitals is never found", src(ix.Index))
					}
				}
			}
			// lookups j, ok := M[k]
			if len(as.Rhs) == 1 {
				if ix, ok := unparen(as.Rhs[0]).(*ast.IndexExpr); ok && isIdx(ix.X) {
					nLookup++
					if firstLookup == token.NoPos {
						firstLookup = as.Pos()
					}
					lw := false
					kinds := map[string]bool{}
					classify(ix.Index, 0, &lw, kinds)
					cons := fmt.Sprintf("%s#lookup:%s", c.P.FuncName(fn), src(ix.Index))
					if !lw {
						c.Bad("C16.R5", cons, as.Pos(), "lookup key `%s` is not lower-cased while the index is: matching is no longer case-insensitive", src(ix.Index))
						return true
					}
					var ks []string
					for k := range kinds {
						ks = append(ks, k)
					}
					sort.Strings(ks)
					if kinds["tag"] || kinds["name"] {
						usesReflectFields = true
					}
					if len(ks) == 1 {
						byKind[ks[0]] = true
					}
					c.OK("C16.R5", cons, as.Pos(), "lower-cased key derived from %v", ks)
				}
			}
			return true
		})
		if usesReflectFields {
			cons := c.P.FuncName(fn) + "#tag-or-name"
			switch {
			case !byKind["tag"]:
				c.Bad("C16.R5", cons, firstLookup, "no lookup is keyed by the struct tag alone: a field whose tag names the column is not matched by it")
			case !byKind["name"]:
				c.Bad("C16.R5", cons, firstLookup, "no lookup is keyed by the Go field name alone: a field that carries a tag is never matched by its name, so it silently keeps its zero value when the file's column is named after the field")
			default:
				c.OK("C16.R5", cons, firstLookup, "one lookup by tag, one independent lookup by field name")
			}
		}
		_ = nStore
		_ = nLookup
	}
}

// ---------------------------------------------------------------- R6

// rowCursor: the attribute-row counter advances with the shape cursor.  In every Decoder
// method that advances the shape cursor (a call of the embedded reader's Next), each
// return reached with "there was a record" and no error recorded has passed exactly one
// increment of the row counter; otherwise the attributes of later records are read from an
// earlier row (same order / equal attributes clause).
func (a *c16) rowCursor() {
	c := a.c
	decT := c.P.NamedType("encoding/shp", "Decoder")
	if decT == nil {
		return
	}
	// the int field incremented by the decoding methods
	for _, fn := range c.P.RepoFuncs() {
		if c.P.DeclPkg(fn) != a.p {
			continue
		}
		sig := fn.Type().(*types.Signature)
		if sig.Recv() == nil || named(sig.Recv().Type()) != decT {
			continue
		}
		fd := c.P.Decl(fn)
		recv := receiverVar(a.info, fd)
		callsNext := false
		var moreVars = map[types.Object]bool{}
		ast.Inspect(fd.Body, func(n ast.Node) bool {
			as, ok := n.(*ast.AssignStmt)
			if !ok || len(as.Rhs) != 1 {
				return true
			}
			if call, ok := unparen(as.Rhs[0]).(*ast.CallExpr); ok {
				if f := callee(a.info, call); f != nil && f.Name() == "Next" && f.Pkg() != nil && f.Pkg().Path() == goshpPath {
					callsNext = true
					if o := objOf(a.info, as.Lhs[0]); o != nil {
						moreVars[o] = true
					}
				}
			}
			return true
		})
		if !callsNext {
			continue
		}
		name := c.P.FuncName(fn) + "#row-cursor"
		isErrExpr := func(e ast.Expr) bool {
			t := a.info.TypeOf(e)
			return t != nil && types.Identical(t, types.Universe.Lookup("error").Type())
		}
		var exempting func(e ast.Expr, truth bool) bool
		exempting = func(e ast.Expr, truth bool) bool {
			e = unparen(e)
			switch x := e.(type) {
			case *ast.UnaryExpr:
				if x.Op == token.NOT {
					return exempting(x.X, !truth)
				}
			case *ast.BinaryExpr:
				switch x.Op {
				case token.LOR:
					if truth {
						return exempting(x.X, true) && exempting(x.Y, true)
					}
					return exempting(x.X, false) || exempting(x.Y, false)
				case token.LAND:
					if truth {
						return exempting(x.X, true) || exempting(x.Y, true)
					}
					return exempting(x.X, false) && exempting(x.Y, false)
				case token.NEQ, token.EQL:
					for _, pr := range [][2]ast.Expr{{x.X, x.Y}, {x.Y, x.X}} {
						if isErrExpr(pr[0]) && isNilConst(a.info, pr[1]) {
							return (x.Op == token.NEQ) == truth
						}
					}
				}
			case *ast.Ident:
				if o := objOf(a.info, x); o != nil && moreVars[o] {
					return !truth
				}
			}
			return false
		}
		var bad ast.Node
		var why string
		nRet := 0
		cl := &FactsClient{}
		cl.OnBranch = func(cond ast.Expr, truth bool, s Facts) Facts {
			if exempting(cond, truth) {
				s["exempt"] = true
			}
			return s
		}
		cl.OnStmt = func(n ast.Node, s Facts) Facts {
			switch x := n.(type) {
			case *ast.IncDecStmt:
				if sel, ok := unparen(x.X).(*ast.SelectorExpr); ok && objOf(a.info, sel.X) == recv && x.Tok == token.INC {
					if s["inc"] {
						s["inc2"] = true
					}
					s["inc"] = true
				}
			case *ast.AssignStmt:
				for i, l := range x.Lhs {
					if sel, ok := unparen(l).(*ast.SelectorExpr); ok && objOf(a.info, sel.X) == recv && isErrExpr(l) {
						if i < len(x.Rhs) && !isNilConst(a.info, x.Rhs[i]) {
							s["exempt"] = true
						}
					}
				}
			}
			return s
		}
		cl.OnReturn = func(r *ast.ReturnStmt, s Facts) {
			nRet++
			if bad != nil {
				return
			}
			var at ast.Node = fd
			if r != nil {
				at = r
			}
			if s["exempt"] {
				return
			}
			if !s["inc"] {
				bad, why = at, "returns after a record was fetched (no error recorded, more records reported) without advancing the attribute-row counter: every later record is decoded with the attributes of an earlier row"
			} else if s["inc2"] {
				bad, why = at, "advances the attribute-row counter twice for one record"
			}
		}
		fl := &Flow[Facts]{C: cl, Info: a.info}
		fl.Run(fd.Body, Facts{})
		switch {
		case len(fl.Unsupported) > 0:
			c.Unk("C16.R6", name, fl.Unsupported[0].Pos(), "unsupported control flow")
		case bad != nil:
			c.Bad("C16.R6", name, bad.Pos(), "`%s` %s", strings.SplitN(src(bad), "\n", 2)[0], why)
		default:
			c.OK("C16.R6", name, fd.Pos(), "%d return paths: each non-error path with a record increments the row counter exactly once", nRet)
		}
	}
}
