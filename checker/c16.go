package main

// C16 — shapefile write/read round trip (geometry conversion and attribute tables).

import (
	"fmt"
	"go/ast"
	"go/token"
	"go/types"
	"sort"
	"strings"
)

func init() { register("C16", true, checkC16) }

const goshpPath = "github.com/jonas-p/go-shp"

type c16 struct {
	c    *Ctx
	info *types.Info
	p    *pkgT
}

func checkC16(c *Ctx) {
	c.Rule("C16.R1", "model evaluation at the go-shp boundary: for each supported geometry type (Point, MultiPoint, LineString, MultiLineString, Polygon, *Bounds) NewEncoder given a record struct with a field of that type creates a file whose shape type matches the concrete go-shp shape geom2Shp then writes into it (go-shp reads every record back as the file's type), and DecodeRow hands back the expected geom type (line strings as one-part MultiLineStrings, boxes as Polygons), storable in a geom.Geom field")
	c.Rule("C16.R2", "model evaluation: geometries with 1–6 parts of 0–7 vertices (empty parts in the middle included) written through Encode / EncodeFields and read back through DecodeRow / DecodeRowFields come back part by part with the same vertices in the same order; the part and point counts a written shape declares agree with the slices it carries")
	c.Rule("C16.R3", "model evaluation: a polygon ring comes back closed by a repetition of its first vertex exactly when it was non-empty and first ≠ last, unchanged otherwise; a box comes back as a closed five-vertex rectangle through its four corners")
	c.Rule("C16.R6", "model evaluation: three records written through either encoder come back in order, each with its own geometry and attributes, followed by end of file and a nil Error()")
	c.Rule("C16.R5", "attribute columns are matched case-insensitively and by tag or name — model evaluation: a record struct whose tags and names differ in case from the column names, with a tag that names no column and a field that matches none, is filled exactly as documented")
	c.Rule("C16.R4", "model evaluation: int, float64 and string struct fields become number, float and character columns whose widths satisfy the documented guarantees (string ≥ 50, float precision ≥ 10, float width ≥ sign+17 digits+point+precision, int width ≥ 10); an int, a float and a string of up to 50 bytes written at (row, column) come back equal through DecodeRow and DecodeRowFields from NUL-padded column text")
	p := c.P.Pkg("encoding/shp")
	if p == nil {
		c.Unk("C16.R1", "encoding/shp", token.NoPos, "package not loaded")
		return
	}
	_ = &c16{c: c, info: p.TypesInfo, p: p}
	c16model(c, p)
	c.Floor("C16.R6", 1)
	c.Floor("C16.R5", 1)
	c.Floor("C16.R1", 6)
	c.Floor("C16.R2", 6)
	c.Floor("C16.R3", 1)
	c.Floor("C16.R4", 4)
}

// ---------------------------------------------------------------- R2

func (a *c16) matching() {
	c := a.c
	decT := c.P.NamedType("encoding/shp", "Decoder")
	if decT == nil {
		c.Unk("C16.R5", "encoding/shp.Decoder", token.NoPos, "type anchor does not resolve")
		return
	}
	var idx *types.Var
	if st, ok := decT.Underlying().(*types.Struct); ok {
		for i := 0; i < st.NumFields(); i++ {
			if m, ok := st.Field(i).Type().Underlying().(*types.Map); ok {
				if b, ok := m.Key().Underlying().(*types.Basic); ok && b.Kind() == types.String {
					if e, ok := m.Elem().Underlying().(*types.Basic); ok && e.Info()&types.IsInteger != 0 {
						idx = st.Field(i)
					}
				}
			}
		}
	}
	if idx == nil {
		c.Unk("C16.R5", "encoding/shp.Decoder#column-index", token.NoPos, "no map[string]int field found on Decoder")
		return
	}
	isIdx := func(e ast.Expr) bool {
		sel, ok := unparen(e).(*ast.SelectorExpr)
		if !ok {
			return false
		}
		sl := a.info.Selections[sel]
		return sl != nil && sl.Obj() == idx
	}
	for _, fn := range c.P.RepoFuncs() {
		if c.P.DeclPkg(fn) != a.p {
			continue
		}
		fd := c.P.Decl(fn)
		sc := newFnScope(a.info, fd.Body)
		// classification of a key expression
		var classify func(e ast.Expr, depth int, lower *bool, kinds map[string]bool)
		classify = func(e ast.Expr, depth int, lower *bool, kinds map[string]bool) {
			if depth > 5 || e == nil {
				return
			}
			ast.Inspect(e, func(n ast.Node) bool {
				switch x := n.(type) {
				case *ast.CallExpr:
					if f := callee(a.info, x); f != nil {
						if isFuncIn(f, "strings", "ToLower") {
							*lower = true
						}
						if f.Pkg() != nil && f.Pkg().Path() == "reflect" && (f.Name() == "Get" || f.Name() == "Lookup") {
							kinds["tag"] = true
							return false
						}
					}
				case *ast.SelectorExpr:
					if sl := a.info.Selections[x]; sl != nil && sl.Kind() == types.FieldVal {
						if v, ok := sl.Obj().(*types.Var); ok && v.Pkg() != nil && v.Pkg().Path() == "reflect" && v.Name() == "Name" {
							kinds["name"] = true
							return false
						}
					}
				case *ast.Ident:
					if o := objOf(a.info, x); o != nil {
						if _, isVar := o.(*types.Var); isVar {
							ds := sc.defs[o]
							allLower := len(ds) > 0
							for _, d := range ds {
								if d == nil {
									allLower = false
									continue
								}
								lw := false
								classify(d, depth+1, &lw, kinds)
								if !lw {
									allLower = false
								}
							}
							if allLower {
								*lower = true
							}
							if len(ds) == 0 {
								kinds["other:"+o.Name()] = true
							}
						}
					}
				}
				return true
			})
		}
		nStore, nLookup := 0, 0
		byKind := map[string]bool{}
		usesReflectFields := false
		var firstLookup token.Pos
		ast.Inspect(fd.Body, func(n ast.Node) bool {
			as, ok := n.(*ast.AssignStmt)
			if !ok {
				return true
			}
			// stores M[k] = i
			for _, lh := range as.Lhs {
				if ix, ok := unparen(lh).(*ast.IndexExpr); ok && isIdx(ix.X) {
					nStore++
					lw := false
					classify(ix.Index, 0, &lw, map[string]bool{})
					cons := fmt.Sprintf("%s#store:%s", c.P.FuncName(fn), src(lh))
					if lw {
						c.OK("C16.R5", cons, as.Pos(), "column index keyed by the lower-cased column name")
					} else {
						c.Bad("C16.R5", cons, as.Pos(), "the column index is keyed by `%s`, which is not lower-cased: lookups are lower-cased, so a column with capitals is never found", src(ix.Index))
					}
				}
			}
			// lookups j, ok := M[k]
			if len(as.Rhs) == 1 {
				if ix, ok := unparen(as.Rhs[0]).(*ast.IndexExpr); ok && isIdx(ix.X) {
					nLookup++
					if firstLookup == token.NoPos {
						firstLookup = as.Pos()
					}
					lw := false
					kinds := map[string]bool{}
					classify(ix.Index, 0, &lw, kinds)
					cons := fmt.Sprintf("%s#lookup:%s", c.P.FuncName(fn), src(ix.Index))
					if !lw {
						c.Bad("C16.R5", cons, as.Pos(), "lookup key `%s` is not lower-cased while the index is: matching is no longer case-insensitive", src(ix.Index))
						return true
					}
					var ks []string
					for k := range kinds {
						ks = append(ks, k)
					}
					sort.Strings(ks)
					if kinds["tag"] || kinds["name"] {
						usesReflectFields = true
					}
					if len(ks) == 1 {
						byKind[ks[0]] = true
					}
					c.OK("C16.R5", cons, as.Pos(), "lower-cased key derived from %v", ks)
				}
			}
			return true
		})
		if usesReflectFields {
			cons := c.P.FuncName(fn) + "#tag-or-name"
			switch {
			case !byKind["tag"]:
				c.Bad("C16.R5", cons, firstLookup, "no lookup is keyed by the struct tag alone: a field whose tag names the column is not matched by it")
			case !byKind["name"]:
				c.Bad("C16.R5", cons, firstLookup, "no lookup is keyed by the Go field name alone: a field that carries a tag is never matched by its name, so it silently keeps its zero value when the file's column is named after the field")
			default:
				c.OK("C16.R5", cons, firstLookup, "one lookup by tag, one independent lookup by field name")
			}
		}
		_ = nStore
		_ = nLookup
	}
}

// ---------------------------------------------------------------- R6

// rowCursor: the attribute-row counter advances with the shape cursor.  In every Decoder
// method that advances the shape cursor (a call of the embedded reader's Next), each
// return reached with "there was a record" and no error recorded has passed exactly one
// increment of the row counter; otherwise the attributes of later records are read from an
// earlier row (same order / equal attributes clause).
func (a *c16) rowCursor() {
	c := a.c
	decT := c.P.NamedType("encoding/shp", "Decoder")
	if decT == nil {
		return
	}
	// the int field incremented by the decoding methods
	for _, fn := range c.P.RepoFuncs() {
		if c.P.DeclPkg(fn) != a.p {
			continue
		}
		sig := fn.Type().(*types.Signature)
		if sig.Recv() == nil || named(sig.Recv().Type()) != decT {
			continue
		}
		fd := c.P.Decl(fn)
		recv := receiverVar(a.info, fd)
		callsNext := false
		var moreVars = map[types.Object]bool{}
		ast.Inspect(fd.Body, func(n ast.Node) bool {
			as, ok := n.(*ast.AssignStmt)
			if !ok || len(as.Rhs) != 1 {
				return true
			}
			if call, ok := unparen(as.Rhs[0]).(*ast.CallExpr); ok {
				if f := callee(a.info, call); f != nil && f.Name() == "Next" && f.Pkg() != nil && f.Pkg().Path() == goshpPath {
					callsNext = true
					if o := objOf(a.info, as.Lhs[0]); o != nil {
						moreVars[o] = true
					}
				}
			}
			return true
		})
		if !callsNext {
			continue
		}
		name := c.P.FuncName(fn) + "#row-cursor"
		isErrExpr := func(e ast.Expr) bool {
			t := a.info.TypeOf(e)
			return t != nil && types.Identical(t, types.Universe.Lookup("error").Type())
		}
		var exempting func(e ast.Expr, truth bool) bool
		exempting = func(e ast.Expr, truth bool) bool {
			e = unparen(e)
			switch x := e.(type) {
			case *ast.UnaryExpr:
				if x.Op == token.NOT {
					return exempting(x.X, !truth)
				}
			case *ast.BinaryExpr:
				switch x.Op {
				case token.LOR:
					if truth {
						return exempting(x.X, true) && exempting(x.Y, true)
					}
					return exempting(x.X, false) || exempting(x.Y, false)
				case token.LAND:
					if truth {
						return exempting(x.X, true) || exempting(x.Y, true)
					}
					return exempting(x.X, false) && exempting(x.Y, false)
				case token.NEQ, token.EQL:
					for _, pr := range [][2]ast.Expr{{x.X, x.Y}, {x.Y, x.X}} {
						if isErrExpr(pr[0]) && isNilConst(a.info, pr[1]) {
							return (x.Op == token.NEQ) == truth
						}
					}
				}
			case *ast.Ident:
				if o := objOf(a.info, x); o != nil && moreVars[o] {
					return !truth
				}
			}
			return false
		}
		var bad ast.Node
		var why string
		nRet := 0
		cl := &FactsClient{}
		cl.OnBranch = func(cond ast.Expr, truth bool, s Facts) Facts {
			if exempting(cond, truth) {
				s["exempt"] = true
			}
			return s
		}
		cl.OnStmt = func(n ast.Node, s Facts) Facts {
			switch x := n.(type) {
			case *ast.IncDecStmt:
				if sel, ok := unparen(x.X).(*ast.SelectorExpr); ok && objOf(a.info, sel.X) == recv && x.Tok == token.INC {
					if s["inc"] {
						s["inc2"] = true
					}
					s["inc"] = true
				}
			case *ast.AssignStmt:
				for i, l := range x.Lhs {
					if sel, ok := unparen(l).(*ast.SelectorExpr); ok && objOf(a.info, sel.X) == recv && isErrExpr(l) {
						if i < len(x.Rhs) && !isNilConst(a.info, x.Rhs[i]) {
							s["exempt"] = true
						}
					}
				}
			}
			return s
		}
		cl.OnReturn = func(r *ast.ReturnStmt, s Facts) {
			nRet++
			if bad != nil {
				return
			}
			var at ast.Node = fd
			if r != nil {
				at = r
			}
			if s["exempt"] {
				return
			}
			if !s["inc"] {
				bad, why = at, "returns after a record was fetched (no error recorded, more records reported) without advancing the attribute-row counter: every later record is decoded with the attributes of an earlier row"
			} else if s["inc2"] {
				bad, why = at, "advances the attribute-row counter twice for one record"
			}
		}
		fl := &Flow[Facts]{C: cl, Info: a.info}
		fl.Run(fd.Body, Facts{})
		switch {
		case len(fl.Unsupported) > 0:
			c.Unk("C16.R6", name, fl.Unsupported[0].Pos(), "unsupported control flow")
		case bad != nil:
			c.Bad("C16.R6", name, bad.Pos(), "`%s` %s", strings.SplitN(src(bad), "\n", 2)[0], why)
		default:
			c.OK("C16.R6", name, fd.Pos(), "%d return paths: each non-error path with a record increments the row counter exactly once", nRet)
		}
	}
}
