package main

// C16 — shapefile write/read round trip (geometry conversion and attribute tables).

import (
	"go/token"
	"go/types"
)

func init() { register("C16", true, checkC16) }

const goshpPath = "github.com/jonas-p/go-shp"

type c16 struct {
	c    *Ctx
	info *types.Info
	p    *pkgT
}

func checkC16(c *Ctx) {
	c.Rule("C16.R1", "model evaluation at the go-shp boundary: for each supported geometry type (Point, MultiPoint, LineString, MultiLineString, Polygon, *Bounds) NewEncoder given a record struct with a field of that type creates a file whose shape type matches the concrete go-shp shape geom2Shp then writes into it (go-shp reads every record back as the file's type), and DecodeRow hands back the expected geom type (line strings as one-part MultiLineStrings, boxes as Polygons), storable in a geom.Geom field")
	c.Rule("C16.R2", "model evaluation: geometries with 1–6 parts of 0–7 vertices (empty parts in the middle included) written through Encode / EncodeFields and read back through DecodeRow / DecodeRowFields come back part by part with the same vertices in the same order; the part and point counts a written shape declares agree with the slices it carries")
	c.Rule("C16.R3", "model evaluation: a polygon ring comes back closed by a repetition of its first vertex exactly when it was non-empty and first ≠ last, unchanged otherwise; a box comes back as a closed five-vertex rectangle through its four corners")
	c.Rule("C16.R6", "model evaluation: three records written through either encoder come back in order, each with its own geometry and attributes, followed by end of file and a nil Error()")
	c.Rule("C16.R5", "attribute columns are matched case-insensitively and by tag or name — model evaluation: a record struct whose tags and names differ in case from the column names, with a tag that names no column and a field that matches none, is filled exactly as documented")
	c.Rule("C16.R4", "model evaluation: int, float64 and string struct fields become number, float and character columns whose widths satisfy the documented guarantees (string ≥ 50, float precision ≥ 10, float width ≥ sign+17 digits+point+precision, int width ≥ 10); an int, a float and a string of up to 50 bytes written at (row, column) come back equal through DecodeRow and DecodeRowFields from NUL-padded column text")
	p := c.P.Pkg("encoding/shp")
	if p == nil {
		c.Unk("C16.R1", "encoding/shp", token.NoPos, "package not loaded")
		return
	}
	_ = &c16{c: c, info: p.TypesInfo, p: p}
	c16model(c, p)
	c.Floor("C16.R6", 1)
	c.Floor("C16.R5", 1)
	c.Floor("C16.R1", 6)
	c.Floor("C16.R2", 6)
	c.Floor("C16.R3", 1)
	c.Floor("C16.R4", 4)
}

// ---------------------------------------------------------------- R2

// ---------------------------------------------------------------- R6
