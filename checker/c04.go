package main

// C04 — bounds are tight envelopes; vertex enumeration is complete and ordered.
//
// R1  lattice operations, decided for every weak ordering of the coordinates
//     (abstract interpretation over the order domain, exhaustive).
// R2  Bounds()/Len() folds are complete (full range, no skip, join on every element).
// R3  iterator guard freshness in the Points() closures (+ no indexing before the
//     first call).   R4  storage order (indices only ++ / reset to 0; exactly one
//     increment of the innermost index between its guard and the return).

import (
	"fmt"
	"go/token"
	"go/types"
)

func init() { register("C04", false, checkC04) }

func checkC04(c *Ctx) {
	c.Rule("C04.R1", "Extend/extendPoint = lattice join (empty operand is the identity), NewBounds = join identity, Overlaps ⇔ closed boxes share a point, Empty ⇔ Max<Min on an axis, Copy field-wise and fresh, box∩box = common rectangle or nil iff no shared area — for every weak ordering of the coordinates; box∩box also for boxes reaching to infinity (strips, half planes, quadrants, the whole plane), with differences and products of ordinates followed by sign under IEEE-754")
	c.Rule("C04.R2", "Len() = number of vertices and Bounds() = smallest box around them (NewBounds() when there are none), evaluated for all eight types on model geometries with empty members in every position")
	c.Rule("C04.R3", "Points(): Len() calls of the iterator yield the vertices in storage order without panicking, for all eight types on model geometries with empty members in every position (leading, trailing, runs, nested)")
	c.Rule("C04.R5", "axis discipline in packages geom, index/rtree and op: no comparison relates an X ordinate to a Y ordinate (directly, through locals, math.Min/Max or ± axis-free terms)")
	e := newC04E2(c)
	e.lattice()
	c04model(c, "C04.R2", "C04.R3")
	c.exhaust = true
	checkAxisDiscipline(c, "C04.R5", "geom", "index/rtree", "op")
	c.Floor("C04.R5", 2)
	c.Floor("C04.R1", 4)
	c.Floor("C04.R2", 16)
	c.Floor("C04.R3", 8)
}

type c04e2 struct {
	c      *Ctx
	it     *oInterp
	bt, pt types.Type
	ords   [][]int64
	joinOK map[*types.Func]string // memo: "" = is a join, else reason
	joinDn map[*types.Func]bool
}

func newC04E2(c *Ctx) *c04e2 {
	e := &c04e2{c: c, it: &oInterp{p: c.P, maxDepth: 5}, joinOK: map[*types.Func]string{}, joinDn: map[*types.Func]bool{}}
	e.bt = c.P.NamedType("geom", "Bounds")
	e.pt = c.P.NamedType("geom", "Point")
	e.ords = weakOrderings(4)
	return e
}

// boxScenario enumerates pairs of boxes: every weak ordering of
// (a.Min, a.Max, b.Min, b.Max) per axis with both boxes valid (Min<=Max), plus
// the canonical empty box for either operand.
type boxPair struct {
	a, b           oBox
	aEmpty, bEmpty bool
}

var emptyBox = oBox{oInf, oInf, -oInf, -oInf}

func (e *c04e2) boxPairs(withEmpty bool) []boxPair {
	var out []boxPair
	var valid [][]int64
	for _, o := range e.ords {
		if o[0] <= o[1] && o[2] <= o[3] {
			valid = append(valid, o)
		}
	}
	for _, ox := range valid {
		for _, oy := range valid {
			out = append(out, boxPair{a: oBox{ox[0], oy[0], ox[1], oy[1]}, b: oBox{ox[2], oy[2], ox[3], oy[3]}})
		}
	}
	if withEmpty {
		// one non-empty operand in all 3x3 single-box orderings, other canonical empty
		for _, x := range [][2]int64{{0, 0}, {0, 2}} {
			for _, y := range [][2]int64{{0, 0}, {0, 2}} {
				v := oBox{x[0], y[0], x[1], y[1]}
				out = append(out, boxPair{a: v, b: emptyBox, bEmpty: true})
				out = append(out, boxPair{a: emptyBox, b: v, aEmpty: true})
			}
		}
		out = append(out, boxPair{a: emptyBox, b: emptyBox, aEmpty: true, bEmpty: true})
	}
	return out
}

// invertedOperands: a valid receiver and an operand that is empty because Max<Min on at
// least one axis with finite coordinates (every weak ordering of the four values per axis).
func (e *c04e2) invertedOperands() []boxPair {
	var out []boxPair
	var validA, inv, any [][]int64
	for _, o := range e.ords {
		if o[0] <= o[1] {
			any = append(any, o)
			if o[2] <= o[3] {
				validA = append(validA, o)
			} else {
				inv = append(inv, o)
			}
		}
	}
	_ = validA
	for _, ox := range inv {
		for _, oy := range any {
			out = append(out, boxPair{a: oBox{ox[0], oy[0], ox[1], oy[1]}, b: oBox{ox[2], oy[2], ox[3], oy[3]}, bEmpty: true})
			out = append(out, boxPair{a: oBox{oy[0], ox[0], oy[1], ox[1]}, b: oBox{oy[2], ox[2], oy[3], ox[3]}, bEmpty: true})
		}
	}
	return out
}

func (e *c04e2) mk(b oBox) *oStruct { return e.it.bounds(e.bt, e.pt, b.minx, b.miny, b.maxx, b.maxy) }

func join(a, b oBox, aEmpty, bEmpty bool) oBox {
	if bEmpty {
		return a
	}
	if aEmpty {
		return b
	}
	return oBox{min64(a.minx, b.minx), min64(a.miny, b.miny), max64(a.maxx, b.maxx), max64(a.maxy, b.maxy)}
}

func (b oBox) String() string {
	return fmt.Sprintf("[(%s,%s)-(%s,%s)]", showVal(oFloat{b.minx}), showVal(oFloat{b.miny}), showVal(oFloat{b.maxx}), showVal(oFloat{b.maxy}))
}

func (e *c04e2) method(name string) *types.Func {
	m := e.c.P.Method("geom", "Bounds", name)
	if m == nil || e.c.P.Decl(m) == nil {
		e.c.Unk("C04.R1", "geom.(*Bounds)."+name, token.NoPos, "API anchor does not resolve")
		return nil
	}
	return m
}

func (e *c04e2) lattice() {
	c := e.c
	// Extend
	if m := e.method("Extend"); m != nil {
		e.checkBoxJoin(m, "C04.R1")
	}
	// NewBounds
	if f := c.P.Func("geom", "NewBounds"); f != nil && c.P.Decl(f) != nil {
		res, why := e.it.Call(f, nil, nil, 0)
		name := c.P.FuncName(f)
		c.Evals(1)
		if why != "" {
			c.Unk("C04.R1", name, c.P.Decl(f).Pos(), "outside the order fragment: %s", why)
		} else if b, ok := boxOf(res[0]); ok && b == emptyBox {
			c.OK("C04.R1", name, c.P.Decl(f).Pos(), "join identity (+Inf,+Inf)-(-Inf,-Inf)")
		} else if hasTop(res[0]) {
			c.Unk("C04.R1", name, c.P.Decl(f).Pos(), "outside the order fragment: NewBounds() = %s", showVal(res[0]))
		} else {
			c.Bad("C04.R1", name, c.P.Decl(f).Pos(), "NewBounds() = %s is not the join identity (+Inf,+Inf)-(-Inf,-Inf)", showVal(res[0]))
		}
	} else {
		c.Unk("C04.R1", "geom.NewBounds", token.NoPos, "API anchor does not resolve")
	}
	// NewBoundsPoint
	if f := c.P.Func("geom", "NewBoundsPoint"); f != nil && c.P.Decl(f) != nil {
		res, why := e.it.Call(f, nil, []oval{e.it.point(e.pt, 0, 2)}, 0)
		name := c.P.FuncName(f)
		c.Evals(1)
		if why != "" {
			c.Unk("C04.R1", name, c.P.Decl(f).Pos(), "outside the order fragment: %s", why)
		} else if b, ok := boxOf(res[0]); ok && b == (oBox{0, 2, 0, 2}) {
			c.OK("C04.R1", name, c.P.Decl(f).Pos(), "degenerate box at the point")
		} else if hasTop(res[0]) {
			c.Unk("C04.R1", name, c.P.Decl(f).Pos(), "outside the order fragment: NewBoundsPoint(p) = %s", showVal(res[0]))
		} else {
			c.Bad("C04.R1", name, c.P.Decl(f).Pos(), "NewBoundsPoint(p) = %s, want Min=Max=p", showVal(res[0]))
		}
	}
	// Overlaps
	if m := e.method("Overlaps"); m != nil {
		name, pos := c.P.FuncName(m), c.P.Decl(m).Pos()
		done := false
		n := 0
		for _, bp := range e.boxPairs(true) {
			n++
			res, why := e.it.Call(m, oPtr{e.mk(bp.a)}, []oval{oPtr{e.mk(bp.b)}}, 0)
			if why != "" {
				c.Unk("C04.R1", name, pos, "outside the order fragment: %s", why)
				done = true
				break
			}
			want := !bp.aEmpty && !bp.bEmpty && bp.a.minx <= bp.b.maxx && bp.b.minx <= bp.a.maxx && bp.a.miny <= bp.b.maxy && bp.b.miny <= bp.a.maxy
			if got, ok := res[0].(oBool); !ok || bool(got) != want {
				c.Bad("C04.R1", name, pos, "ordering a=%s b=%s: Overlaps = %s, closed boxes share a point = %v", bp.a, bp.b, showVal(res[0]), want)
				done = true
				break
			}
		}
		c.Evals(n)
		if !done {
			c.OK("C04.R1", name, pos, "true exactly when the closed boxes share a point, in all %d orderings (incl. the empty box)", n)
		}
	}
	// Empty
	if m := e.method("Empty"); m != nil {
		name, pos := c.P.FuncName(m), c.P.Decl(m).Pos()
		done := false
		n := 0
		two := weakOrderings(2)
		for _, ox := range two {
			for _, oy := range two {
				n++
				b := oBox{ox[0], oy[0], ox[1], oy[1]}
				res, why := e.it.Call(m, oPtr{e.mk(b)}, nil, 0)
				if why != "" {
					c.Unk("C04.R1", name, pos, "outside the order fragment: %s", why)
					done = true
					break
				}
				want := b.maxx < b.minx || b.maxy < b.miny
				if got, ok := res[0].(oBool); !ok || bool(got) != want {
					c.Bad("C04.R1", name, pos, "box %s: Empty = %s, want %v (empty ⇔ Max<Min on some axis; a degenerate box contains its point)", b, showVal(res[0]), want)
					done = true
				}
			}
			if done {
				break
			}
		}
		c.Evals(n)
		if !done {
			c.OK("C04.R1", name, pos, "Max<Min on some axis, all %d orderings", n)
		}
	}
	// Copy
	if m := e.method("Copy"); m != nil {
		name, pos := c.P.FuncName(m), c.P.Decl(m).Pos()
		in := e.mk(oBox{0, 2, 4, 6})
		res, why := e.it.Call(m, oPtr{in}, nil, 0)
		c.Evals(1)
		if why != "" {
			c.Unk("C04.R1", name, pos, "outside the order fragment: %s", why)
		} else if p, ok := res[0].(oPtr); ok && p.s != nil && p.s != in {
			if b, _ := boxOf(p); b == (oBox{0, 2, 4, 6}) {
				c.OK("C04.R1", name, pos, "fresh, field-wise equal")
			} else {
				c.Bad("C04.R1", name, pos, "Copy of [(r0,r2)-(r4,r6)] = %s", showVal(p))
			}
		} else {
			c.Bad("C04.R1", name, pos, "Copy does not return a fresh box: %s", showVal(res[0]))
		}
	}
	// box-box Intersection
	if m := e.method("Intersection"); m != nil {
		boxBoxIntersection(c, e, m, "C04.R1")
	}
}

// boxBoxIntersection: (*Bounds).Intersection with a *Bounds argument.
func boxBoxIntersection(c *Ctx, e *c04e2, m *types.Func, rule string) {
	name, pos := c.P.FuncName(m)+"#box-box", c.P.Decl(m).Pos()
	n := 0
	// differences and products of ordinates (an area, say) are followed by their signs
	e.it.signArith = true
	defer func() { e.it.signArith = false }()
	pairs := e.boxPairs(false)
	// boxes that reach to infinity: strips and half planes that overlap, only touch along an
	// unbounded edge, or are apart (the statement's "all coordinate values including infinities")
	inf := oInf
	for _, p := range [][2]oBox{
		{{-inf, 0, inf, 2}, {-inf, 2, inf, 4}},   // horizontal strips sharing an unbounded edge
		{{-inf, 0, inf, 2}, {-inf, 1, inf, 4}},   // overlapping strips
		{{-inf, 0, inf, 2}, {-inf, 3, inf, 4}},   // strips apart
		{{0, -inf, 2, inf}, {2, -inf, 4, inf}},   // vertical strips sharing an unbounded edge
		{{0, -inf, 2, inf}, {-inf, 0, inf, 2}},   // crossing strips: a finite square
		{{2, -inf, inf, inf}, {0, -inf, 2, inf}}, // a half plane touching a strip
		{{2, -inf, inf, inf}, {0, -inf, 3, inf}}, // a half plane overlapping a strip
		{{-inf, -inf, inf, inf}, {0, 0, 2, 2}},   // the whole plane and a finite box
		{{-inf, -inf, inf, inf}, {0, 1, 0, 3}},   // the whole plane and a box without width
		{{0, 0, inf, inf}, {-inf, -inf, 0, 0}},   // opposite quadrants meeting in a point
	} {
		pairs = append(pairs, boxPair{a: p[0], b: p[1]}, boxPair{a: p[1], b: p[0]})
	}
	for _, bp := range pairs {
		n++
		recv := e.mk(bp.a)
		res, why := e.it.Call(m, oPtr{recv}, []oval{oIface{dyn: oPtr{e.mk(bp.b)}}}, 0)
		if why != "" {
			c.Unk(rule, name, pos, "outside the order fragment: %s", why)
			c.Evals(n)
			return
		}
		ix := oBox{max64(bp.a.minx, bp.b.minx), max64(bp.a.miny, bp.b.miny), min64(bp.a.maxx, bp.b.maxx), min64(bp.a.maxy, bp.b.maxy)}
		noArea := ix.minx >= ix.maxx || ix.miny >= ix.maxy
		gotNil := false
		switch v := res[0].(type) {
		case oNil:
			gotNil = true
		case oIface:
			gotNil = v.dyn == nil && v.opaque == nil
		case oPtr:
			gotNil = v.s == nil
		}
		if isTop(res[0]) {
			c.Unk(rule, name, pos, "result outside the order fragment for a=%s b=%s: %s", bp.a, bp.b, showVal(res[0]))
			c.Evals(n)
			return
		}
		if noArea != gotNil {
			c.Bad(rule, name, pos, "ordering a=%s b=%s: boxes share area = %v but result is %s (nil is returned exactly when the common rectangle has no area on some axis)", bp.a, bp.b, !noArea, showVal(res[0]))
			c.Evals(n)
			return
		}
		if !noArea {
			if hasTop(res[0]) {
				c.Unk(rule, name, pos, "outside the order fragment: the result is %s", showVal(res[0]))
				c.Evals(n)
				return
			}
			if got, ok := boxOf(res[0]); !ok || got != ix {
				c.Bad(rule, name, pos, "ordering a=%s b=%s: result %s, want common rectangle %s", bp.a, bp.b, showVal(res[0]), ix)
				c.Evals(n)
				return
			}
		}
	}
	c.Evals(n)
	c.OK(rule, name, pos, "common rectangle, nil exactly when no shared area, all %d orderings (every weak ordering of finite coordinates, and strips, half planes and quadrants reaching to infinity)", n)
}

// checkBoxJoin: method (b *Bounds) f(b2 *Bounds) must make b the join of b and b2.
func (e *c04e2) checkBoxJoin(m *types.Func, rule string) bool {
	c := e.c
	name, pos := c.P.FuncName(m), c.P.Decl(m).Pos()
	n := 1
	// nil operand
	recv := e.mk(oBox{0, 0, 2, 2})
	if _, why := e.it.Call(m, oPtr{recv}, []oval{oPtr{nil}}, 0); why != "" {
		c.Unk(rule, name, pos, "outside the order fragment with a nil operand: %s", why)
		return false
	} else if b, _ := boxOf(recv); b != (oBox{0, 0, 2, 2}) {
		c.Bad(rule, name, pos, "Extend(nil) changed the receiver to %s", b)
		return false
	}
	for _, bp := range append(e.boxPairs(true), e.invertedOperands()...) {
		n++
		recv := e.mk(bp.a)
		arg := e.mk(bp.b)
		_, why := e.it.Call(m, oPtr{recv}, []oval{oPtr{arg}}, 0)
		if why != "" {
			c.Unk(rule, name, pos, "outside the order fragment: %s", why)
			c.Evals(n)
			return false
		}
		got, ok := boxOf(recv)
		want := join(bp.a, bp.b, bp.aEmpty, bp.bEmpty)
		if hasTop(recv) {
			c.Unk(rule, name, pos, "outside the order fragment: the receiver becomes %s", showVal(recv))
			c.Evals(n)
			return false
		}
		if !ok || got != want {
			extra := ""
			if bp.bEmpty && bp.b != emptyBox {
				extra = " (the operand has Max<Min on an axis, so it is empty — Empty() says so — and the join with an empty box is the receiver itself; its finite coordinates must not leak into the result)"
			} else if bp.bEmpty {
				extra = " (the operand is the empty box NewBounds(), i.e. Bounds() of a vertex-less member: joining with it must leave the receiver unchanged)"
			}
			c.Bad(rule, name, pos, "ordering b=%s b2=%s: receiver becomes %s, lattice join is %s%s", bp.a, bp.b, showVal(recv), want, extra)
			c.Evals(n)
			return false
		}
		if ab, _ := boxOf(arg); ab != bp.b {
			c.Bad(rule, name, pos, "Extend modified its argument")
			return false
		}
	}
	c.Evals(n)
	c.OK(rule, name, pos, "lattice join in all %d orderings (nil and empty operands are identities)", n)
	return true
}

// ---------------------------------------------------------------- R2 folds

// ---------------------------------------------------------------- R3/R4 iterators

type iterBad struct {
	pos token.Pos
	msg string
}

type iterCheck struct {
	c           *Ctx
	info        *types.Info
	recv        types.Object
	bad         []iterBad
	badOrder    []iterBad
	accesses    int
	unsupported string
	seen        map[string]bool
	memberIt    map[types.Object]bool   // variables holding a member iterator (X[j].Points())
	memberOf    map[types.Object]string // … and the member expression it iterates
}
