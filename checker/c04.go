package main

// C04 — bounds are tight envelopes; vertex enumeration is complete and ordered.
//
// R1  lattice operations, decided for every weak ordering of the coordinates
//     (abstract interpretation over the order domain, exhaustive).
// R2  Bounds()/Len() folds are complete (full range, no skip, join on every element).
// R3  iterator guard freshness in the Points() closures (+ no indexing before the
//     first call).   R4  storage order (indices only ++ / reset to 0; exactly one
//     increment of the innermost index between its guard and the return).

import (
	"fmt"
	"go/ast"
	"go/token"
	"go/types"
	"strings"
)

func init() { register("C04", false, checkC04) }

func checkC04(c *Ctx) {
	c.Rule("C04.R1", "Extend/extendPoint = lattice join (empty operand is the identity), NewBounds = join identity, Overlaps ⇔ closed boxes share a point, Empty ⇔ Max<Min on an axis, Copy field-wise and fresh, box∩box = common rectangle or nil iff no shared area — for every weak ordering of the coordinates")
	c.Rule("C04.R2", "Len() = number of vertices and Bounds() = smallest box around them (NewBounds() when there are none), evaluated for all eight types on model geometries with empty members in every position")
	c.Rule("C04.R3", "Points(): Len() calls of the iterator yield the vertices in storage order without panicking, for all eight types on model geometries with empty members in every position (leading, trailing, runs, nested)")
	c.Rule("C04.R5", "axis discipline in packages geom, index/rtree and op: no comparison relates an X ordinate to a Y ordinate (directly, through locals, math.Min/Max or ± axis-free terms)")
	e := newC04E2(c)
	e.lattice()
	c04model(c, "C04.R2", "C04.R3")
	c.exhaust = true
	checkAxisDiscipline(c, "C04.R5", "geom", "index/rtree", "op")
	c.Floor("C04.R5", 3)
	c.Floor("C04.R1", 7)
	c.Floor("C04.R2", 16)
	c.Floor("C04.R3", 8)
}

type c04e2 struct {
	c      *Ctx
	it     *oInterp
	bt, pt types.Type
	ords   [][]int64
	joinOK map[*types.Func]string // memo: "" = is a join, else reason
	joinDn map[*types.Func]bool
}

func newC04E2(c *Ctx) *c04e2 {
	e := &c04e2{c: c, it: &oInterp{p: c.P, maxDepth: 5}, joinOK: map[*types.Func]string{}, joinDn: map[*types.Func]bool{}}
	e.bt = c.P.NamedType("geom", "Bounds")
	e.pt = c.P.NamedType("geom", "Point")
	e.ords = weakOrderings(4)
	return e
}

// boxScenario enumerates pairs of boxes: every weak ordering of
// (a.Min, a.Max, b.Min, b.Max) per axis with both boxes valid (Min<=Max), plus
// the canonical empty box for either operand.
type boxPair struct {
	a, b           oBox
	aEmpty, bEmpty bool
}

var emptyBox = oBox{oInf, oInf, -oInf, -oInf}

func (e *c04e2) boxPairs(withEmpty bool) []boxPair {
	var out []boxPair
	var valid [][]int64
	for _, o := range e.ords {
		if o[0] <= o[1] && o[2] <= o[3] {
			valid = append(valid, o)
		}
	}
	for _, ox := range valid {
		for _, oy := range valid {
			out = append(out, boxPair{a: oBox{ox[0], oy[0], ox[1], oy[1]}, b: oBox{ox[2], oy[2], ox[3], oy[3]}})
		}
	}
	if withEmpty {
		// one non-empty operand in all 3x3 single-box orderings, other canonical empty
		for _, x := range [][2]int64{{0, 0}, {0, 2}} {
			for _, y := range [][2]int64{{0, 0}, {0, 2}} {
				v := oBox{x[0], y[0], x[1], y[1]}
				out = append(out, boxPair{a: v, b: emptyBox, bEmpty: true})
				out = append(out, boxPair{a: emptyBox, b: v, aEmpty: true})
			}
		}
		out = append(out, boxPair{a: emptyBox, b: emptyBox, aEmpty: true, bEmpty: true})
	}
	return out
}

// invertedOperands: a valid receiver and an operand that is empty because Max<Min on at
// least one axis with finite coordinates (every weak ordering of the four values per axis).
func (e *c04e2) invertedOperands() []boxPair {
	var out []boxPair
	var validA, inv, any [][]int64
	for _, o := range e.ords {
		if o[0] <= o[1] {
			any = append(any, o)
			if o[2] <= o[3] {
				validA = append(validA, o)
			} else {
				inv = append(inv, o)
			}
		}
	}
	_ = validA
	for _, ox := range inv {
		for _, oy := range any {
			out = append(out, boxPair{a: oBox{ox[0], oy[0], ox[1], oy[1]}, b: oBox{ox[2], oy[2], ox[3], oy[3]}, bEmpty: true})
			out = append(out, boxPair{a: oBox{oy[0], ox[0], oy[1], ox[1]}, b: oBox{oy[2], ox[2], oy[3], ox[3]}, bEmpty: true})
		}
	}
	return out
}

func (e *c04e2) mk(b oBox) *oStruct { return e.it.bounds(e.bt, e.pt, b.minx, b.miny, b.maxx, b.maxy) }

func join(a, b oBox, aEmpty, bEmpty bool) oBox {
	if bEmpty {
		return a
	}
	if aEmpty {
		return b
	}
	return oBox{min64(a.minx, b.minx), min64(a.miny, b.miny), max64(a.maxx, b.maxx), max64(a.maxy, b.maxy)}
}

func (b oBox) String() string {
	return fmt.Sprintf("[(%s,%s)-(%s,%s)]", showVal(oFloat{b.minx}), showVal(oFloat{b.miny}), showVal(oFloat{b.maxx}), showVal(oFloat{b.maxy}))
}

func (e *c04e2) method(name string) *types.Func {
	m := e.c.P.Method("geom", "Bounds", name)
	if m == nil || e.c.P.Decl(m) == nil {
		e.c.Unk("C04.R1", "geom.(*Bounds)."+name, token.NoPos, "API anchor does not resolve")
		return nil
	}
	return m
}

func (e *c04e2) lattice() {
	c := e.c
	// Extend
	if m := e.method("Extend"); m != nil {
		e.checkBoxJoin(m, "C04.R1")
	}
	// NewBounds
	if f := c.P.Func("geom", "NewBounds"); f != nil && c.P.Decl(f) != nil {
		res, why := e.it.Call(f, nil, nil, 0)
		name := c.P.FuncName(f)
		c.Evals(1)
		if why != "" {
			c.Unk("C04.R1", name, c.P.Decl(f).Pos(), "outside the order fragment: %s", why)
		} else if b, ok := boxOf(res[0]); ok && b == emptyBox {
			c.OK("C04.R1", name, c.P.Decl(f).Pos(), "join identity (+Inf,+Inf)-(-Inf,-Inf)")
		} else {
			c.Bad("C04.R1", name, c.P.Decl(f).Pos(), "NewBounds() = %s is not the join identity (+Inf,+Inf)-(-Inf,-Inf)", showVal(res[0]))
		}
	} else {
		c.Unk("C04.R1", "geom.NewBounds", token.NoPos, "API anchor does not resolve")
	}
	// NewBoundsPoint
	if f := c.P.Func("geom", "NewBoundsPoint"); f != nil && c.P.Decl(f) != nil {
		res, why := e.it.Call(f, nil, []oval{e.it.point(e.pt, 0, 2)}, 0)
		name := c.P.FuncName(f)
		c.Evals(1)
		if why != "" {
			c.Unk("C04.R1", name, c.P.Decl(f).Pos(), "outside the order fragment: %s", why)
		} else if b, ok := boxOf(res[0]); ok && b == (oBox{0, 2, 0, 2}) {
			c.OK("C04.R1", name, c.P.Decl(f).Pos(), "degenerate box at the point")
		} else {
			c.Bad("C04.R1", name, c.P.Decl(f).Pos(), "NewBoundsPoint(p) = %s, want Min=Max=p", showVal(res[0]))
		}
	}
	// Overlaps
	if m := e.method("Overlaps"); m != nil {
		name, pos := c.P.FuncName(m), c.P.Decl(m).Pos()
		done := false
		n := 0
		for _, bp := range e.boxPairs(true) {
			n++
			res, why := e.it.Call(m, oPtr{e.mk(bp.a)}, []oval{oPtr{e.mk(bp.b)}}, 0)
			if why != "" {
				c.Unk("C04.R1", name, pos, "outside the order fragment: %s", why)
				done = true
				break
			}
			want := !bp.aEmpty && !bp.bEmpty && bp.a.minx <= bp.b.maxx && bp.b.minx <= bp.a.maxx && bp.a.miny <= bp.b.maxy && bp.b.miny <= bp.a.maxy
			if got, ok := res[0].(oBool); !ok || bool(got) != want {
				c.Bad("C04.R1", name, pos, "ordering a=%s b=%s: Overlaps = %s, closed boxes share a point = %v", bp.a, bp.b, showVal(res[0]), want)
				done = true
				break
			}
		}
		c.Evals(n)
		if !done {
			c.OK("C04.R1", name, pos, "true exactly when the closed boxes share a point, in all %d orderings (incl. the empty box)", n)
		}
	}
	// Empty
	if m := e.method("Empty"); m != nil {
		name, pos := c.P.FuncName(m), c.P.Decl(m).Pos()
		done := false
		n := 0
		two := weakOrderings(2)
		for _, ox := range two {
			for _, oy := range two {
				n++
				b := oBox{ox[0], oy[0], ox[1], oy[1]}
				res, why := e.it.Call(m, oPtr{e.mk(b)}, nil, 0)
				if why != "" {
					c.Unk("C04.R1", name, pos, "outside the order fragment: %s", why)
					done = true
					break
				}
				want := b.maxx < b.minx || b.maxy < b.miny
				if got, ok := res[0].(oBool); !ok || bool(got) != want {
					c.Bad("C04.R1", name, pos, "box %s: Empty = %s, want %v (empty ⇔ Max<Min on some axis; a degenerate box contains its point)", b, showVal(res[0]), want)
					done = true
				}
			}
			if done {
				break
			}
		}
		c.Evals(n)
		if !done {
			c.OK("C04.R1", name, pos, "Max<Min on some axis, all %d orderings", n)
		}
	}
	// Copy
	if m := e.method("Copy"); m != nil {
		name, pos := c.P.FuncName(m), c.P.Decl(m).Pos()
		in := e.mk(oBox{0, 2, 4, 6})
		res, why := e.it.Call(m, oPtr{in}, nil, 0)
		c.Evals(1)
		if why != "" {
			c.Unk("C04.R1", name, pos, "outside the order fragment: %s", why)
		} else if p, ok := res[0].(oPtr); ok && p.s != nil && p.s != in {
			if b, _ := boxOf(p); b == (oBox{0, 2, 4, 6}) {
				c.OK("C04.R1", name, pos, "fresh, field-wise equal")
			} else {
				c.Bad("C04.R1", name, pos, "Copy of [(r0,r2)-(r4,r6)] = %s", showVal(p))
			}
		} else {
			c.Bad("C04.R1", name, pos, "Copy does not return a fresh box: %s", showVal(res[0]))
		}
	}
	// box-box Intersection
	if m := e.method("Intersection"); m != nil {
		boxBoxIntersection(c, e, m, "C04.R1")
	}
}

// boxBoxIntersection: (*Bounds).Intersection with a *Bounds argument.
func boxBoxIntersection(c *Ctx, e *c04e2, m *types.Func, rule string) {
	name, pos := c.P.FuncName(m)+"#box-box", c.P.Decl(m).Pos()
	n := 0
	for _, bp := range e.boxPairs(false) {
		n++
		recv := e.mk(bp.a)
		res, why := e.it.Call(m, oPtr{recv}, []oval{oIface{dyn: oPtr{e.mk(bp.b)}}}, 0)
		if why != "" {
			c.Unk(rule, name, pos, "outside the order fragment: %s", why)
			c.Evals(n)
			return
		}
		ix := oBox{max64(bp.a.minx, bp.b.minx), max64(bp.a.miny, bp.b.miny), min64(bp.a.maxx, bp.b.maxx), min64(bp.a.maxy, bp.b.maxy)}
		noArea := ix.minx >= ix.maxx || ix.miny >= ix.maxy
		gotNil := false
		switch v := res[0].(type) {
		case oNil:
			gotNil = true
		case oIface:
			gotNil = v.dyn == nil && v.opaque == nil
		case oPtr:
			gotNil = v.s == nil
		}
		if isTop(res[0]) {
			c.Unk(rule, name, pos, "result outside the order fragment for a=%s b=%s: %s", bp.a, bp.b, showVal(res[0]))
			c.Evals(n)
			return
		}
		if noArea != gotNil {
			c.Bad(rule, name, pos, "ordering a=%s b=%s: boxes share area = %v but result is %s (nil is returned exactly when the common rectangle has no area on some axis)", bp.a, bp.b, !noArea, showVal(res[0]))
			c.Evals(n)
			return
		}
		if !noArea {
			if got, ok := boxOf(res[0]); !ok || got != ix {
				c.Bad(rule, name, pos, "ordering a=%s b=%s: result %s, want common rectangle %s", bp.a, bp.b, showVal(res[0]), ix)
				c.Evals(n)
				return
			}
		}
	}
	c.Evals(n)
	c.OK(rule, name, pos, "common rectangle, nil exactly when no shared area, all %d orderings", n)
}

// checkBoxJoin: method (b *Bounds) f(b2 *Bounds) must make b the join of b and b2.
func (e *c04e2) checkBoxJoin(m *types.Func, rule string) bool {
	c := e.c
	name, pos := c.P.FuncName(m), c.P.Decl(m).Pos()
	n := 1
	// nil operand
	recv := e.mk(oBox{0, 0, 2, 2})
	if _, why := e.it.Call(m, oPtr{recv}, []oval{oPtr{nil}}, 0); why != "" {
		c.Unk(rule, name, pos, "outside the order fragment with a nil operand: %s", why)
		return false
	} else if b, _ := boxOf(recv); b != (oBox{0, 0, 2, 2}) {
		c.Bad(rule, name, pos, "Extend(nil) changed the receiver to %s", b)
		return false
	}
	for _, bp := range append(e.boxPairs(true), e.invertedOperands()...) {
		n++
		recv := e.mk(bp.a)
		arg := e.mk(bp.b)
		_, why := e.it.Call(m, oPtr{recv}, []oval{oPtr{arg}}, 0)
		if why != "" {
			c.Unk(rule, name, pos, "outside the order fragment: %s", why)
			c.Evals(n)
			return false
		}
		got, ok := boxOf(recv)
		want := join(bp.a, bp.b, bp.aEmpty, bp.bEmpty)
		if !ok || got != want {
			extra := ""
			if bp.bEmpty && bp.b != emptyBox {
				extra = " (the operand has Max<Min on an axis, so it is empty — Empty() says so — and the join with an empty box is the receiver itself; its finite coordinates must not leak into the result)"
			} else if bp.bEmpty {
				extra = " (the operand is the empty box NewBounds(), i.e. Bounds() of a vertex-less member: joining with it must leave the receiver unchanged)"
			}
			c.Bad(rule, name, pos, "ordering b=%s b2=%s: receiver becomes %s, lattice join is %s%s", bp.a, bp.b, showVal(recv), want, extra)
			c.Evals(n)
			return false
		}
		if ab, _ := boxOf(arg); ab != bp.b {
			c.Bad(rule, name, pos, "Extend modified its argument")
			return false
		}
	}
	c.Evals(n)
	c.OK(rule, name, pos, "lattice join in all %d orderings (nil and empty operands are identities)", n)
	return true
}

// pointJoin: method (b *Bounds) f(p Point) must make b = join(b, {p}).
func (e *c04e2) pointJoin(m *types.Func) string {
	three := weakOrderings(3)
	n := 0
	check := func(b oBox, bEmpty bool, px, py int64) string {
		n++
		recv := e.mk(b)
		_, why := e.it.Call(m, oPtr{recv}, []oval{e.it.point(e.pt, px, py)}, 0)
		if why != "" {
			return "outside the order fragment: " + why
		}
		want := join(b, oBox{px, py, px, py}, bEmpty, false)
		if got, ok := boxOf(recv); !ok || got != want {
			return fmt.Sprintf("ordering b=%s p=(r%d,r%d): receiver becomes %s, join is %s", b, px, py, showVal(recv), want)
		}
		return ""
	}
	for _, ox := range three {
		if ox[0] > ox[1] {
			continue
		}
		for _, oy := range three {
			if oy[0] > oy[1] {
				continue
			}
			if msg := check(oBox{ox[0], oy[0], ox[1], oy[1]}, false, ox[2], oy[2]); msg != "" {
				e.c.Evals(n)
				return msg
			}
		}
	}
	if msg := check(emptyBox, true, 0, 2); msg != "" {
		e.c.Evals(n)
		return msg
	}
	e.c.Evals(n)
	return ""
}

// isJoin classifies a *Bounds method as a join by its parameter type: Point,
// *Bounds, or a slice whose elements are folded by a join over the full range.
func (e *c04e2) isJoin(m *types.Func) string {
	if e.joinDn[m] {
		return e.joinOK[m]
	}
	e.joinDn[m] = true
	res := e.isJoin1(m)
	e.joinOK[m] = res
	return res
}

func (e *c04e2) isJoin1(m *types.Func) string {
	sig := m.Type().(*types.Signature)
	fd := e.c.P.Decl(m)
	if fd == nil || sig.Recv() == nil || sig.Params().Len() != 1 {
		return "not a one-argument method with source"
	}
	if !isNamed(sig.Recv().Type(), modPath, "Bounds") {
		return "receiver is not *Bounds"
	}
	pt := sig.Params().At(0).Type()
	info := e.c.P.InfoOf(m)
	switch {
	case isNamed(pt, modPath, "Point") && named(pt) == pt:
		return e.pointJoin(m)
	case isNamed(pt, modPath, "Bounds"):
		if e.checkBoxJoinQuiet(m) {
			return ""
		}
		return "not the lattice join of two boxes"
	}
	if _, ok := pt.Underlying().(*types.Slice); ok {
		recv := receiverVar(info, fd)
		params := paramVars(info, fd.Type)
		sc := newFnScope(info, fd.Body)
		// body: exactly one full-range loop over the parameter whose body calls a join on the element
		okLoop := false
		for _, st := range fd.Body.List {
			l := sc.loopOf(st)
			if l == nil {
				return "statement `" + src(st) + "` is not a counting loop"
			}
			if !(l.Lo.ok && l.Lo.Of == nil && l.Lo.K == 0 && l.Hi.ok && l.Hi.K == 0 && l.Hi.Of != nil && objOf(info, l.Hi.Of) == params[0]) {
				return "loop " + l.String() + " does not cover the whole argument"
			}
			if msg := e.loopFolds(info, sc, l, recv, nil); msg != "" {
				return msg
			}
			okLoop = true
		}
		if !okLoop {
			return "no fold loop"
		}
		return ""
	}
	return "parameter type " + pt.String() + " not recognised"
}

func (e *c04e2) checkBoxJoinQuiet(m *types.Func) bool {
	// reuse the obligation produced for Extend when m is Extend; otherwise evaluate silently
	for _, bp := range e.boxPairs(true) {
		recv := e.mk(bp.a)
		_, why := e.it.Call(m, oPtr{recv}, []oval{oPtr{e.mk(bp.b)}}, 0)
		if why != "" {
			return false
		}
		if got, ok := boxOf(recv); !ok || got != join(bp.a, bp.b, bp.aEmpty, bp.bEmpty) {
			return false
		}
	}
	return true
}

// loopFolds: the loop body joins the current element into accumulator acc on
// every iteration (a top-level join call, no break/continue/return).
// accVar == nil means "the method receiver recv".
func (e *c04e2) loopFolds(info *types.Info, sc *fnScope, l *Loop, acc types.Object, _ interface{}) string {
	brk, cont, rets := earlyExits(l.Body)
	if len(brk)+len(cont)+len(rets) > 0 {
		return "fold loop has an early exit (break/continue/return): some elements may be skipped"
	}
	for _, st := range l.Body.List {
		es, ok := st.(*ast.ExprStmt)
		if !ok {
			continue
		}
		call, ok := unparen(es.X).(*ast.CallExpr)
		if !ok || len(call.Args) != 1 {
			continue
		}
		sel, ok := unparen(call.Fun).(*ast.SelectorExpr)
		if !ok || objOf(info, sel.X) != acc {
			continue
		}
		f := callee(info, call)
		if f == nil {
			continue
		}
		if msg := e.isJoin(f); msg != "" {
			return "fold step `" + src(call) + "` is not a join: " + msg
		}
		// argument must be the current element, or its Bounds()
		arg := unparen(call.Args[0])
		if ac, ok := arg.(*ast.CallExpr); ok && len(ac.Args) == 0 {
			if s2, ok := unparen(ac.Fun).(*ast.SelectorExpr); ok && s2.Sel.Name == "Bounds" {
				arg = unparen(s2.X)
			}
		}
		if l.Val != nil && objOf(info, arg) == l.Val {
			return ""
		}
		if ix, ok := arg.(*ast.IndexExpr); ok && l.Idx != nil && objOf(info, ix.Index) == l.Idx && l.Hi.Of != nil && sameExpr(info, ix.X, l.Hi.Of) {
			return ""
		}
		return "fold step `" + src(call) + "` does not take the current element"
	}
	return "loop body has no unconditional join of the current element"
}

// ---------------------------------------------------------------- R2 folds

func c04folds(c *Ctx, e *c04e2) {
	pk := c.P.Pkg("geom")
	info := pk.TypesInfo
	newBounds := c.P.Func("geom", "NewBounds")
	newBoundsPoint := c.P.Func("geom", "NewBoundsPoint")
	for _, tn := range geomTypes {
		// ---- Bounds()
		m := c.P.Method("geom", tn, "Bounds")
		fd := c.P.Decl(m)
		if fd == nil {
			c.Unk("C04.R2", "geom."+tn+".Bounds", token.NoPos, "API anchor does not resolve")
		} else {
			name := c.P.FuncName(m)
			recv := receiverVar(info, fd)
			msg := ""
			switch tn {
			case "Bounds":
				if len(fd.Body.List) != 1 || !isReturnOf(info, fd.Body.List[0], recv) {
					msg = "(*Bounds).Bounds must return the receiver"
				}
			case "Point":
				ok := false
				if len(fd.Body.List) == 1 {
					if r, isRet := fd.Body.List[0].(*ast.ReturnStmt); isRet && len(r.Results) == 1 {
						if call, isCall := unparen(r.Results[0]).(*ast.CallExpr); isCall && callee(info, call) == newBoundsPoint && len(call.Args) == 1 && objOf(info, call.Args[0]) == recv {
							ok = true
						}
					}
				}
				if !ok {
					msg = "Point.Bounds must be NewBoundsPoint(receiver)"
				}
			default:
				msg = c04boundsFold(c, e, info, fd, recv, newBounds)
			}
			if msg == "" {
				c.OK("C04.R2", name, fd.Pos(), "complete fold")
			} else {
				c.Bad("C04.R2", name, fd.Pos(), "%s", msg)
			}
		}
		// ---- Len()
		m = c.P.Method("geom", tn, "Len")
		fd = c.P.Decl(m)
		if fd == nil {
			c.Unk("C04.R2", "geom."+tn+".Len", token.NoPos, "API anchor does not resolve")
			continue
		}
		name := c.P.FuncName(m)
		recv := receiverVar(info, fd)
		msg := ""
		switch tn {
		case "Point":
			if v, ok := singleReturnConst(info, fd); !ok || v != 1 {
				msg = "Point.Len must be 1"
			}
		case "Bounds":
			v, ok := singleReturnConst(info, fd)
			n := boundsPointsCases(c, info)
			if !ok || n < 0 || v != int64(n) {
				msg = fmt.Sprintf("(*Bounds).Len returns %d but Points() yields %d corners", v, n)
			}
		default:
			msg = c04lenFold(info, fd, recv)
		}
		if msg == "" {
			c.OK("C04.R2", name, fd.Pos(), "complete count")
		} else {
			c.Bad("C04.R2", name, fd.Pos(), "%s", msg)
		}
	}
}

func isReturnOf(info *types.Info, st ast.Stmt, o types.Object) bool {
	r, ok := st.(*ast.ReturnStmt)
	return ok && len(r.Results) == 1 && objOf(info, r.Results[0]) == o
}

func singleReturnConst(info *types.Info, fd *ast.FuncDecl) (int64, bool) {
	if len(fd.Body.List) != 1 {
		return 0, false
	}
	r, ok := fd.Body.List[0].(*ast.ReturnStmt)
	if !ok || len(r.Results) != 1 {
		return 0, false
	}
	return constInt(info, r.Results[0])
}

// boundsPointsCases: number of value-returning cases in (*Bounds).Points' closure.
func boundsPointsCases(c *Ctx, info *types.Info) int {
	m := c.P.Method("geom", "Bounds", "Points")
	fd := c.P.Decl(m)
	if fd == nil {
		return -1
	}
	n := -1
	ast.Inspect(fd.Body, func(nd ast.Node) bool {
		if sw, ok := nd.(*ast.SwitchStmt); ok {
			n = 0
			for _, cl := range sw.Body.List {
				cc := cl.(*ast.CaseClause)
				if cc.List != nil {
					n += len(cc.List)
				}
			}
			return false
		}
		return true
	})
	return n
}

func c04boundsFold(c *Ctx, e *c04e2, info *types.Info, fd *ast.FuncDecl, recv types.Object, newBounds *types.Func) string {
	sc := newFnScope(info, fd.Body)
	var acc types.Object
	folded := false
	for _, st := range fd.Body.List {
		switch s := st.(type) {
		case *ast.AssignStmt:
			if len(s.Lhs) == 1 && len(s.Rhs) == 1 {
				if call, ok := unparen(s.Rhs[0]).(*ast.CallExpr); ok && callee(info, call) == newBounds && newBounds != nil {
					if acc != nil {
						return "accumulator re-initialised"
					}
					acc = objOf(info, s.Lhs[0])
					continue
				}
			}
			return "unexpected statement `" + src(s) + "`"
		case *ast.ExprStmt:
			// b.extendPoints(recv)
			call, ok := unparen(s.X).(*ast.CallExpr)
			if !ok || acc == nil || len(call.Args) != 1 {
				return "unexpected statement `" + src(s) + "`"
			}
			sel, ok := unparen(call.Fun).(*ast.SelectorExpr)
			if !ok || objOf(info, sel.X) != acc {
				return "unexpected statement `" + src(s) + "`"
			}
			f := callee(info, call)
			if f == nil {
				return "unresolved call"
			}
			if msg := e.isJoin(f); msg != "" {
				return "`" + src(call) + "` is not a join over the receiver: " + msg
			}
			if objOf(info, sc.canon(call.Args[0])) != recv {
				return "`" + src(call) + "` does not fold the receiver"
			}
			folded = true
		case *ast.RangeStmt, *ast.ForStmt:
			l := sc.loopOf(st)
			if l == nil || acc == nil {
				return "loop not recognised"
			}
			if !(l.Lo.ok && l.Lo.Of == nil && l.Lo.K == 0 && l.Hi.ok && l.Hi.K == 0 && l.Hi.Of != nil && objOf(info, l.Hi.Of) == recv) {
				return "loop " + l.String() + " does not cover every member of the receiver"
			}
			if msg := e.loopFolds(info, sc, l, acc, nil); msg != "" {
				return msg
			}
			folded = true
		case *ast.ReturnStmt:
			if len(s.Results) != 1 || objOf(info, s.Results[0]) != acc || acc == nil {
				return "returns `" + src(s) + "`, not the accumulator"
			}
			if !folded {
				return "returns before folding the receiver"
			}
			return ""
		default:
			return "unexpected statement `" + src(st) + "`"
		}
	}
	return "no return of the accumulator"
}

func c04lenFold(info *types.Info, fd *ast.FuncDecl, recv types.Object) string {
	sc := newFnScope(info, fd.Body)
	// form 1: return len(recv)
	if len(fd.Body.List) == 1 {
		if r, ok := fd.Body.List[0].(*ast.ReturnStmt); ok && len(r.Results) == 1 {
			a := sc.aff(r.Results[0])
			if a.ok && a.K == 0 && a.Of != nil && objOf(info, a.Of) == recv {
				return ""
			}
			return "returns `" + src(r.Results[0]) + "`, not len(receiver)"
		}
	}
	var acc types.Object
	folded := false
	for _, st := range fd.Body.List {
		switch s := st.(type) {
		case *ast.DeclStmt:
			gd := s.Decl.(*ast.GenDecl)
			for _, sp := range gd.Specs {
				vs, ok := sp.(*ast.ValueSpec)
				if !ok || len(vs.Names) != 1 {
					return "unexpected declaration"
				}
				if len(vs.Values) == 1 {
					if k, ok := constInt(info, vs.Values[0]); !ok || k != 0 {
						return "accumulator does not start at 0"
					}
				}
				acc = info.Defs[vs.Names[0]]
			}
		case *ast.AssignStmt:
			if len(s.Lhs) == 1 && len(s.Rhs) == 1 && s.Tok == token.DEFINE {
				if k, ok := constInt(info, s.Rhs[0]); ok && k == 0 {
					acc = objOf(info, s.Lhs[0])
					continue
				}
			}
			return "unexpected statement `" + src(s) + "`"
		case *ast.RangeStmt, *ast.ForStmt:
			l := sc.loopOf(st)
			if l == nil || acc == nil {
				return "loop not recognised"
			}
			if !(l.Lo.ok && l.Lo.Of == nil && l.Lo.K == 0 && l.Hi.ok && l.Hi.K == 0 && l.Hi.Of != nil && objOf(info, l.Hi.Of) == recv) {
				return "loop " + l.String() + " does not cover every member of the receiver"
			}
			brk, cont, rets := earlyExits(l.Body)
			if len(brk)+len(cont)+len(rets) > 0 {
				return "count loop has an early exit"
			}
			okStep := false
			for _, bs := range l.Body.List {
				as, ok := bs.(*ast.AssignStmt)
				if !ok || len(as.Lhs) != 1 || objOf(info, as.Lhs[0]) != acc {
					continue
				}
				var add ast.Expr
				if as.Tok == token.ADD_ASSIGN {
					add = as.Rhs[0]
				} else if as.Tok == token.ASSIGN {
					if b, ok := unparen(as.Rhs[0]).(*ast.BinaryExpr); ok && b.Op == token.ADD {
						if objOf(info, b.X) == acc {
							add = b.Y
						} else if objOf(info, b.Y) == acc {
							add = b.X
						}
					}
				}
				if add == nil {
					return "accumulator updated by `" + src(as) + "`, not by adding the member's count"
				}
				// len(elem) or elem.Len()
				var of ast.Expr
				if la := lenArg(info, add); la != nil {
					of = la
				} else if call, ok := unparen(add).(*ast.CallExpr); ok && len(call.Args) == 0 {
					if sel, ok := unparen(call.Fun).(*ast.SelectorExpr); ok && sel.Sel.Name == "Len" {
						of = sel.X
					}
				}
				if of == nil {
					return "adds `" + src(add) + "`, not the member's vertex count"
				}
				of = unparen(of)
				if l.Val != nil && objOf(info, of) == l.Val {
					okStep = true
				} else if ix, ok := of.(*ast.IndexExpr); ok && l.Idx != nil && objOf(info, ix.Index) == l.Idx && objOf(info, ix.X) == recv {
					okStep = true
				} else {
					return "adds the count of `" + src(of) + "`, not of the current member"
				}
			}
			if !okStep {
				return "loop body does not add the member's count unconditionally"
			}
			folded = true
		case *ast.ReturnStmt:
			if len(s.Results) != 1 || objOf(info, s.Results[0]) != acc || acc == nil {
				return "returns `" + src(s) + "`, not the accumulator"
			}
			if !folded {
				return "returns before counting"
			}
			return ""
		default:
			return "unexpected statement `" + src(st) + "`"
		}
	}
	return "no return of the accumulator"
}

// ---------------------------------------------------------------- R3/R4 iterators

func c04iters(c *Ctx) {
	pk := c.P.Pkg("geom")
	info := pk.TypesInfo
	for _, tn := range []string{"MultiLineString", "Polygon", "MultiPolygon", "GeometryCollection"} {
		m := c.P.Method("geom", tn, "Points")
		fd := c.P.Decl(m)
		if fd == nil {
			c.Unk("C04.R3", "geom."+tn+".Points", token.NoPos, "API anchor does not resolve")
			continue
		}
		name := c.P.FuncName(m)
		recv := receiverVar(info, fd)
		lits := funcLits(fd.Body)
		if len(lits) != 1 {
			c.Unk("C04.R3", name, fd.Pos(), "expected exactly one iterator closure, found %d", len(lits))
			continue
		}
		lit := lits[0]
		// (1) no indexing of the receiver in the method body outside the closure
		var eager ast.Node
		inspectNoLits(fd.Body, func(n ast.Node) bool {
			if ix, ok := n.(*ast.IndexExpr); ok && rootObj(info, ix) == recv && eager == nil {
				eager = ix
			}
			return true
		})
		it := &iterCheck{info: info, recv: recv, c: c}
		it.run(lit)
		switch {
		case eager != nil:
			c.Bad("C04.R3", name, eager.Pos(), "`%s` is evaluated when the iterator is created: an empty collection (Len()==0) panics before any call", src(eager))
		case it.unsupported != "":
			c.Unk("C04.R3", name, lit.Pos(), "%s", it.unsupported)
		case len(it.bad) > 0:
			c.Bad("C04.R3", name, it.bad[0].pos, "%s", it.bad[0].msg)
		default:
			c.OK("C04.R3", name, lit.Pos(), "%d nested accesses, all behind a fresh length guard", it.accesses)
		}
		switch {
		case it.unsupported != "":
			c.Unk("C04.R4", name, lit.Pos(), "%s", it.unsupported)
		case len(it.badOrder) > 0:
			c.Bad("C04.R4", name, it.badOrder[0].pos, "%s", it.badOrder[0].msg)
		default:
			c.OK("C04.R4", name, lit.Pos(), "indices only ++/reset; one increment between guard and return")
		}
	}
}

type iterBad struct {
	pos token.Pos
	msg string
}

type iterCheck struct {
	c           *Ctx
	info        *types.Info
	recv        types.Object
	bad         []iterBad
	badOrder    []iterBad
	accesses    int
	unsupported string
	seen        map[string]bool
	memberIt    map[types.Object]bool   // variables holding a member iterator (X[j].Points())
	memberOf    map[types.Object]string // … and the member expression it iterates
}

// guard fact encoding: "g|<var pos>|<off>|<P source>"; member iterator in step with its index: "fresh|<var pos>"
func gfact(v types.Object, off int64, p string) string {
	return fmt.Sprintf("g|%d|%d|%s", v.Pos(), off, p)
}

func (it *iterCheck) report(pos token.Pos, msg string) {
	if it.seen == nil {
		it.seen = map[string]bool{}
	}
	k := fmt.Sprint(pos) + msg
	if !it.seen[k] {
		it.seen[k] = true
		it.bad = append(it.bad, iterBad{pos, msg})
	}
}

// idxTerm parses e as v+off for a variable v.
func (it *iterCheck) idxTerm(e ast.Expr) (types.Object, int64, bool) {
	e = unparen(e)
	if o := objOf(it.info, e); o != nil {
		if _, ok := o.(*types.Var); ok {
			return o, 0, true
		}
	}
	if b, ok := e.(*ast.BinaryExpr); ok && (b.Op == token.ADD || b.Op == token.SUB) {
		if o := objOf(it.info, b.X); o != nil {
			if k, ok := constInt(it.info, b.Y); ok {
				if b.Op == token.SUB {
					k = -k
				}
				return o, k, true
			}
		}
	}
	return nil, 0, false
}

// depth of an index chain rooted at the receiver: recv → 0, recv[a] → 1, …; -1 if not rooted there.
func (it *iterCheck) depth(e ast.Expr) int {
	e = unparen(e)
	if objOf(it.info, e) == it.recv {
		return 0
	}
	if ix, ok := e.(*ast.IndexExpr); ok {
		d := it.depth(ix.X)
		if d >= 0 {
			return d + 1
		}
	}
	return -1
}

// checkAccesses verifies every nested index in e under facts s, honouring
// short-circuit evaluation of && and ||.
func (it *iterCheck) checkAccesses(e ast.Node, s Facts) {
	switch x := e.(type) {
	case nil:
		return
	case *ast.BinaryExpr:
		if x.Op == token.LAND || x.Op == token.LOR {
			it.checkAccesses(x.X, s)
			s2 := s.Copy()
			it.applyCond(x.X, x.Op == token.LAND, s2)
			it.checkAccesses(x.Y, s2)
			return
		}
	case *ast.FuncLit:
		return
	case *ast.IndexExpr:
		d := it.depth(x.X)
		if d >= 1 {
			it.accesses++
			v, off, ok := it.idxTerm(x.Index)
			p := src(x.X)
			if !ok {
				it.report(x.Pos(), "index `"+src(x.Index)+"` of `"+p+"` is not of the form var±const")
			} else if !s[gfact(v, off, p)] {
				it.report(x.Pos(), fmt.Sprintf("`%s` is reached on a path where `%s` has not been compared with len(%s) since `%s` (or an index inside `%s`) last changed: with an empty member at that position this indexes out of range", src(x), src(x.Index), p, v.Name(), p))
			}
		}
		it.checkAccesses(x.X, s)
		it.checkAccesses(x.Index, s)
		return
	case *ast.CallExpr:
		// member iterator call p()
		if id, ok := unparen(x.Fun).(*ast.Ident); ok && len(x.Args) == 0 {
			if o := objOf(it.info, id); o != nil && it.memberIt[o] {
				it.accesses++
				if !s[fmt.Sprintf("fresh|%d", o.Pos())] {
					it.report(x.Pos(), "member iterator `"+o.Name()+"` is called after the member index changed without re-creating it")
				}
				// needs a guard (i, -1|0, member) on the member's Len(): look for any guard on a depth-1 prefix
				okGuard := false
				for f := range s {
					if strings.HasPrefix(f, "g|") && strings.HasSuffix(f, "|"+it.memberOf[o]) {
						okGuard = true
					}
				}
				if !okGuard {
					it.report(x.Pos(), "member iterator `"+o.Name()+"()` is called on a path where the element index has not been compared with "+it.memberOf[o]+".Len() since the member index last changed: an empty member makes the member iterator run past its end")
				}
			}
		}
	}
	// generic descent
	ast.Inspect(e, func(n ast.Node) bool {
		if n == e {
			return true
		}
		if n == nil {
			return false
		}
		if ex, ok := n.(ast.Expr); ok {
			it.checkAccesses(ex, s)
			return false
		}
		return true
	})
}

// applyCond adds guard facts from cond == truth.
func (it *iterCheck) applyCond(cond ast.Expr, truth bool, s Facts) {
	for _, at := range conjuncts(cond, truth) {
		b, ok := unparen(at.E).(*ast.BinaryExpr)
		if !ok {
			continue
		}
		op := b.Op
		l, r := b.X, b.Y
		lenOf := func(e ast.Expr) string {
			if la := lenArg(it.info, e); la != nil {
				return src(la)
			}
			if call, ok := unparen(e).(*ast.CallExpr); ok && len(call.Args) == 0 {
				if sel, ok := unparen(call.Fun).(*ast.SelectorExpr); ok && sel.Sel.Name == "Len" && it.depth(sel.X) >= 0 {
					return src(sel.X)
				}
			}
			return ""
		}
		p := lenOf(r)
		if p == "" {
			if p = lenOf(l); p == "" {
				continue
			}
			l, r = r, l
			switch op {
			case token.LSS:
				op = token.GTR
			case token.GTR:
				op = token.LSS
			case token.LEQ:
				op = token.GEQ
			case token.GEQ:
				op = token.LEQ
			}
		}
		v, off, ok := it.idxTerm(l)
		if !ok {
			continue
		}
		inRange := false
		switch op {
		case token.EQL:
			inRange = !at.Truth
		case token.NEQ:
			inRange = at.Truth
		case token.LSS:
			inRange = at.Truth
		case token.GEQ:
			inRange = !at.Truth
		}
		if inRange {
			s[gfact(v, off, p)] = true
		}
	}
}

// kill removes facts invalidated by a write to v; shift adjusts offsets on v++.
func (it *iterCheck) write(v types.Object, delta int64, isInc bool, s Facts) {
	for f := range s {
		if !strings.HasPrefix(f, "g|") {
			continue
		}
		parts := strings.SplitN(f, "|", 4)
		var vp, off int64
		fmt.Sscan(parts[1], &vp)
		fmt.Sscan(parts[2], &off)
		p := parts[3]
		mentions := false
		// does P mention v? compare identifiers by name within source text tokens
		for _, tok := range strings.FieldsFunc(p, func(r rune) bool {
			return !(r == '_' || r >= '0' && r <= '9' || r >= 'a' && r <= 'z' || r >= 'A' && r <= 'Z')
		}) {
			if tok == v.Name() {
				mentions = true
			}
		}
		if mentions {
			delete(s, f)
			continue
		}
		if vp == int64(v.Pos()) {
			delete(s, f)
			if isInc {
				s[fmt.Sprintf("g|%d|%d|%s", vp, off-delta, p)] = true
			}
		}
	}
	// member iterators become stale when an index they depend on changes
	for o := range it.memberIt {
		if strings.Contains(it.memberOf[o], v.Name()) {
			delete(s, fmt.Sprintf("fresh|%d", o.Pos()))
		}
	}
}

func (it *iterCheck) run(lit *ast.FuncLit) {
	it.memberIt = map[types.Object]bool{}
	it.memberOf = map[types.Object]string{}
	// discover member iterator variables: assigned from X[j].Points()
	isMemberPoints := func(e ast.Expr) string {
		call, ok := unparen(e).(*ast.CallExpr)
		if !ok || len(call.Args) != 0 {
			return ""
		}
		sel, ok := unparen(call.Fun).(*ast.SelectorExpr)
		if !ok || sel.Sel.Name != "Points" || it.depth(sel.X) != 1 {
			return ""
		}
		return src(sel.X)
	}
	ast.Inspect(lit.Body, func(n ast.Node) bool {
		if as, ok := n.(*ast.AssignStmt); ok && len(as.Lhs) == 1 && len(as.Rhs) == 1 {
			if m := isMemberPoints(as.Rhs[0]); m != "" {
				if o := objOf(it.info, as.Lhs[0]); o != nil {
					it.memberIt[o] = true
					it.memberOf[o] = m
				}
			}
		}
		return true
	})
	order := func(pos token.Pos, msg string) { it.badOrder = append(it.badOrder, iterBad{pos, msg}) }
	cl := &FactsClient{}
	cl.OnStmt = func(n ast.Node, s Facts) Facts {
		switch st := n.(type) {
		case *ast.IncDecStmt:
			it.checkAccesses(st.X, s)
			if v := objOf(it.info, st.X); v != nil {
				if st.Tok == token.INC {
					it.write(v, 1, true, s)
				} else {
					order(st.Pos(), "index `"+v.Name()+"` is decremented: vertices would repeat or go backwards")
					it.write(v, -1, true, s)
				}
			}
		case *ast.AssignStmt:
			for _, r := range st.Rhs {
				it.checkAccesses(r, s)
			}
			for i, l := range st.Lhs {
				v := objOf(it.info, l)
				if v == nil {
					it.checkAccesses(l, s)
					continue
				}
				if it.memberIt[v] {
					// p = X[j].Points(): fresh again
					s[fmt.Sprintf("fresh|%d", v.Pos())] = true
					continue
				}
				if _, isInt := v.Type().Underlying().(*types.Basic); isInt && st.Tok == token.ASSIGN {
					if k, ok := constInt(it.info, st.Rhs[min(i, len(st.Rhs)-1)]); !ok || k != 0 {
						order(st.Pos(), "index `"+v.Name()+"` is assigned `"+src(st.Rhs[min(i, len(st.Rhs)-1)])+"`: only ++ and reset to 0 keep storage order")
					}
				} else if st.Tok == token.ADD_ASSIGN || st.Tok == token.SUB_ASSIGN {
					order(st.Pos(), "index `"+v.Name()+"` changed by `"+src(st)+"`")
				}
				it.write(v, 0, false, s)
			}
		case *ast.ExprStmt:
			it.checkAccesses(st.X, s)
		case *ast.DeferStmt:
			it.unsupported = "defer inside the iterator closure is not modelled"
		case *ast.DeclStmt:
			it.checkAccesses(st, s)
		case *ast.RangeStmt:
			it.unsupported = "range loop inside the iterator closure is not modelled"
		}
		return s
	}
	cl.OnBranch = func(cond ast.Expr, truth bool, s Facts) Facts {
		it.checkAccesses(cond, s)
		it.applyCond(cond, truth, s)
		return s
	}
	cl.OnReturn = func(r *ast.ReturnStmt, s Facts) {
		if r == nil {
			return
		}
		for _, e := range r.Results {
			it.checkAccesses(e, s)
		}
		// R4: innermost index incremented exactly once since its guard
		if len(r.Results) == 1 {
			e := unparen(r.Results[0])
			var inner string
			if ix, ok := e.(*ast.IndexExpr); ok && it.depth(ix.X) >= 1 {
				inner = src(ix.X)
			} else if call, ok := e.(*ast.CallExpr); ok {
				if o := objOf(it.info, call.Fun); o != nil && it.memberIt[o] {
					inner = it.memberOf[o]
				}
			} else if o := objOf(it.info, e); o != nil {
				return // element saved in a local; covered by R3 at the access
			}
			if inner != "" {
				ok := false
				for f := range s {
					if strings.HasPrefix(f, "g|") && strings.HasSuffix(f, "|-1|"+inner) {
						ok = true
					}
				}
				if !ok {
					order(r.Pos(), "at `"+src(r)+"` the element index of `"+inner+"` has not been incremented exactly once since it was checked: vertices would be skipped or repeated")
				}
			}
		}
	}
	fl := &Flow[Facts]{C: cl, Info: it.info}
	init := Facts{}
	for o := range it.memberIt {
		init[fmt.Sprintf("fresh|%d", o.Pos())] = true // invariant assumed at entry, re-established by every path
	}
	fl.Run(lit.Body, init)
	if len(fl.Unsupported) > 0 && it.unsupported == "" {
		it.unsupported = "unsupported control flow `" + src(fl.Unsupported[0]) + "`"
	}
}
