package main

// C14 — Clip returns the parts of a line inside the polygon (thin: plumbing only).
//
// R1 roles/op/completeness, R2 strip matches close, R3 the clipper skips the
// subject's closing segment in CLIPLINE mode (dependency source).

import (
	"go/ast"
	"go/token"
	"go/types"
)

func init() { register("C14", false, checkC14) }

func checkC14(c *Ctx) {
	c.Rule("C14.R1", "model evaluation with the external clipper replaced by a recorder: LineString.Clip and MultiLineString.Clip hand Construct the CLIPLINE operation with the line(s) as subject — every line a contour, vertices in order — and the polygon's rings as clipping operand")
	c.Rule("C14.R2", "model evaluation, same runs: each returned piece is the clipper's contour without the one closing vertex the result converter appends, for every piece, in order")
	c.Rule("C14.R3", "in CLIPLINE mode the external clipper does not add the subject's closing segment (last→first) to the sweep")
	c.Rule("C14.R5", "model evaluation of the clipping helpers Clip goes through (shared with C01): every contour of the subject and every polygon of the clipping operand is converted, each ring and vertex at its own index, and result rings are closed with exactly one vertex")
	c.Rule("C14.R4", "Clip hands every line to the clipper: a conditional return before the clipper call, or a skipped member, is allowed only under a condition implying that the closed bounding boxes of the line and of the polygon share no point (!Overlaps), and such a return yields an empty result")
	info := c.P.Pkg("geom").TypesInfo
	m := newClipModel(c)
	if !m.ok() {
		c.Unk("C14.R1", "geom#clip-model", token.NoPos, "geometry or clipper types do not resolve")
		return
	}
	m.runClip("C14.R1", "C14.R2")
	for _, tn := range []string{"LineString", "MultiLineString"} {
		mm := c.P.Method("geom", tn, "Clip")
		fd := c.P.Decl(mm)
		if fd == nil {
			continue
		}
		c14prefilters(c, info, newFnScope(info, fd.Body), fd, c.P.FuncName(mm), receiverVar(info, fd), paramVars(info, fd.Type)[0], nil)
	}
	c14dep(c)
	// R5: the set operations' plumbing through the same helper (model evaluation shared with C01)
	c.Alias("C01.R1", "C14.R5")
	c.Alias("C01.R2", "C14.R5")
	c.Alias("C01.R3", "C14.R5")
	m.runSetOps("C01.R1", "C01.R2", "C01.R3")
	c.Alias("C01.R1", "")
	c.Alias("C01.R2", "")
	c.Alias("C01.R3", "")
	premiseBounds(c, "C14.R6", "Clip and the *Bounds shortcuts decide by the operands' Bounds()")
	c.Floor("C14.R6", 16)
	c.Floor("C14.R5", 3)
	c.Floor("C14.R1", 2)
	c.Floor("C14.R2", 2)
	c.Floor("C14.R3", 1)
	c.Floor("C14.R4", 2)
}

// c14prefilters: conditional exits in a Clip method ahead of / around the clipper call.
func c14prefilters(c *Ctx, info *types.Info, sc *fnScope, fd *ast.FuncDecl, name string, recv, param types.Object, opCall *ast.CallExpr) {
	cons := name + "#prefilters"
	limit := fd.End()
	if opCall != nil {
		limit = opCall.Pos()
	}
	// which side does a Bounds-typed expression describe? 1 = line (receiver or one of its members), 2 = polygon parameter
	var side func(e ast.Expr, depth int) int
	side = func(e ast.Expr, depth int) int {
		e = unparen(e)
		if depth > 4 {
			return 0
		}
		if call, ok := e.(*ast.CallExpr); ok {
			if sel, ok := unparen(call.Fun).(*ast.SelectorExpr); ok && sel.Sel.Name == "Bounds" && len(call.Args) == 0 {
				x := unparen(sel.X)
				if o := objOf(info, x); o != nil {
					if o == param {
						return 2
					}
					if o == recv {
						return 1
					}
					// a member of the receiver: range value over recv, or recv[i]
					for _, d := range sc.defs[o] {
						if d == nil {
							continue
						}
						if ix, ok := unparen(d).(*ast.IndexExpr); ok && objOf(info, ix.X) == recv {
							return 1
						}
					}
					isMember := false
					ast.Inspect(fd.Body, func(n ast.Node) bool {
						if rs, ok := n.(*ast.RangeStmt); ok && rs.Value != nil && objOf(info, rs.Value) == o && objOf(info, rs.X) == recv {
							isMember = true
						}
						return true
					})
					if isMember {
						return 1
					}
				}
				if ix, ok := x.(*ast.IndexExpr); ok && objOf(info, ix.X) == recv {
					return 1
				}
			}
			return 0
		}
		if o := objOf(info, e); o != nil {
			ds := sc.defs[o]
			if len(ds) == 1 && ds[0] != nil {
				return side(ds[0], depth+1)
			}
		}
		return 0
	}
	disjoint := func(at condAtom) bool {
		if at.Truth {
			return false
		}
		call, ok := unparen(at.E).(*ast.CallExpr)
		if !ok || len(call.Args) != 1 {
			return false
		}
		f := callee(info, call)
		if f == nil || f != c.P.Method("geom", "Bounds", "Overlaps") {
			return false
		}
		sel, ok := unparen(call.Fun).(*ast.SelectorExpr)
		if !ok {
			return false
		}
		l, r := side(sel.X, 0), side(call.Args[0], 0)
		return (l == 1 && r == 2) || (l == 2 && r == 1)
	}
	hasExit := func(n ast.Node) (ast.Node, bool) {
		var ex ast.Node
		if n == nil {
			return nil, false
		}
		ast.Inspect(n, func(m ast.Node) bool {
			if ex != nil {
				return false
			}
			switch x := m.(type) {
			case *ast.FuncLit:
				return false
			case *ast.ReturnStmt:
				ex = x
			case *ast.BranchStmt:
				if x.Tok == token.CONTINUE || x.Tok == token.BREAK || x.Tok == token.GOTO {
					ex = x
				}
			}
			return true
		})
		return ex, ex != nil
	}
	emptyResult := func(r *ast.ReturnStmt) bool {
		if len(r.Results) != 1 {
			return false
		}
		e := unparen(r.Results[0])
		if tv, ok := info.Types[e]; ok && tv.IsNil() {
			return true
		}
		switch x := e.(type) {
		case *ast.CompositeLit:
			return len(x.Elts) == 0
		case *ast.CallExpr:
			if builtinName(info, x) == "make" && len(x.Args) == 2 {
				k, ok := constInt(info, x.Args[1])
				return ok && k == 0
			}
			// conversion of nil: MultiLineString(nil)
			if len(x.Args) == 1 {
				if tv, ok := info.Types[x.Fun]; ok && tv.IsType() {
					if tv2, ok := info.Types[x.Args[0]]; ok && tv2.IsNil() {
						return true
					}
				}
			}
		}
		return false
	}
	n, bad := 0, false
	ast.Inspect(fd.Body, func(nd ast.Node) bool {
		if _, ok := nd.(*ast.FuncLit); ok {
			return false
		}
		is, ok := nd.(*ast.IfStmt)
		if !ok || is.Pos() >= limit || bad {
			return true
		}
		for _, br := range []struct {
			body  ast.Node
			truth bool
		}{{is.Body, true}, {is.Else, false}} {
			if br.body == nil {
				continue
			}
			if _, isIf := br.body.(*ast.IfStmt); isIf {
				continue // else-if: visited on its own
			}
			ex, has := hasExit(br.body)
			if !has {
				continue
			}
			n++
			just := false
			atoms := conjuncts(is.Cond, br.truth)
			allLen := len(atoms) > 0
			for _, at := range atoms {
				if disjoint(at) {
					just = true
				}
				// an emptiness / length test of an operand (an empty operand clips to nothing)
				isLen := false
				if b, ok := unparen(at.E).(*ast.BinaryExpr); ok {
					if lenArg(info, b.X) != nil || lenArg(info, b.Y) != nil {
						if _, okc := constInt(info, b.X); okc {
							isLen = true
						}
						if _, okc := constInt(info, b.Y); okc {
							isLen = true
						}
					}
				}
				if !isLen {
					allLen = false
				}
			}
			if allLen {
				continue // decided by the model evaluation (C14.R1), which includes empty and short operands
			}
			if !just {
				bad = true
				c.Bad("C14.R4", cons, is.Pos(), "`%s` under `if %s` bypasses the clipper on a condition that does not imply the line misses the polygon (only disjoint closed bounding boxes do; Bounds.Within of a non-rectangle tests two corners, and Bounds.Intersection is nil for the zero-area box of an axis-parallel line)", src(ex), src(is.Cond))
				return true
			}
			if r, ok := ex.(*ast.ReturnStmt); ok && !emptyResult(r) {
				bad = true
				c.Bad("C14.R4", cons, r.Pos(), "`%s`: when the boxes are disjoint the clip is empty, but a non-empty value is returned", src(r))
			}
		}
		return true
	})
	if !bad {
		c.OK("C14.R4", cons, fd.Pos(), "%d conditional exits ahead of the clipper call, all implied by disjoint closed boxes", n)
	}
}

func c14dep(c *Ctx) {
	dep := c.P.Dep(polyclipPath)
	if dep == nil || len(dep.Syntax) == 0 {
		c.Unk("C14.R3", "polyclip#compute", token.NoPos, "dependency source not loaded")
		return
	}
	info := dep.TypesInfo
	cons := "polyclip.(*clipper).compute#subject-segments"
	for _, f := range dep.Syntax {
		for _, d := range f.Decls {
			fd, ok := d.(*ast.FuncDecl)
			if !ok || fd.Recv == nil || fd.Body == nil || fd.Name.Name != "compute" {
				continue
			}
			ps := paramVars(info, fd.Type)
			if len(ps) != 1 || ps[0] == nil || !isPolyclipOp(ps[0].Type()) {
				continue
			}
			op := ps[0]
			// loops over c.subject
			okGuard := false
			seen := false
			ast.Inspect(fd.Body, func(n ast.Node) bool {
				rs, ok := n.(*ast.RangeStmt)
				if !ok {
					return true
				}
				if sel, ok := unparen(rs.X).(*ast.SelectorExpr); !ok || sel.Sel.Name != "subject" {
					return true
				}
				seen = true
				ast.Inspect(rs.Body, func(m ast.Node) bool {
					is, ok := m.(*ast.IfStmt)
					if !ok {
						return true
					}
					hasOp, hasLast := false, false
					ast.Inspect(is.Cond, func(k ast.Node) bool {
						b, ok := k.(*ast.BinaryExpr)
						if !ok || b.Op != token.EQL {
							return true
						}
						if objOf(info, b.X) == op {
							if cst, ok := objOf(info, b.Y).(*types.Const); ok && cst.Name() == "CLIPLINE" {
								hasOp = true
							}
						}
						if bb, ok := unparen(b.Y).(*ast.BinaryExpr); ok && bb.Op == token.SUB {
							if lenArg(info, bb.X) != nil {
								if k, ok := constInt(info, bb.Y); ok && k == 1 {
									hasLast = true
								}
							}
						}
						return true
					})
					if hasOp && hasLast {
						okGuard = true
					}
					return true
				})
				return true
			})
			if !seen {
				c.Unk("C14.R3", cons, token.NoPos, "loop over the subject contours not found")
			} else if okGuard {
				c.OK("C14.R3", cons, token.NoPos, "segment i == len-1 of a subject contour is skipped when operation == CLIPLINE")
			} else {
				c.Bad("C14.R3", cons, token.NoPos, "the subject's closing segment is not skipped in CLIPLINE mode: an open line would be clipped as a closed ring")
			}
			return
		}
	}
	c.Unk("C14.R3", cons, token.NoPos, "clipper entry not found")
}
