package main

// Model evaluation of the WKB codec (C05.R1–R3; C07.R1/R2/R4 for the WKB decoder).
//
// wkb.Write and wkb.Read are interpreted with encoding/binary replaced by a stub that moves
// typed items (U8, U32, F64, each tagged with the byte order it was transferred in) to and
// from one abstract stream.
//
//	writer : for small geometries of all seven types (empty members, nested collections) and
//	         both byte orders the stream Write produces equals the OGC layout
//	         U8 order · U32 code · body, every count the number of members that follow, every
//	         member of a Multi*/Collection a complete WKB of its own, every multi-byte item in
//	         the requested order
//	reader : Read on that stream returns the geometry again (type, shape, vertices) and
//	         consumes it exactly; members written in the *other* byte order decode correctly
//	         (each element carries its own flag); point arrays longer than the allocation
//	         chunk come back complete
//	totality: every truncation of those streams, inflated counts, unknown type codes and flag
//	         bytes give an error — no panic, and no allocation sized by a count above the chunk
//	         limit

import (
	"fmt"
	"go/token"
	"go/types"
	"strings"
)

type wkbItem struct {
	kind  string // U8 U32 F64
	val   int64
	order string // "B" or "L"; "" for U8
}

func (i wkbItem) String() string {
	if i.kind == "U8" {
		return fmt.Sprintf("U8(%d)", i.val)
	}
	if i.kind == "F64" {
		return fmt.Sprintf("F64%s(v%d)", i.order, i.val)
	}
	return fmt.Sprintf("%s%s(%d)", i.kind, i.order, i.val)
}

type wkbModel struct {
	m        *clipModel
	c        *Ctx
	stream   []wkbItem
	pos      int
	sub      int     // bytes of stream[pos] already taken by a raw read
	pending  []oByte // bytes of an item being put together by raw writes
	nextID   int
	problems []string
	bigMake  string
	mpT, gcT types.Type
}

func orderName(v oval) string {
	if iv, ok := v.(oIface); ok {
		v = iv.dyn
	}
	if e, ok := v.(oExt); ok {
		switch e.name {
		case "encoding/binary.BigEndian":
			return "B"
		case "encoding/binary.LittleEndian":
			return "L"
		}
	}
	return "?"
}

func basicKind(t types.Type) types.BasicKind {
	if t == nil {
		return types.Invalid
	}
	if b, ok := t.Underlying().(*types.Basic); ok {
		return b.Kind()
	}
	return types.Invalid
}

func (w *wkbModel) problem(format string, a ...interface{}) {
	if len(w.problems) < 3 {
		w.problems = append(w.problems, fmt.Sprintf(format, a...))
	}
}

// emit appends the items for one value handed to binary.Write.
func (w *wkbModel) emit(v oval, styp types.Type, order string) bool {
	if len(w.pending) > 0 {
		w.problem("the bytes of %s are followed by another value before they are complete", w.pending[0].item())
		return false
	}
	if iv, ok := v.(oIface); ok {
		if iv.styp != nil {
			styp = iv.styp
		}
		v = iv.dyn
	}
	switch x := v.(type) {
	case oInt:
		switch basicKind(styp) {
		case types.Uint8, types.Int8:
			w.stream = append(w.stream, wkbItem{"U8", int64(x), ""})
		case types.Uint32, types.Int32:
			w.stream = append(w.stream, wkbItem{"U32", int64(x), order})
		default:
			w.problem("binary.Write of an integer of type %v (neither a byte nor a 32-bit word)", styp)
			return false
		}
		return true
	case oFloat:
		w.stream = append(w.stream, wkbItem{"F64", x.r, order})
		return true
	case oPtr:
		if x.s == nil {
			return false
		}
		return w.emit(x.s, nil, order)
	case oRef:
		return w.emit(*x.cell, x.typ, order)
	case *oStruct:
		for _, k := range x.order { // struct order = wire order
			if !w.emit(x.fields[k], nil, order) {
				return false
			}
		}
		return true
	case oSlice:
		for i := 0; i < x.length(); i++ {
			if !w.emit(x.at(i), nil, order) {
				return false
			}
		}
		return true
	}
	w.problem("binary.Write of %s", showVal(v))
	return false
}

// fill reads items from the stream into the target of binary.Read; false = short read.
func (w *wkbModel) fill(target oval, order string) (bool, string) {
	next := func(kind string) (wkbItem, bool, string) {
		if w.pos >= len(w.stream) {
			return wkbItem{}, false, ""
		}
		it := w.stream[w.pos]
		w.pos++
		if it.kind != kind {
			return it, true, fmt.Sprintf("reads a %s where the stream holds %s", kind, it)
		}
		if kind != "U8" && it.order != order {
			return it, true, fmt.Sprintf("reads %s in byte order %s, but it was written in %s", it, order, it.order)
		}
		return it, true, ""
	}
	switch t := target.(type) {
	case oIface:
		return w.fill(t.dyn, order)
	case oRef:
		switch cur := (*t.cell).(type) {
		case oSlice:
			return w.fill(cur, order)
		default:
			_ = cur
		}
		kind := ""
		switch basicKind(t.typ) {
		case types.Uint8, types.Int8:
			kind = "U8"
		case types.Uint32, types.Int32:
			kind = "U32"
		case types.Float64:
			kind = "F64"
		default:
			return true, fmt.Sprintf("binary.Read into a %v", t.typ)
		}
		it, ok, bad := next(kind)
		if !ok {
			return false, ""
		}
		if kind == "F64" {
			*t.cell = oFloat{it.val}
		} else {
			*t.cell = oInt(it.val)
		}
		return true, bad
	case oPtr:
		if t.s == nil {
			return true, "binary.Read into a nil pointer"
		}
		return w.fill(t.s, order)
	case *oStruct:
		for _, k := range t.order {
			if _, isF := t.fields[k].(oFloat); !isF {
				if _, isTop := t.fields[k].(oTop); !isTop {
					return true, "binary.Read into a struct with a non-float field"
				}
			}
			it, ok, bad := next("F64")
			if !ok {
				return false, ""
			}
			t.fields[k] = oFloat{it.val}
			if bad != "" {
				return true, bad
			}
		}
		return true, ""
	case oSlice:
		for i := 0; i < t.length(); i++ {
			st, ok := t.at(i).(*oStruct)
			if !ok {
				return true, "binary.Read into a slice of non-structs"
			}
			ok2, bad := w.fill(st, order)
			if !ok2 || bad != "" {
				return ok2, bad
			}
		}
		return true, ""
	}
	return true, "binary.Read into " + showVal(target)
}

func newWkbModel(c *Ctx) *wkbModel {
	m := newClipModel(c)
	m.it.maxDepth = 48
	m.it.maxLoop = 1 << 17 // a codec may walk a chunk point by point, or byte by byte
	w := &wkbModel{m: m, c: c, mpT: c.P.NamedType("geom", "MultiPoint"), gcT: c.P.NamedType("geom", "GeometryCollection")}
	eof := oIface{opaque: &oOpaque{name: "unexpected EOF", isError: true}}
	errV := oIface{opaque: &oOpaque{name: "error", isError: true}}
	m.it.stub = func(f *types.Func, recv oval, args []oval) ([]oval, bool) {
		full := f.FullName()
		if out, ok := w.byteStub(f, recv, args, eof, errV); ok {
			return out, true
		}
		switch {
		case full == "encoding/binary.Write" && len(args) == 3:
			if !w.emit(args[2], nil, orderName(args[1])) {
				return []oval{errV}, true
			}
			return []oval{oNil{}}, true
		case full == "encoding/binary.Read" && len(args) == 3:
			ok, bad := w.fill(args[2], orderName(args[1]))
			if bad != "" {
				w.problem("%s", bad)
			}
			if !ok {
				return []oval{eof}, true
			}
			return []oval{oNil{}}, true
		case f.Name() == "Len" && len(args) == 0 && recv != nil:
			if iv, ok := recv.(oIface); ok && iv.opaque != nil && iv.opaque.name == "stream" {
				return []oval{oInt(w.bytesLeft())}, true
			}
		case full == "fmt.Errorf" || full == "errors.New":
			return []oval{errV}, true
		case f.Pkg() != nil && f.Pkg().Path() == "reflect":
			return []oval{oTop{"reflect value"}}, true
		case full == "bytes.NewBuffer" || full == "bytes.NewReader" || full == "bytes.NewBufferString":
			return []oval{oIface{opaque: &oOpaque{name: "stream", methods: []string{"Read", "Write", "Len"}}}}, true
		case full == "(*bytes.Buffer).Bytes":
			return []oval{strVal(types.NewSlice(types.Typ[types.Byte]), "<stream>")}, true
		}
		if f.Pkg() != nil && c.P.Decl(f) == nil {
			switch f.Pkg().Path() {
			case "encoding/binary", "io", "bytes", "bufio":
				if out, ok := m.it.coreLib(f, recv, args); ok {
					return out, true
				}
				return []oval{oTop{full + " is not modelled"}}, true
			}
		}
		return nil, false
	}
	return w
}

// layout is the OGC reference stream for a model geometry.
type wkbGeom struct {
	tn      string
	pts     []oBoxPt   // Point, LineString
	rings   [][]oBoxPt // Polygon
	members []wkbGeom  // Multi*, Collection
}

var wkbCode = map[string]int64{"Point": 1, "LineString": 2, "Polygon": 3, "MultiPoint": 4, "MultiLineString": 5, "MultiPolygon": 6, "GeometryCollection": 7}

func (g wkbGeom) layout(order string, memberOrder func(depth int) string, depth int) []wkbItem {
	flag := map[string]int64{"B": 0, "L": 1}[order]
	out := []wkbItem{{"U8", flag, ""}, {"U32", wkbCode[g.tn], order}}
	pt := func(p oBoxPt) { out = append(out, wkbItem{"F64", p.x, order}, wkbItem{"F64", p.y, order}) }
	switch g.tn {
	case "Point":
		pt(g.pts[0])
	case "LineString":
		out = append(out, wkbItem{"U32", int64(len(g.pts)), order})
		for _, p := range g.pts {
			pt(p)
		}
	case "Polygon":
		out = append(out, wkbItem{"U32", int64(len(g.rings)), order})
		for _, r := range g.rings {
			out = append(out, wkbItem{"U32", int64(len(r)), order})
			for _, p := range r {
				pt(p)
			}
		}
	default:
		out = append(out, wkbItem{"U32", int64(len(g.members)), order})
		for _, mb := range g.members {
			out = append(out, mb.layout(memberOrder(depth+1), memberOrder, depth+1)...)
		}
	}
	return out
}

func (w *wkbModel) value(g wkbGeom) oval {
	m := w.m
	mk := func(t types.Type, ps []oBoxPt) oSlice {
		var vals []oval
		for _, p := range ps {
			vals = append(vals, m.it.point(m.ptT, p.x, p.y))
		}
		return m.sliceOf(t, vals)
	}
	ringT := m.polyT.Underlying().(*types.Slice).Elem()
	switch g.tn {
	case "Point":
		return m.it.point(m.ptT, g.pts[0].x, g.pts[0].y)
	case "LineString":
		return mk(m.lsT, g.pts)
	case "Polygon":
		var rs []oval
		for _, r := range g.rings {
			rs = append(rs, mk(ringT, r))
		}
		return m.sliceOf(m.polyT, rs)
	}
	var vals []oval
	for _, mb := range g.members {
		v := w.value(mb)
		if g.tn == "GeometryCollection" {
			v = m.it.ifaceOf(v)
		}
		vals = append(vals, v)
	}
	switch g.tn {
	case "MultiPoint":
		return m.sliceOf(w.mpT, vals)
	case "MultiLineString":
		return m.sliceOf(m.mlsT, vals)
	case "MultiPolygon":
		return m.sliceOf(m.mpolyT, vals)
	}
	return m.sliceOf(w.gcT, vals)
}

func (w *wkbModel) geoms() []wkbGeom {
	m := w.m
	pts := func(n int) []oBoxPt {
		var o []oBoxPt
		for i := 0; i < n; i++ {
			o = append(o, m.fresh())
		}
		return o
	}
	P := func() wkbGeom { return wkbGeom{tn: "Point", pts: pts(1)} }
	L := func(n int) wkbGeom { return wkbGeom{tn: "LineString", pts: pts(n)} }
	G := func(sizes ...int) wkbGeom {
		g := wkbGeom{tn: "Polygon"}
		for _, n := range sizes {
			g.rings = append(g.rings, pts(n))
		}
		return g
	}
	M := func(tn string, ms ...wkbGeom) wkbGeom { return wkbGeom{tn: tn, members: ms} }
	return []wkbGeom{
		P(), L(0), L(1), L(3), G(), G(3), G(3, 0, 2), G(0, 2),
		M("MultiPoint"), M("MultiPoint", P()), M("MultiPoint", P(), P(), P()),
		M("MultiLineString"), M("MultiLineString", L(2), L(0), L(3)),
		M("MultiPolygon"), M("MultiPolygon", G(2), G(), G(1, 2)),
		M("GeometryCollection"), M("GeometryCollection", P(), L(2), G(2, 1), M("MultiPoint", P(), P())),
		M("GeometryCollection", M("GeometryCollection", L(1), M("MultiPolygon", G(2))), P()),
	}
}

func sameGeomValue(a, b oval) bool {
	var pa, pb []oBoxPt
	if !collectVerts2(a, &pa) || !collectVerts2(b, &pb) {
		return false
	}
	ta, tb := dynTypeOfResult(a), dynTypeOfResult(b)
	if ta == nil || tb == nil || !types.Identical(ta, tb) {
		return false
	}
	return samePts(pa, pb) && sameShape(a, b)
}

// collectVerts2 is collectVerts that tolerates empty geometries.
func collectVerts2(v oval, out *[]oBoxPt) bool {
	return collectVerts(v, out, map[*[]oval]bool{}) || isEmptyGeomValue(v)
}

func isEmptyGeomValue(v oval) bool {
	if iv, ok := v.(oIface); ok {
		v = iv.dyn
	}
	s, ok := v.(oSlice)
	if !ok {
		return false
	}
	for i := 0; i < s.length(); i++ {
		if !isEmptyGeomValue(s.at(i)) {
			var tmp []oBoxPt
			if !collectVerts(s.at(i), &tmp, map[*[]oval]bool{}) {
				return false
			}
		}
	}
	return true
}

func showItems(items []wkbItem) string {
	s := ""
	for i, it := range items {
		if i > 0 {
			s += " "
		}
		if i > 14 {
			return s + "…"
		}
		s += it.String()
	}
	return s
}

// c05model files the writer/reader layout obligations under ruleW / ruleR and the totality
// obligations under ruleT.
func c05model(c *Ctx, ruleW, ruleR, ruleT string) {
	w := newWkbModel(c)
	wr, rd := c.P.Func("encoding/wkb", "Write"), c.P.Func("encoding/wkb", "Read")
	if c.P.Decl(wr) == nil || c.P.Decl(rd) == nil || w.m.ptT == nil || w.mpT == nil || w.gcT == nil {
		c.Unk(ruleW, "encoding/wkb.Read/Write", token.NoPos, "API anchors do not resolve")
		return
	}
	wpos, rpos := c.P.Decl(wr).Pos(), c.P.Decl(rd).Pos()
	// the reader is a buffer: it also knows how many bytes are left (bytes.Buffer, bytes.Reader)
	streamH := oIface{opaque: &oOpaque{name: "stream", methods: []string{"Read", "Write", "Len"}}}
	ord := map[string]oval{"B": oIface{dyn: oExt{"encoding/binary.BigEndian"}}, "L": oIface{dyn: oExt{"encoding/binary.LittleEndian"}}}
	type verdict struct {
		msg, unk string
		n        int
	}
	wv, rv := map[string]*verdict{}, map[string]*verdict{}
	get := func(mm map[string]*verdict, k string) *verdict {
		if mm[k] == nil {
			mm[k] = &verdict{}
		}
		return mm[k]
	}
	same := func(string) func(int) string { return nil }
	_ = same
	runs := 0
	var goodStreams [][]wkbItem
	for _, g := range w.geoms() {
		for _, o := range []string{"B", "L"} {
			// ---------------- writer
			v := get(wv, g.tn)
			want := g.layout(o, func(int) string { return o }, 0)
			if v.msg == "" && v.unk == "" {
				v.n++
				runs++
				w.reset(nil)
				res, why := w.m.it.Call(wr, nil, []oval{streamH, ord[o], w.m.it.ifaceOf(w.value(g))}, 0)
				switch {
				case why != "":
					if len(why) > 6 && why[:6] == "panic:" {
						v.msg = fmt.Sprintf("Write(%s, order %s) panics: %s", g.tn, o, why)
					} else {
						v.unk = fmt.Sprintf("Write(%s): not interpretable: %s", g.tn, why)
					}
				case len(w.problems) > 0 && strings.Contains(w.problems[0], "⊤"):
					v.unk = fmt.Sprintf("Write(%s): %s", g.tn, w.problems[0])
				case len(w.problems) > 0:
					v.msg = fmt.Sprintf("Write(%s): %s", g.tn, w.problems[0])
				default:
					if eq, ok := oEqual(res[0], oNil{}); !ok {
						v.unk = fmt.Sprintf("Write(%s): the error result is %s", g.tn, showVal(res[0]))
					} else if !eq {
						v.msg = fmt.Sprintf("Write(%s, order %s) returns an error for a supported geometry", g.tn, o)
					} else if !sameItems(w.written(), want) {
						v.msg = fmt.Sprintf("Write(%s, order %s) produces  %s  — the OGC layout is  %s  (flag, type code, counts = number of members that follow, members as complete WKB, everything in the requested order)", g.tn, o, showItems(w.written()), showItems(want))
					}
				}
			}
			// ---------------- reader, on the reference stream; members in the other order too
			for _, mixed := range []bool{false, true} {
				if mixed && len(g.members) == 0 {
					continue
				}
				r := get(rv, g.tn)
				if r.msg != "" || r.unk != "" {
					continue
				}
				other := map[string]string{"B": "L", "L": "B"}[o]
				ref := want
				if mixed {
					ref = g.layout(o, func(d int) string {
						if d%2 == 1 {
							return other
						}
						return o
					}, 0)
				}
				goodStreams = append(goodStreams, ref)
				r.n++
				runs++
				w.reset(append([]wkbItem{}, ref...))
				res, why := w.m.it.Call(rd, nil, []oval{streamH}, 0)
				what := fmt.Sprintf("Read of a %s in order %s", g.tn, o)
				if mixed {
					what += " whose members are written in the other order"
				}
				switch {
				case why != "":
					if len(why) > 6 && why[:6] == "panic:" {
						r.msg = what + " panics: " + why
					} else {
						r.unk = what + ": not interpretable: " + why
					}
				case len(w.problems) > 0 && strings.Contains(w.problems[0], "⊤"):
					r.unk = what + ": " + w.problems[0]
				case len(w.problems) > 0:
					r.msg = what + ": " + w.problems[0]
				default:
					if eq, ok := oEqual(res[1], oNil{}); !ok {
						r.unk = what + ": the error result is " + showVal(res[1])
					} else if !eq {
						r.msg = what + " fails on a well-formed message"
					} else if w.pos != len(w.stream) {
						r.msg = fmt.Sprintf("%s leaves %d of %d items unread", what, len(w.stream)-w.pos, len(w.stream))
					} else if !sameGeomValue(res[0], w.m.it.ifaceOf(w.value(g))) {
						r.msg = fmt.Sprintf("%s returns %s, not the geometry that was encoded", what, showVal(res[0]))
					}
				}
			}
		}
	}
	// long point arrays: beyond the allocation chunk
	{
		r := get(rv, "LineString")
		for _, n := range []int{1024, 1025, 2049} {
			if r.msg != "" || r.unk != "" {
				break
			}
			var ps []oBoxPt
			for i := 0; i < n; i++ {
				ps = append(ps, oBoxPt{int64(100000 + 4*i), int64(100002 + 4*i)})
			}
			g := wkbGeom{tn: "LineString", pts: ps}
			w.reset(g.layout("L", func(int) string { return "L" }, 0))
			runs++
			res, why := w.m.it.Call(rd, nil, []oval{streamH}, 0)
			var got []oBoxPt
			switch {
			case why != "":
				if len(why) > 6 && why[:6] == "panic:" {
					r.msg = fmt.Sprintf("Read of a line string of %d points panics: %s", n, why)
				} else {
					r.unk = fmt.Sprintf("Read of a line string of %d points: not interpretable: %s", n, why)
				}
			case len(w.problems) > 0 && strings.Contains(w.problems[0], "⊤"):
				r.unk = fmt.Sprintf("Read of a line string of %d points: %s", n, w.problems[0])
			case len(w.problems) > 0:
				r.msg = fmt.Sprintf("Read of a line string of %d points: %s", n, w.problems[0])
			default:
				if eq, ok := oEqual(res[1], oNil{}); !ok {
					r.unk = fmt.Sprintf("Read of a line string of %d points: the error result is %s", n, showVal(res[1]))
				} else if !eq {
					r.msg = fmt.Sprintf("Read fails on a well-formed line string of %d points", n)
				} else if !collectVerts(res[0], &got, map[*[]oval]bool{}) || !samePts(got, ps) {
					r.msg = fmt.Sprintf("Read of a line string of %d points returns %d points, or points out of order", n, len(got))
				}
			}
		}
	}
	c.Evals(runs)
	for _, tn := range []string{"Point", "LineString", "Polygon", "MultiPoint", "MultiLineString", "MultiPolygon", "GeometryCollection"} {
		for _, side := range []struct {
			mm   map[string]*verdict
			rule string
			cons string
			pos  token.Pos
			ok   string
		}{{wv, ruleW, "encoding/wkb.Write#layout(" + tn + ")", wpos, "stream equals the OGC layout for every model geometry in both byte orders"},
			{rv, ruleR, "encoding/wkb#reader-layout(" + tn + ")", rpos, "every reference stream (members also in the other byte order) decodes to the geometry and is consumed exactly"}} {
			v := side.mm[tn]
			switch {
			case v == nil:
				c.Unk(side.rule, side.cons, side.pos, "no model case")
			case v.msg != "":
				c.Bad(side.rule, side.cons, side.pos, "%s", v.msg)
			case v.unk != "":
				c.Unk(side.rule, side.cons, side.pos, "%s", v.unk)
			default:
				c.OK(side.rule, side.cons, side.pos, "%s (%d runs)", side.ok, v.n)
			}
		}
	}
	// ---------------- totality
	if ruleT != "" {
		msg, unk := "", ""
		truns := 0
		try := func(items []wkbItem, what string, wantErr bool) {
			if msg != "" {
				return
			}
			truns++
			w.reset(append([]wkbItem{}, items...))
			res, why := w.m.it.Call(rd, nil, []oval{streamH}, 0)
			if why != "" {
				if len(why) > 6 && why[:6] == "panic:" {
					msg = fmt.Sprintf("Read panics on %s (%s): %s", what, showItems(items), why)
				} else if unk == "" {
					unk = fmt.Sprintf("%s: not interpretable: %s", what, why)
				}
				return
			}
			eq, ok := oEqual(res[1], oNil{})
			if !ok {
				if unk == "" {
					unk = fmt.Sprintf("%s: the error result is %s", what, showVal(res[1]))
				}
				return
			}
			if wantErr && eq {
				msg = fmt.Sprintf("Read accepts %s (%s) and returns %s without an error", what, showItems(items), showVal(res[0]))
			}
		}
		for _, s := range goodStreams {
			for cut := 0; cut < len(s); cut++ {
				try(s[:cut], fmt.Sprintf("a message truncated after %d of %d items", cut, len(s)), true)
			}
		}
		big := int64(1) << 28
		for _, o := range []string{"B", "L"} {
			flag := map[string]int64{"B": 0, "L": 1}[o]
			for code := int64(2); code <= 7; code++ {
				try([]wkbItem{{"U8", flag, ""}, {"U32", code, o}, {"U32", big, o}}, fmt.Sprintf("type %d announcing 2^28 members with no payload", code), true)
			}
			try([]wkbItem{{"U8", flag, ""}, {"U32", 3, o}, {"U32", 1, o}, {"U32", big, o}}, "a polygon ring announcing 2^28 points with no payload", true)
			// a count of 2^28 followed by a genuine payload of two full chunks
			long := []wkbItem{{"U8", flag, ""}, {"U32", 2, o}, {"U32", big, o}}
			for i := 0; i < 2048; i++ {
				long = append(long, wkbItem{"F64", int64(4 * i), o}, wkbItem{"F64", int64(4*i + 2), o})
			}
			try(long, "a line string announcing 2^28 points followed by 2048 real points", true)
			for _, code := range []int64{0, 8, 15, 16, 17, 1001, 0x20000001, 0xffffffff} {
				try([]wkbItem{{"U8", flag, ""}, {"U32", code, o}}, fmt.Sprintf("unknown type code %d", code), true)
			}
		}
		for _, flag := range []int64{2, 7, 255} {
			try([]wkbItem{{"U8", flag, ""}, {"U32", 1, "L"}}, fmt.Sprintf("byte-order flag %d", flag), true)
		}
		// a member of the wrong kind inside a MultiPoint
		try([]wkbItem{{"U8", 1, ""}, {"U32", 4, "L"}, {"U32", 1, "L"}, {"U8", 1, ""}, {"U32", 2, "L"}, {"U32", 0, "L"}}, "a MultiPoint whose member is a LineString", true)
		c.Evals(truns)
		report3(c, ruleT, "encoding/wkb.Read#malformed", rpos, msg, unk, fmt.Sprintf("%d malformed messages (every truncation of the model messages, inflated counts with and without payload, unknown type codes and flags, wrong member kinds): each gives an error, none panics, none allocates by an announced count above the chunk limit", truns))
	}
}

func sameItems(a, b []wkbItem) bool {
	if len(a) != len(b) {
		return false
	}
	for i := range a {
		if a[i] != b[i] {
			return false
		}
	}
	return true
}
