package main

// Symbolic arithmetic for the abstract interpreter (enabled per model with oInterp.symbolic).
//
// A float that is not one of the abstract input ranks is a polynomial with rational
// coefficients over atoms.  An atom is an input symbol (the rank r<k> of an input float, or a
// named parameter) or the application of a function the domain does not interpret — sqrt, sin,
// atan2, a reciprocal — to canonical arguments.  Sums and products are kept in normal form
// (expanded, like terms collected), so two expressions that are equal as real polynomials in
// the atoms have the same representation whatever the order, grouping or factoring the source
// uses.  Comparisons are decided only when the difference of the operands is a constant; every
// other comparison is unknown (⊤) and stops the run at the branch that needs it.

import (
	"crypto/sha1"
	"fmt"
	"go/constant"
	"go/token"
	"math"
	"math/big"
	"regexp"
	"sort"
	"strings"
)

type oSym struct{ p poly }

const symMaxTerms = 4000

// symAtoms remembers, for sqrt and inv atoms, the polynomial under the function, so that
// sqrt(P)·sqrt(P) and inv(P)·P can be simplified.
var symAtoms = map[string]poly{}

func rankVar(r int64) string { return fmt.Sprintf("r%d", r) }

func symOf(v oval) (poly, bool) {
	switch x := v.(type) {
	case oFloat:
		if x.r >= oInf || x.r <= -oInf {
			return nil, false
		}
		return polyVar(rankVar(x.r)), true
	case oSym:
		return x.p, true
	case oInt:
		return polyConst(big.NewRat(int64(x), 1)), true
	}
	return nil, false
}

func symVal(p poly) oval {
	if len(p) > symMaxTerms {
		return oTop{"symbolic expression too large"}
	}
	if len(p) == 1 {
		for k, c := range p {
			if strings.HasPrefix(k, "r") && !strings.ContainsAny(k, "*(") && c.Cmp(big.NewRat(1, 1)) == 0 {
				var r int64
				if _, err := fmt.Sscanf(k, "r%d", &r); err == nil && rankVar(r) == k {
					return oFloat{r}
				}
			}
		}
	}
	return oSym{p}
}

func symConst(p poly) (*big.Rat, bool) {
	switch len(p) {
	case 0:
		return new(big.Rat), true
	case 1:
		if c, ok := p[""]; ok {
			return c, true
		}
	}
	return nil, false
}

// canon renders a polynomial canonically; products inside use '·' so that the text can be an
// atom name (monomials are joined with '*').
func (p poly) canon() string {
	if len(p) == 0 {
		return "0"
	}
	keys := make([]string, 0, len(p))
	for k := range p {
		keys = append(keys, k)
	}
	sort.Strings(keys)
	var parts []string
	for _, k := range keys {
		c := p[k].RatString()
		m := strings.ReplaceAll(k, "*", "·")
		switch {
		case m == "":
			parts = append(parts, c)
		case c == "1":
			parts = append(parts, m)
		default:
			parts = append(parts, c+"·"+m)
		}
	}
	return strings.Join(parts, " + ")
}

func (p poly) scale(c *big.Rat) poly {
	out := poly{}
	if c.Sign() == 0 {
		return out
	}
	for k, v := range p {
		out[k] = new(big.Rat).Mul(v, c)
	}
	return out
}

// leading: the coefficient of the first monomial in canonical order.
func (p poly) leading() *big.Rat {
	keys := make([]string, 0, len(p))
	for k := range p {
		keys = append(keys, k)
	}
	sort.Strings(keys)
	if len(keys) == 0 {
		return big.NewRat(1, 1)
	}
	return p[keys[0]]
}

// symMul multiplies and then simplifies sqrt(P)·sqrt(P) → P and inv(P)·inv-free factors.
func symMul(a, b poly) poly {
	if polyHasNaN(a) || polyHasNaN(b) {
		return polyVar("NaN") // NaN·0 is NaN, not 0
	}
	out := a.mul(b)
	// sqrt(P)^2 → P
	for changed := true; changed; {
		changed = false
		for k, c := range out {
			fs := strings.Split(k, "*")
			for i := 0; i+1 < len(fs); i++ {
				if fs[i] == fs[i+1] && strings.HasPrefix(fs[i], "sqrt(") {
					if under, ok := symAtoms[fs[i]]; ok {
						rest := append(append([]string{}, fs[:i]...), fs[i+2:]...)
						delete(out, k)
						m := poly{strings.Join(rest, "*"): new(big.Rat).Set(c)}
						out = out.add(m.mul(under), 1)
						changed = true
						break
					}
				}
			}
			if changed {
				break
			}
		}
	}
	return out
}

type symApp struct {
	fn   string
	args []poly
}

// symApps: the arguments of every function atom, for numeric evaluation under a valuation.
var symApps = map[string]symApp{}

func symAtom(name string, args ...poly) poly {
	var as []string
	for _, a := range args {
		as = append(as, a.canon())
	}
	full := name + "(" + strings.Join(as, ", ") + ")"
	symApps[full] = symApp{name, args}
	if symWiden != nil && len(full) > symWidenLimit && name != "atan2" && !(symKeep[name] && len(full) <= 8*symWidenLimit) {
		// widening: a very large application is replaced by a symbol named after its content (equal
		// expressions keep equal names) whose value under the reference valuation is recorded
		if v, ok := symEvalAtom(full, symWiden); ok {
			h := sha1.Sum([]byte(full))
			short := fmt.Sprintf("h%x", h[:8])
			symWiden[short] = v
			symWideOf[short] = full
			return polyVar(short)
		}
	}
	return polyVar(full)
}

// symWiden, when set by a model, is the valuation used to abbreviate very large applications
// (iterative solvers nest their previous iterate in every step).
var symWiden map[string]float64

const symWidenLimit = 160

// symKeep: applications a model needs to see through (never abbreviated while set).
var symKeep = map[string]bool{}

// symWideOf: the application each abbreviation stands for (to ask what it depends on).
var symWideOf = map[string]string{}

var hashSym = regexp.MustCompile(`\bh[0-9a-f]{16}\b`)

// symEval evaluates p at a valuation of its symbols (used only to choose a branch when a
// comparison is not decided symbolically; the driver states the valuation in its evidence).
func symEval(p poly, val map[string]float64) (float64, bool) {
	total := 0.0
	for k, c := range p {
		cf, _ := c.Float64()
		term := cf
		if k != "" {
			for _, f := range strings.Split(k, "*") {
				v, ok := symEvalAtom(f, val)
				if !ok {
					return 0, false
				}
				term *= v
			}
		}
		total += term
	}
	return total, true
}

// symEvalCache memoises the values of function atoms under the current valuation (nested
// solver iterates would otherwise be re-evaluated exponentially often).  A model that changes
// the value of a symbol calls symResetEval.
var symEvalCache = map[string]float64{}

func symResetEval() { symEvalCache = map[string]float64{} }

func symEvalAtom(f string, val map[string]float64) (float64, bool) {
	if v, ok := val[f]; ok {
		return v, true
	}
	if v, ok := symEvalCache[f]; ok {
		return v, true
	}
	v, ok := symEvalAtomRaw(f, val)
	if ok && strings.Contains(f, "(") {
		symEvalCache[f] = v
	}
	return v, ok
}

func symEvalAtomRaw(f string, val map[string]float64) (float64, bool) {
	if _, ranks := val["__ranks"]; ranks && strings.HasPrefix(f, "r") && !strings.Contains(f, "(") {
		// the abstract ranks double as coordinates on an integer grid
		var r int64
		if _, err := fmt.Sscanf(f, "r%d", &r); err == nil && rankVar(r) == f {
			return float64(r) * val["__ranks"], true // the value of "__ranks" is the grid spacing
		}
	}
	if f == "NaN" {
		return math.NaN(), true
	}
	if under, ok := symAtoms[f]; ok {
		u, ok := symEval(under, val)
		if !ok {
			return 0, false
		}
		if strings.HasPrefix(f, "sqrt(") {
			return math.Sqrt(u), true
		}
		return 1 / u, true
	}
	app, ok := symApps[f]
	if !ok {
		return 0, false
	}
	var as []float64
	for _, a := range app.args {
		v, ok := symEval(a, val)
		if !ok {
			return 0, false
		}
		as = append(as, v)
	}
	one := map[string]func(float64) float64{"sin": math.Sin, "cos": math.Cos, "tan": math.Tan, "asin": math.Asin, "acos": math.Acos, "atan": math.Atan,
		"sinh": math.Sinh, "cosh": math.Cosh, "tanh": math.Tanh, "exp": math.Exp, "log": math.Log, "abs": math.Abs, "floor": math.Floor, "ceil": math.Ceil,
		"log10": math.Log10, "cbrt": math.Cbrt, "asinh": math.Asinh, "atanh": math.Atanh, "trunc": math.Trunc}
	if fn, ok := one[app.fn]; ok && len(as) == 1 {
		return fn(as[0]), true
	}
	if len(as) == 2 {
		switch app.fn {
		case "atan2":
			return math.Atan2(as[0], as[1]), true
		case "pow":
			return math.Pow(as[0], as[1]), true
		case "mod":
			return math.Mod(as[0], as[1]), true
		case "min":
			return math.Min(as[0], as[1]), true
		case "max":
			return math.Max(as[0], as[1]), true
		}
	}
	return 0, false
}

func symCompareAt(op token.Token, a, b poly, val map[string]float64) (bool, bool) {
	x, ok1 := symEval(a, val)
	y, ok2 := symEval(b, val)
	if !ok1 || !ok2 {
		return false, false
	}
	switch op {
	case token.LSS:
		return x < y, true
	case token.LEQ:
		return x <= y, true
	case token.GTR:
		return x > y, true
	case token.GEQ:
		return x >= y, true
	case token.EQL:
		return x == y, true
	case token.NEQ:
		return x != y, true
	}
	return false, false
}

// symInv: 1/q.
func symInv(q poly) (poly, bool) {
	if c, ok := symConst(q); ok {
		if c.Sign() == 0 {
			return nil, false
		}
		return polyConst(new(big.Rat).Inv(c)), true
	}
	// pull the leading coefficient out so that q and c·q share the atom
	lc := q.leading()
	norm := q.scale(new(big.Rat).Inv(lc))
	// a single monomial: invert factor by factor
	if len(norm) == 1 {
		for k := range norm {
			out := polyConst(new(big.Rat).Inv(lc))
			for _, f := range strings.Split(k, "*") {
				var atom poly
				if strings.HasPrefix(f, "inv(") {
					if under, ok := symAtoms[f]; ok {
						atom = under
					}
				}
				if atom == nil {
					fp := polyVar(f)
					name := "inv(" + fp.canon() + ")"
					symAtoms[name] = fp
					atom = polyVar(name)
				}
				out = symMul(out, atom)
			}
			return out, true
		}
	}
	name := "inv(" + norm.canon() + ")"
	symAtoms[name] = norm
	return polyVar(name).scale(new(big.Rat).Inv(lc)), true
}

// symDiv: p/q with cancellation of inv(Q)·Q when p is a multiple of q.
func symDiv(p, q poly) (poly, bool) {
	if p.equal(q) && len(q) > 0 {
		return polyConst(big.NewRat(1, 1)), true
	}
	inv, ok := symInv(q)
	if !ok {
		return nil, false
	}
	return symCancel(symMul(p, inv)), true
}

// symCancel removes x·inv(x) pairs inside monomials.
func symCancel(p poly) poly {
	out := poly{}
	for k, c := range p {
		fs := strings.Split(k, "*")
		for changed := true; changed; {
			changed = false
			for i, f := range fs {
				if !strings.HasPrefix(f, "inv(") {
					continue
				}
				under, ok := symAtoms[f]
				if !ok || len(under) != 1 {
					continue
				}
				var uf string
				for uk, uc := range under {
					if uc.Cmp(big.NewRat(1, 1)) == 0 {
						uf = uk
					}
				}
				if uf == "" || strings.Contains(uf, "*") {
					continue
				}
				for j, g := range fs {
					if g == uf {
						// remove both
						hi, lo := i, j
						if lo > hi {
							hi, lo = lo, hi
						}
						fs = append(fs[:hi], fs[hi+1:]...)
						fs = append(fs[:lo], fs[lo+1:]...)
						changed = true
						break
					}
				}
				if changed {
					break
				}
			}
		}
		sort.Strings(fs)
		nk := strings.Join(fs, "*")
		if o, ok := out[nk]; ok {
			o.Add(o, c)
		} else {
			out[nk] = new(big.Rat).Set(c)
		}
	}
	for k, v := range out {
		if v.Sign() == 0 {
			delete(out, k)
		}
	}
	return out
}

func symSqrt(p poly) poly {
	if c, ok := symConst(p); ok && c.Sign() >= 0 {
		// exact rational squares only
		n, d := new(big.Int).Sqrt(c.Num()), new(big.Int).Sqrt(c.Denom())
		if new(big.Int).Mul(n, n).Cmp(c.Num()) == 0 && new(big.Int).Mul(d, d).Cmp(c.Denom()) == 0 {
			return polyConst(new(big.Rat).SetFrac(n, d))
		}
	}
	name := "sqrt(" + p.canon() + ")"
	symAtoms[name] = p
	return polyVar(name)
}

var symOdd = map[string]bool{"Sin": true, "Tan": true, "Asin": true, "Atan": true, "Sinh": true, "Tanh": true, "Asinh": true, "Atanh": true, "Cbrt": true}
var symEven = map[string]bool{"Cos": true, "Cosh": true, "Abs": true}

// symMath: a math function applied to symbolic arguments.
func symMath(name string, args []poly) (poly, bool) {
	switch name {
	case "Sqrt":
		return symSqrt(args[0]), true
	case "Hypot":
		return symSqrt(symMul(args[0], args[0]).add(symMul(args[1], args[1]), 1)), true
	case "Pow":
		if c, ok := symConst(args[1]); ok && c.IsInt() {
			n := c.Num().Int64()
			if n >= 0 && n <= 8 {
				out := polyConst(big.NewRat(1, 1))
				for i := int64(0); i < n; i++ {
					out = symMul(out, args[0])
				}
				return out, true
			}
			if n < 0 && n >= -8 {
				pos, _ := symMath("Pow", []poly{args[0], polyConst(big.NewRat(-n, 1))})
				return symInv(pos)
			}
		}
		if c, ok := symConst(args[1]); ok && c.Cmp(big.NewRat(1, 2)) == 0 {
			return symSqrt(args[0]), true
		}
		return symAtom("pow", args...), true
	case "Abs":
		if c, ok := symConst(args[0]); ok {
			return polyConst(new(big.Rat).Abs(c)), true
		}
	}
	if len(args) == 1 {
		a := args[0]
		if symOdd[name] || symEven[name] {
			if len(a) == 0 && name != "Cos" && name != "Cosh" {
				return poly{}, true
			}
			if a.leading().Sign() < 0 {
				pos := a.scale(big.NewRat(-1, 1))
				r := symAtom(strings.ToLower(name), pos)
				if symOdd[name] {
					return r.scale(big.NewRat(-1, 1)), true
				}
				return r, true
			}
		}
		return symAtom(strings.ToLower(name), a), true
	}
	return symAtom(strings.ToLower(name), args...), true
}

func symBinop(op token.Token, a, b poly) (poly, bool) {
	if polyHasNaN(a) || polyHasNaN(b) {
		return polyVar("NaN"), true
	}
	switch op {
	case token.ADD:
		return a.add(b, 1), true
	case token.SUB:
		return a.add(b, -1), true
	case token.MUL:
		return symCancel(symMul(a, b)), true
	case token.QUO:
		if len(b) == 0 && len(a) == 0 {
			// 0/0 with both operands identically zero (a degenerate input whose coordinates share
			// their symbols): not a number, which every comparison answers false to
			return polyVar("NaN"), true
		}
		return symDiv(a, b)
	}
	return nil, false
}

// symCompare decides a comparison when the difference is a constant.
func symCompare(op token.Token, a, b poly) (bool, bool) {
	if polyHasNaN(a) || polyHasNaN(b) {
		return op == token.NEQ, true
	}
	d, ok := symConst(a.add(b, -1))
	if !ok {
		return false, false
	}
	s := d.Sign()
	switch op {
	case token.LSS:
		return s < 0, true
	case token.LEQ:
		return s <= 0, true
	case token.GTR:
		return s > 0, true
	case token.GEQ:
		return s >= 0, true
	case token.EQL:
		return s == 0, true
	case token.NEQ:
		return s != 0, true
	}
	return false, false
}

// symFromConstant: the float64 a constant becomes when it is used (exact constants are rounded
// once, as the compiler does).
func symFromConstant(v constant.Value) (poly, bool) {
	f, _ := constant.Float64Val(constant.ToFloat(v))
	r := new(big.Rat)
	if r.SetFloat64(f) == nil {
		return nil, false
	}
	return polyConst(r), true
}

func polyHasNaN(p poly) bool {
	for k := range p {
		for _, f := range strings.Split(k, "*") {
			if f == "NaN" {
				return true
			}
		}
	}
	return false
}

// symRationalEqual decides a == b for polynomials whose atoms include reciprocals: the
// difference is multiplied by the polynomial under each inv atom (cancelling the atom where it
// occurs) until none is left; the two are equal as rational functions exactly when what remains
// is the zero polynomial.
func symRationalEqual(a, b poly) bool {
	d := a.add(b, -1)
	for round := 0; round < 64; round++ {
		if len(d) == 0 {
			return true
		}
		if len(d) > symMaxTerms*8 {
			return false
		}
		atom := ""
		for k := range d {
			for _, f := range strings.Split(k, "*") {
				if strings.HasPrefix(f, "inv(") {
					if atom == "" || f < atom {
						atom = f
					}
				}
			}
		}
		if atom == "" {
			return false
		}
		q, ok := symAtoms[atom]
		if !ok {
			return false
		}
		next := poly{}
		for k, c := range d {
			fs := strings.Split(k, "*")
			idx := -1
			for i, f := range fs {
				if f == atom {
					idx = i
					break
				}
			}
			if idx >= 0 {
				rest := append(append([]string{}, fs[:idx]...), fs[idx+1:]...)
				next.accumulate(poly{strings.Join(rest, "*"): c})
			} else {
				next.accumulate(symMul(poly{k: new(big.Rat).Set(c)}, q))
			}
			if len(next) > symMaxTerms*16 {
				return false
			}
		}
		for k, v := range next {
			if v.Sign() == 0 {
				delete(next, k)
			}
		}
		d = next
	}
	return false
}

// accumulate adds q into p in place (zero terms are left for the caller to sweep).
func (p poly) accumulate(q poly) {
	for k, v := range q {
		if o, ok := p[k]; ok {
			o.Add(o, v)
		} else {
			p[k] = new(big.Rat).Set(v)
		}
	}
}
