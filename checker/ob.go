package main

// Obligations, verdicts, evidence files, known findings, replay files.

import (
	"encoding/json"
	"fmt"
	"go/token"
	"os"
	"path/filepath"
	"sort"
	"strings"
	"time"
)

type Verdict string

const (
	Discharged Verdict = "discharged"
	Violated   Verdict = "violated"
	Undecided  Verdict = "undecided"
	Known      Verdict = "known-finding"
)

// Ob is one rule instance, keyed by (Prop, Rule, Construct).  Construct is a
// stable symbol path, never a line number.
type Ob struct {
	Prop      string  `json:"property"`
	Rule      string  `json:"rule"`
	Construct string  `json:"construct"`
	Pos       string  `json:"pos"`
	Verdict   Verdict `json:"verdict"`
	Detail    string  `json:"detail,omitempty"`
}

func (o *Ob) Key() string { return o.Prop + "|" + o.Rule + "|" + o.Construct }

// Ctx is the per-property checking context.
type Ctx struct {
	alias    map[string]string
	P        *Prog
	Prop     string
	Tier     string
	Thorough bool
	obs      []*Ob
	byKey    map[string]*Ob
	evals    int
	nontriv  map[string]bool
	rules    map[string]string // rule id -> one-line statement
	ruleIDs  []string
	exhaust  bool
	assume   []string
	notes    []string
	extra    map[string]interface{}
}

func newCtx(p *Prog, prop, tier string) *Ctx {
	return &Ctx{P: p, Prop: prop, Tier: tier, Thorough: tier == "thorough",
		byKey: map[string]*Ob{}, nontriv: map[string]bool{}, rules: map[string]string{}, extra: map[string]interface{}{}}
}

// Rule declares a rule (for the evidence explanation).
func (c *Ctx) Rule(id, statement string) {
	if _, aliased := c.alias[id]; aliased {
		return // the obligations go to the rule that stands for it here
	}
	if _, ok := c.rules[id]; !ok {
		c.ruleIDs = append(c.ruleIDs, id)
	}
	c.rules[id] = statement
}

// Alias files every obligation of rule `from` under rule `to` until cleared (to == "").
// It lets one property re-establish, under its own rule id, obligations that another
// property's analysis produces (a shared premise), without duplicating the analysis.
func (c *Ctx) Alias(from, to string) {
	if c.alias == nil {
		c.alias = map[string]string{}
	}
	if to == "" {
		delete(c.alias, from)
	} else {
		c.alias[from] = to
	}
}

func (c *Ctx) add(rule, construct string, pos token.Pos, v Verdict, detail string) *Ob {
	if to, ok := c.alias[rule]; ok {
		rule = to
	}
	o := &Ob{Prop: c.Prop, Rule: rule, Construct: construct, Pos: c.P.Position(pos), Verdict: v, Detail: detail}
	if prev, ok := c.byKey[o.Key()]; ok {
		// Same construct reported twice: keep the worst verdict, disambiguate never by line.
		if rank(v) > rank(prev.Verdict) {
			prev.Verdict, prev.Detail, prev.Pos = v, detail, o.Pos
		}
		return prev
	}
	c.byKey[o.Key()] = o
	c.obs = append(c.obs, o)
	c.nontriv[rule+"|"+construct] = true
	c.evals++
	return o
}

func rank(v Verdict) int {
	switch v {
	case Discharged:
		return 0
	case Undecided:
		return 1
	default:
		return 2
	}
}

func (c *Ctx) OK(rule, construct string, pos token.Pos, format string, a ...interface{}) {
	c.add(rule, construct, pos, Discharged, fmt.Sprintf(format, a...))
}
func (c *Ctx) Bad(rule, construct string, pos token.Pos, format string, a ...interface{}) {
	msg := fmt.Sprintf(format, a...)
	// A claim that quotes an unknown value is a claim about what the interpreter could not follow,
	// not about the code: it is filed as undecided.  (The one ⊤ that is a definite value — the
	// float zero, which is no input term — does not count.)
	if strings.Contains(strings.ReplaceAll(msg, "⊤(zero float (0 is not an input term))", ""), "⊤(") {
		c.add(rule, construct, pos, Undecided, msg+" — not decided: the value quoted is one the interpreter could not determine")
		return
	}
	c.add(rule, construct, pos, Violated, msg)
}
func (c *Ctx) Unk(rule, construct string, pos token.Pos, format string, a ...interface{}) {
	c.add(rule, construct, pos, Undecided, fmt.Sprintf(format, a...))
}

// Evals adds to the evaluation counter (enumerated orderings, unrollings, …).
func (c *Ctx) Evals(n int) { c.evals += n }

// Floor is the vacuity guard: rule must have produced at least n obligations.
func (c *Ctx) Floor(rule string, n int) {
	if to, ok := c.alias[rule]; ok {
		rule = to
	}
	got := 0
	for _, o := range c.obs {
		if o.Rule == rule {
			got++
		}
	}
	if got < n {
		c.Unk(rule, "vacuity-floor", token.NoPos, "rule matched %d instances, floor is %d: the rule no longer finds the constructs it was confirmed on", got, n)
	}
}

func (c *Ctx) Note(f string, a ...interface{}) { c.notes = append(c.notes, fmt.Sprintf(f, a...)) }

// ---------------------------------------------------------------- findings

type Finding struct {
	Property  string `json:"property"`
	Rule      string `json:"rule"`
	Construct string `json:"construct"`
	Status    string `json:"status"` // open | fixed
	Commit    string `json:"commit,omitempty"`
	What      string `json:"what"`
}

func loadFindings(verifDir string) ([]Finding, error) {
	b, err := os.ReadFile(filepath.Join(verifDir, "known_findings.json"))
	if err != nil {
		if os.IsNotExist(err) {
			return nil, nil
		}
		return nil, err
	}
	var f struct {
		Findings []Finding `json:"findings"`
	}
	if err := json.Unmarshal(b, &f); err != nil {
		return nil, err
	}
	return f.Findings, nil
}

// ---------------------------------------------------------------- finishing

type evidence struct {
	PropertyID  string                 `json:"property_id"`
	Tier        string                 `json:"tier"`
	Seed        int                    `json:"seed"`
	Level       string                 `json:"level"`
	Coverage    map[string]interface{} `json:"coverage"`
	Assumptions []string               `json:"assumptions"`
	WallS       float64                `json:"wall_s"`
	Violations  int                    `json:"violations"`
}

// finish applies known findings, writes evidence + replay files, prints the
// verdict lines and returns the exit code.
func (c *Ctx) finish(verifDir string, seed int, start time.Time, only string, writeEvidence bool) int {
	findings, ferr := loadFindings(verifDir)
	if ferr != nil {
		c.Unk("framework", "known_findings.json", token.NoPos, "cannot read: %v", ferr)
	}
	open := map[string]Finding{}
	for _, f := range findings {
		if f.Status == "open" {
			open[f.Property+"|"+f.Rule+"|"+f.Construct] = f
		}
	}
	sort.SliceStable(c.obs, func(i, j int) bool {
		if c.obs[i].Rule != c.obs[j].Rule {
			return c.obs[i].Rule < c.obs[j].Rule
		}
		return c.obs[i].Construct < c.obs[j].Construct
	})
	var viol, known, undec, disch int
	replayDir := filepath.Join(verifDir, "evidence", "replay")
	if writeEvidence {
		os.MkdirAll(replayDir, 0o755)
		old, _ := filepath.Glob(filepath.Join(replayDir, c.Prop+"-*.json"))
		for _, f := range old {
			os.Remove(f)
		}
	}
	exit := 0
	n := 0
	for _, o := range c.obs {
		if only != "" && o.Key() != only {
			continue
		}
		switch o.Verdict {
		case Discharged:
			disch++
			if os.Getenv("VERIF_LIST") != "" {
				fmt.Printf("  OK rule=%s construct=%s: %s\n", o.Rule, o.Construct, o.Detail)
			}
		case Violated, Undecided:
			if f, ok := open[o.Key()]; ok && o.Verdict == Violated {
				o.Verdict = Known
				known++
				fmt.Printf("KNOWN-FINDING: property=%s rule=%s construct=%s at %s: %s\n", c.Prop, o.Rule, o.Construct, o.Pos, f.What)
				continue
			}
			if o.Verdict == Violated {
				viol++
			} else {
				undec++
			}
			n++
			rp := filepath.Join(replayDir, fmt.Sprintf("%s-%d.json", c.Prop, n))
			if writeEvidence {
				b, _ := json.MarshalIndent(o, "", " ")
				os.WriteFile(rp, append(b, '\n'), 0o644)
			}
			fmt.Printf("VIOLATION property=%s replay=%s\n", c.Prop, rp)
			fmt.Printf("  %s rule=%s construct=%s at %s: %s\n", strings.ToUpper(string(o.Verdict)), o.Rule, o.Construct, o.Pos, o.Detail)
			exit = 1
		}
	}
	if only != "" {
		if _, ok := c.byKey[only]; !ok {
			fmt.Printf("VIOLATION property=%s replay=-\n  UNDECIDED obligation %q no longer exists on this tree\n", c.Prop, only)
			return 1
		}
		return exit
	}
	// evidence
	var expl []string
	for _, id := range c.ruleIDs {
		expl = append(expl, id+": "+c.rules[id])
	}
	var samples []interface{}
	perRule := map[string]int{}
	for _, o := range c.obs {
		if perRule[o.Rule] < 3 {
			perRule[o.Rule]++
			samples = append(samples, o)
		}
	}
	ruleCounts := map[string]int{}
	for _, o := range c.obs {
		ruleCounts[o.Rule]++
	}
	cov := map[string]interface{}{
		"explanation":         "Static analysis of /repo's current source: structural rules over the AST, types, SSA and call graph, and model evaluation — the checker's abstract interpreter runs the repository's source (never the compiled program) on bounded abstract inputs with the library boundary modelled, and compares the resulting values with the specification. Necessary conditions of the property, exact on the clause and the bounded inputs each rule covers. Rules applied — " + strings.Join(expl, " | "),
		"obligations":         len(c.obs),
		"discharged":          disch,
		"known_findings":      known,
		"undecided":           undec,
		"evaluations":         c.evals,
		"distinct_nontrivial": len(c.nontriv),
		"rule":                "one obligation per (rule, construct) found by resolving API anchors and walking the type-checked program; an obligation is non-trivial when the rule found a concrete construct to decide (vacuity floors enforce a minimum per rule); evaluations additionally count interpreter runs (enumerated orderings, oracle answer combinations, model inputs)",
		"samples":             samples,
		"exhaustive":          c.exhaust,
		"obligations_by_rule": ruleCounts,
		"packages_analysed":   len(c.P.Repo),
		"functions_analysed":  c.P.nFuncs,
		"excluded_packages":   excludedPkgs,
		"notes":               c.notes,
		"checker_cmd":         fmt.Sprintf("bin/geomcheck check -prop %s -tier %s", c.Prop, c.Tier),
		"trusted_base":        []string{"go/types, go/ssa (x/tools v0.29.0)", "the checker's interpreter of Go source (checker/orderdom.go, orderslice.go, ordersym.go) and its models of the standard library and of the dependencies", "the specifications written in checker/" + strings.ToLower(c.Prop) + "*.go"},
	}
	for k, v := range c.extra {
		cov[k] = v
	}
	ev := evidence{PropertyID: c.Prop, Tier: c.Tier, Seed: seed, Level: "other", Coverage: cov,
		Assumptions: c.assume, WallS: time.Since(start).Seconds(), Violations: viol + undec}
	if ev.Assumptions == nil {
		ev.Assumptions = []string{}
	}
	if writeEvidence {
		b, _ := json.MarshalIndent(ev, "", " ")
		os.MkdirAll(filepath.Join(verifDir, "evidence"), 0o755)
		if err := os.WriteFile(filepath.Join(verifDir, "evidence", c.Prop+".json"), append(b, '\n'), 0o644); err != nil {
			fmt.Printf("VIOLATION property=%s replay=-\n  cannot write evidence: %v\n", c.Prop, err)
			return 1
		}
	}
	fmt.Printf("%s %s: %d obligations, %d discharged, %d known findings, %d violated, %d undecided (%d evaluations) in %.1fs\n",
		c.Prop, c.Tier, len(c.obs), disch, known, viol, undec, c.evals, time.Since(start).Seconds())
	return exit
}
