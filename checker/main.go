// geomcheck: repository-specific static checker for ctessum/geom.
//
//	geomcheck check -prop C07 -tier quick|thorough
//	geomcheck replay <path>
//	geomcheck list
package main

import (
	"encoding/json"
	"flag"
	"fmt"
	"go/token"
	"os"
	"path/filepath"
	"runtime/debug"
	"sort"
	"strconv"
	"time"
)

type propCheck struct {
	id      string
	needSSA bool
	run     func(c *Ctx)
}

var registry = map[string]*propCheck{}

func register(id string, needSSA bool, run func(c *Ctx)) {
	registry[id] = &propCheck{id: id, needSSA: needSSA, run: run}
}

func verifDir() string {
	if d := os.Getenv("VERIF_DIR"); d != "" {
		return d
	}
	exe, err := os.Executable()
	if err == nil {
		return filepath.Dir(filepath.Dir(exe))
	}
	return "/verif"
}

func repoRoot() string {
	if d := os.Getenv("GEOM_REPO"); d != "" {
		return d
	}
	return "/repo"
}

func runProp(id, tier, only string, writeEvidence bool) int {
	start := time.Now()
	pc := registry[id]
	if pc == nil {
		fmt.Printf("VIOLATION property=%s replay=-\n  no check registered for this property\n", id)
		return 1
	}
	seed := 0
	if s := os.Getenv("VERIF_SEED"); s != "" {
		seed, _ = strconv.Atoi(s)
	}
	p, err := Load(repoRoot(), "", true)
	if err != nil {
		fmt.Printf("VIOLATION property=%s replay=-\n  UNDECIDED load failure: %v\n", id, err)
		return 1
	}
	c := newCtx(p, id, tier)
	for path, why := range excludedPkgs {
		c.Note("excluded %s: %s", path, why)
	}
	func() {
		defer func() {
			if r := recover(); r != nil {
				c.Unk("framework", "analyser-panic", token.NoPos, "%v\n%s", r, debug.Stack())
			}
		}()
		pc.run(c)
	}()
	if tier == "thorough" {
		thoroughExtra(c, pc)
	}
	return c.finish(verifDir(), seed, start, only, writeEvidence)
}

func main() {
	if len(os.Args) < 2 {
		fmt.Fprintln(os.Stderr, "usage: geomcheck check|replay|list ...")
		os.Exit(2)
	}
	switch os.Args[1] {
	case "list":
		var ids []string
		for id := range registry {
			ids = append(ids, id)
		}
		sort.Strings(ids)
		for _, id := range ids {
			fmt.Println(id)
		}
	case "check":
		fs := flag.NewFlagSet("check", flag.ExitOnError)
		prop := fs.String("prop", "", "property id")
		tier := fs.String("tier", "quick", "quick|thorough")
		noev := fs.Bool("no-evidence", false, "do not write evidence (used for scratch variants)")
		fs.Parse(os.Args[2:])
		if t := os.Getenv("VERIF_TIER"); t == "quick" || t == "thorough" {
			*tier = t
		}
		os.Exit(runProp(*prop, *tier, "", !*noev))
	case "replay":
		if len(os.Args) < 3 {
			fmt.Fprintln(os.Stderr, "usage: geomcheck replay <path>")
			os.Exit(2)
		}
		b, err := os.ReadFile(os.Args[2])
		if err != nil {
			fmt.Fprintln(os.Stderr, err)
			os.Exit(2)
		}
		var o Ob
		if err := json.Unmarshal(b, &o); err != nil {
			fmt.Fprintln(os.Stderr, err)
			os.Exit(2)
		}
		os.Exit(runProp(o.Prop, "quick", o.Key(), false))
	default:
		fmt.Fprintln(os.Stderr, "unknown command", os.Args[1])
		os.Exit(2)
	}
}

// thoroughExtra re-runs the property's rules on a second load of the program
// with GOARCH=386 (32-bit int changes uint32→int conversions, make sizes and
// constant folding) and merges every obligation whose verdict differs from the
// default-architecture run.
func thoroughExtra(c *Ctx, pc *propCheck) {
	p2, err := Load(repoRoot(), "386", true)
	if err != nil {
		c.Unk("framework", "load[GOARCH=386]", token.NoPos, "%v", err)
		return
	}
	c2 := newCtx(p2, c.Prop, c.Tier)
	func() {
		defer func() {
			if r := recover(); r != nil {
				c2.Unk("framework", "analyser-panic[386]", token.NoPos, "%v", r)
			}
		}()
		pc.run(c2)
	}()
	differ := 0
	for _, o := range c2.obs {
		prev, ok := c.byKey[o.Key()]
		if ok && prev.Verdict == o.Verdict {
			continue
		}
		differ++
		o2 := *o
		o2.Construct += "[GOARCH=386]"
		c.obs = append(c.obs, &o2)
		c.byKey[o2.Key()] = &o2
	}
	c.evals += c2.evals
	c.Note("thorough: second load with GOARCH=386 (%d packages, %d functions): %d obligations re-evaluated, %d differ from the default architecture", len(p2.Repo), p2.nFuncs, len(c2.obs), differ)
	c.extra["goarch_386_obligations"] = len(c2.obs)
}
