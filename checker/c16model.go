package main

// Model evaluation of the shapefile package at the go-shp API boundary (C16).
//
// The package's own source — NewEncoder, Encode, EncodeFields, geom2Shp, NewDecoder, DecodeRow,
// DecodeRowFields, shp2Geom and everything they call — is interpreted on small abstract inputs.
// What lies outside the repository is modelled by the driver:
//
//   - go-shp: Create / SetFields / Write / WriteAttribute record what the package hands over; a
//     shape written is read back as the shape type of the *file* (go-shp stamps every record with
//     the file's geometry type), with the part and point counts the shape declares; an attribute
//     written at (row, column) is read back at (row, column) as its text followed by NUL padding.
//   - reflect: types and values are described by go/types objects (struct fields, tags, kinds,
//     assignability), so any record struct can be presented to the package.
//   - strings / bytes / strconv text helpers are evaluated on the concrete byte strings.
//
// Coordinates and float attributes stay abstract ranks; only their identity and order matter.
// The values that come back are compared with the specification (same geometries part by part,
// rings closed, boxes as five-vertex rectangles, attributes equal, rows in order), not with any
// expected source shape.

import (
	"bytes"
	"fmt"
	"go/token"
	"go/types"
	"reflect"
	"regexp"
	"strconv"
	"strings"
)

type shpFieldDesc struct {
	kind       byte // 'N', 'F', 'C'
	name       string
	size, prec int64
	val        oval
}

type shpFile struct {
	geomType int64
	fields   []shpFieldDesc
	hasDBF   bool
	shapes   []oval
	attrs    map[[2]int]oval
}

type rval struct {
	t      types.Type
	get    func() oval
	set    func(oval)
	canSet bool
}

type shpModel struct {
	c     *Ctx
	m     *clipModel
	it    *oInterp
	p     *pkgT
	shp   *types.Package
	mpT   types.Type
	geomI types.Type
	files map[string]*shpFile
	wr    *shpFile
	rd    *shpFile
	rdPos int
	// problems found by the modelled library, by rule
	problems map[string][]string
	taint    string // set when a call of the scenario in progress could not be interpreted
	nextVal  int
	errV     oval
}

var shpTypeOfConst = map[int64]string{0: "Null", 1: "Point", 3: "PolyLine", 5: "Polygon", 8: "MultiPoint"}

func (s *shpModel) problem(rule, format string, a ...interface{}) {
	msg := fmt.Sprintf(format, a...)
	if rule == "?" && s.taint == "" {
		s.taint = msg
	}
	for _, m := range s.problems[rule] {
		if m == msg {
			return
		}
	}
	s.problems[rule] = append(s.problems[rule], msg)
}

func newShpModel(c *Ctx, p *pkgT) *shpModel {
	s := &shpModel{c: c, p: p, m: newClipModel(c), files: map[string]*shpFile{}, problems: map[string][]string{}}
	s.it = s.m.it
	s.it.maxDepth = 48
	if dep := c.P.Dep(goshpPath); dep != nil {
		s.shp = dep.Types
	}
	if t := c.P.NamedType("geom", "MultiPoint"); t != nil {
		s.mpT = t
	}
	if t := c.P.NamedType("geom", "Geom"); t != nil {
		s.geomI = t
	}
	s.errV = oIface{opaque: &oOpaque{name: "error", isError: true}}
	s.it.stub = s.stub
	return s
}

func (s *shpModel) shpType(name string) types.Type {
	if s.shp == nil {
		return nil
	}
	if o := s.shp.Scope().Lookup(name); o != nil {
		return o.Type()
	}
	return nil
}

// ---------------------------------------------------------------- reflect

func reflectKind(t types.Type) reflect.Kind {
	switch u := t.Underlying().(type) {
	case *types.Basic:
		switch u.Kind() {
		case types.Int:
			return reflect.Int
		case types.Int64:
			return reflect.Int64
		case types.Int32:
			return reflect.Int32
		case types.Float64:
			return reflect.Float64
		case types.Float32:
			return reflect.Float32
		case types.String:
			return reflect.String
		case types.Bool:
			return reflect.Bool
		case types.Uint8:
			return reflect.Uint8
		}
	case *types.Struct:
		return reflect.Struct
	case *types.Slice:
		return reflect.Slice
	case *types.Pointer:
		return reflect.Ptr
	case *types.Interface:
		return reflect.Interface
	case *types.Map:
		return reflect.Map
	case *types.Array:
		return reflect.Array
	case *types.Signature:
		return reflect.Func
	}
	return reflect.Invalid
}

func (s *shpModel) rtype(t types.Type) oval {
	if t == nil {
		return oIface{}
	}
	return oIface{dyn: oHost{kind: "rtype", key: types.TypeString(t, nil), v: t}}
}

func hostType(v oval) (types.Type, bool) {
	if iv, ok := v.(oIface); ok {
		v = iv.dyn
	}
	h, ok := v.(oHost)
	if !ok || h.kind != "rtype" {
		return nil, false
	}
	t, ok := h.v.(types.Type)
	return t, ok
}

func hostValue(v oval) (*rval, bool) {
	if iv, ok := v.(oIface); ok {
		v = iv.dyn
	}
	h, ok := v.(oHost)
	if !ok || h.kind != "rvalue" {
		return nil, false
	}
	r, ok := h.v.(*rval)
	return r, ok
}

func (s *shpModel) rvalue(r *rval) oval {
	s.nextVal++
	return oHost{kind: "rvalue", key: fmt.Sprint(s.nextVal), v: r}
}

// dynTypeOf: the dynamic type of a value held in an interface.
func dynTypeOf(v oval, static types.Type) types.Type {
	switch x := v.(type) {
	case oIface:
		if x.dyn == nil {
			return nil
		}
		st := x.styp
		if st != nil {
			if _, isI := st.Underlying().(*types.Interface); isI {
				st = nil
			}
		}
		return dynTypeOf(x.dyn, st)
	case *oStruct:
		if x != nil {
			return x.typ
		}
	case oPtr:
		if x.s != nil {
			return types.NewPointer(x.s.typ)
		}
		return static
	case oSlice:
		if x.typ != nil {
			return x.typ
		}
		return static
	case oMap:
		return x.typ
	case oInt:
		if static == nil {
			return types.Typ[types.Int]
		}
		return static
	case oFloat, oTokF:
		if static == nil {
			return types.Typ[types.Float64]
		}
		return static
	case oBool:
		if static == nil {
			return types.Typ[types.Bool]
		}
		return static
	}
	return static
}

func (s *shpModel) reflectStub(name string, f *types.Func, recv oval, args []oval) ([]oval, bool) {
	sig := f.Type().(*types.Signature)
	top := func(why string) ([]oval, bool) {
		out := make([]oval, sig.Results().Len())
		for i := range out {
			out[i] = oTop{why}
		}
		if len(out) == 0 {
			s.problem("?", "%s", why)
		}
		return out, true
	}
	switch name {
	case "reflect.TypeOf":
		t := dynTypeOf(args[0], nil)
		if t == nil {
			return []oval{oIface{}}, true
		}
		return []oval{s.rtype(t)}, true
	case "reflect.ValueOf":
		t := dynTypeOf(args[0], nil)
		var v oval = args[0]
		if iv, ok := v.(oIface); ok {
			v = iv.dyn
		}
		if t == nil {
			return top("reflect.ValueOf(nil)")
		}
		vv := v
		return []oval{s.rvalue(&rval{t: t, get: func() oval { return vv }})}, true
	case "reflect.Indirect", "(reflect.Value).Elem":
		var r *rval
		var ok bool
		if name == "reflect.Indirect" {
			r, ok = hostValue(args[0])
		} else {
			r, ok = hostValue(recv)
		}
		if !ok {
			return top("reflect.Indirect of a non-value")
		}
		pt, isPtr := r.t.Underlying().(*types.Pointer)
		if !isPtr {
			if name != "reflect.Indirect" {
				return top("panic: reflect: Elem of a non-pointer Value")
			}
			return []oval{s.rvalue(r)}, true
		}
		p, isP := r.get().(oPtr)
		if !isP || p.s == nil {
			s.problem("C20.R5", "reflect: a nil pointer field is followed (Elem/Indirect of nil, then a field access) — the real call panics")
			return top("panic: reflect: call on zero Value")
		}
		return []oval{s.rvalue(&rval{t: pt.Elem(), get: func() oval { return p.s }, canSet: true})}, true
	}
	if strings.HasPrefix(name, "(reflect.Type).") {
		t, ok := hostType(recv)
		if !ok {
			return top("reflect.Type method on an unknown type")
		}
		switch strings.TrimPrefix(name, "(reflect.Type).") {
		case "Kind":
			return []oval{oInt(reflectKind(t))}, true
		case "Name":
			n := ""
			if nt, ok := t.(*types.Named); ok {
				n = nt.Obj().Name()
			} else if b, ok := t.(*types.Basic); ok {
				n = b.Name()
			}
			return []oval{strVal(types.Typ[types.String], n)}, true
		case "String":
			return []oval{strVal(types.Typ[types.String], types.TypeString(t, func(p *types.Package) string { return p.Name() }))}, true
		case "Elem":
			switch u := t.Underlying().(type) {
			case *types.Pointer:
				return []oval{s.rtype(u.Elem())}, true
			case *types.Slice:
				return []oval{s.rtype(u.Elem())}, true
			case *types.Array:
				return []oval{s.rtype(u.Elem())}, true
			}
			return top("panic: reflect: Elem of " + t.String())
		case "NumField":
			st, ok := t.Underlying().(*types.Struct)
			if !ok {
				return top("panic: reflect: NumField of non-struct type " + t.String())
			}
			return []oval{oInt(st.NumFields())}, true
		case "Field":
			st, ok := t.Underlying().(*types.Struct)
			i, oki := args[0].(oInt)
			if !ok || !oki || int(i) < 0 || int(i) >= st.NumFields() {
				return top("panic: reflect: Field index out of range")
			}
			sf, _ := s.it.zero(sig.Results().At(0).Type()).(*oStruct)
			if sf == nil {
				return top("reflect.StructField")
			}
			fv := st.Field(int(i))
			tag := reflect.StructTag(st.Tag(int(i)))
			sf.fields["Name"] = strVal(types.Typ[types.String], fv.Name())
			if u, ok := sig.Results().At(0).Type().Underlying().(*types.Struct); ok {
				for k := 0; k < u.NumFields(); k++ {
					if u.Field(k).Name() == "Tag" {
						sf.fields["Tag"] = strVal(u.Field(k).Type(), string(tag))
					}
				}
			}
			sf.fields["Type"] = s.rtype(fv.Type())
			sf.fields["Anonymous"] = oBool(fv.Embedded())
			return []oval{sf}, true
		case "Implements":
			u, ok := hostType(args[0])
			if !ok {
				return top("Implements of an unknown type " + showVal(args[0]))
			}
			it, ok := u.Underlying().(*types.Interface)
			if !ok {
				return top("panic: reflect: non-interface type passed to Type.Implements")
			}
			return []oval{oBool(types.Implements(t, it))}, true
		case "AssignableTo":
			u, ok := hostType(args[0])
			if !ok {
				return top("AssignableTo an unknown type")
			}
			return []oval{oBool(types.AssignableTo(t, u))}, true
		}
		return top("reflect.Type method " + name + " is not modelled")
	}
	if name == "(reflect.StructTag).Get" || name == "(reflect.StructTag).Lookup" {
		tg, ok1 := strOf(recv)
		key, ok2 := strOf(args[0])
		if !ok1 || !ok2 {
			return top("struct tag")
		}
		val, found := reflect.StructTag(tg).Lookup(key)
		if name == "(reflect.StructTag).Get" {
			return []oval{strVal(types.Typ[types.String], val)}, true
		}
		return []oval{strVal(types.Typ[types.String], val), oBool(found)}, true
	}
	if strings.HasPrefix(name, "(reflect.Value).") {
		r, ok := hostValue(recv)
		if !ok {
			return top("reflect.Value method on an unknown value")
		}
		meth := strings.TrimPrefix(name, "(reflect.Value).")
		setScalar := func(want ...reflect.Kind) ([]oval, bool) {
			k := reflectKind(r.t)
			fits := false
			for _, w := range want {
				fits = fits || w == k
			}
			if !fits {
				s.problem("C16.R4", "reflect: %s is called on a struct field of kind %v — the real call panics", meth, k)
				return nil, true
			}
			if !r.canSet || r.set == nil {
				s.problem("C16.R4", "reflect: %s on a value that cannot be set — the real call panics", meth)
				return nil, true
			}
			r.set(args[0])
			return nil, true
		}
		switch meth {
		case "Type":
			return []oval{s.rtype(r.t)}, true
		case "Kind":
			return []oval{oInt(reflectKind(r.t))}, true
		case "NumField":
			st, ok := r.t.Underlying().(*types.Struct)
			if !ok {
				return top("panic: reflect: NumField of non-struct " + r.t.String())
			}
			return []oval{oInt(st.NumFields())}, true
		case "Field":
			st, ok := r.t.Underlying().(*types.Struct)
			i, oki := args[0].(oInt)
			if !ok || !oki || int(i) < 0 || int(i) >= st.NumFields() {
				return top("panic: reflect: Field index out of range")
			}
			sv, isS := r.get().(*oStruct)
			if !isS || sv == nil {
				return top("reflect.Value.Field of " + showVal(r.get()))
			}
			fn := st.Field(int(i)).Name()
			return []oval{s.rvalue(&rval{t: st.Field(int(i)).Type(), canSet: r.canSet,
				get: func() oval { return sv.fields[fn] },
				set: func(v oval) { sv.fields[fn] = v }})}, true
		case "Interface":
			v := r.get()
			if iv, ok := v.(oIface); ok {
				return []oval{iv}, true
			}
			return []oval{oIface{dyn: v, styp: r.t}}, true
		case "IsNil":
			switch x := r.get().(type) {
			case oIface:
				return []oval{oBool(x.dyn == nil && x.opaque == nil)}, true
			case oPtr:
				return []oval{oBool(x.s == nil)}, true
			case oSlice:
				return []oval{oBool(x.isNil())}, true
			case oNil:
				return []oval{oBool(true)}, true
			}
			return top("IsNil of " + showVal(r.get()))
		case "IsValid":
			return []oval{oBool(true)}, true
		case "CanSet":
			return []oval{oBool(r.canSet)}, true
		case "Set":
			x, ok := hostValue(args[0])
			if !ok {
				return top("reflect.Value.Set of an unknown value")
			}
			if !r.canSet || r.set == nil {
				s.problem("C16.R1", "reflect: Set on a value that cannot be set — the real call panics")
				return nil, true
			}
			if !types.AssignableTo(x.t, r.t) {
				s.problem("C16.R1", "reflect: a value of type %s is stored into a struct field of type %s — the real call panics", types.TypeString(x.t, nil), types.TypeString(r.t, nil))
				return nil, true
			}
			v := x.get()
			if _, isI := r.t.Underlying().(*types.Interface); isI {
				if _, already := v.(oIface); !already {
					v = oIface{dyn: v, styp: x.t}
				}
			}
			r.set(v)
			return nil, true
		case "SetFloat":
			return setScalar(reflect.Float64, reflect.Float32)
		case "SetInt":
			return setScalar(reflect.Int, reflect.Int64, reflect.Int32)
		case "SetString":
			return setScalar(reflect.String)
		case "Float", "Int", "String", "Bool", "Uint":
			return []oval{r.get()}, true
		case "Len":
			switch x := r.get().(type) {
			case oSlice:
				return []oval{oInt(x.length())}, true
			case oMap:
				if x.keys == nil {
					return []oval{oInt(0)}, true
				}
				return []oval{oInt(len(*x.keys))}, true
			case oNil:
				return []oval{oInt(0)}, true
			}
			return top("panic: reflect: Len of " + showVal(r.get()))
		case "Index":
			sl, ok := r.get().(oSlice)
			i, oki := args[0].(oInt)
			if !ok || !oki {
				return top("reflect.Value.Index of " + showVal(r.get()))
			}
			if int(i) < 0 || int(i) >= sl.length() {
				s.problem("C20.R5", "reflect: Index(%d) on a slice of length %d — the real call panics", int(i), sl.length())
				return top("panic: reflect: slice index out of range")
			}
			var et types.Type
			switch u := r.t.Underlying().(type) {
			case *types.Slice:
				et = u.Elem()
			case *types.Array:
				et = u.Elem()
			}
			idx := int(i)
			return []oval{s.rvalue(&rval{t: et, canSet: true, get: func() oval { return sl.at(idx) }, set: func(v oval) { sl.set(idx, v) }})}, true
		}
		return top("reflect.Value method " + name + " is not modelled")
	}
	return top(name + " is not modelled")
}

// ---------------------------------------------------------------- text helpers

var hostPureFuncs = map[string]interface{}{
	"strings.ToLower": strings.ToLower, "strings.ToUpper": strings.ToUpper, "strings.Trim": strings.Trim,
	"strings.TrimSpace": strings.TrimSpace, "strings.TrimSuffix": strings.TrimSuffix, "strings.TrimPrefix": strings.TrimPrefix,
	"strings.TrimRight": strings.TrimRight, "strings.TrimLeft": strings.TrimLeft, "strings.HasPrefix": strings.HasPrefix,
	"strings.HasSuffix": strings.HasSuffix, "strings.EqualFold": strings.EqualFold, "strings.Index": strings.Index,
	"strings.IndexByte": strings.IndexByte, "strings.Contains": strings.Contains, "strings.Repeat": strings.Repeat,
	"strings.Title": strings.Title, "strings.Compare": strings.Compare, "strings.LastIndex": strings.LastIndex,
	"strings.Split": strings.Split, "strings.SplitN": strings.SplitN, "strings.Fields": strings.Fields, "strings.Replace": strings.Replace,
	"strings.ReplaceAll": strings.ReplaceAll, "strings.Join": strings.Join, "strings.Count": strings.Count, "strings.IndexAny": strings.IndexAny,
	"strings.ContainsAny": strings.ContainsAny, "strings.LastIndexByte": strings.LastIndexByte, "strings.SplitAfter": strings.SplitAfter,
	"bytes.Trim": bytes.Trim, "bytes.Index": bytes.Index, "bytes.IndexByte": bytes.IndexByte,
	"bytes.TrimSpace": bytes.TrimSpace, "bytes.TrimRight": bytes.TrimRight, "bytes.TrimLeft": bytes.TrimLeft,
	"bytes.Equal": bytes.Equal, "bytes.ToLower": bytes.ToLower, "bytes.HasPrefix": bytes.HasPrefix, "bytes.HasSuffix": bytes.HasSuffix,
	"strconv.Itoa": strconv.Itoa, "strconv.Atoi": strconv.Atoi, "strconv.ParseInt": strconv.ParseInt, "strconv.FormatInt": strconv.FormatInt,
	"path/filepath.Ext": func(s string) string {
		if i := strings.LastIndex(s, "."); i >= 0 && !strings.Contains(s[i:], "/") {
			return s[i:]
		}
		return ""
	},
}

// hostPure evaluates a text function of the standard library on concrete strings and integers.
func (s *shpModel) hostPure(f *types.Func, args []oval) ([]oval, bool) {
	fn, ok := hostPureFuncs[f.FullName()]
	if !ok {
		return nil, false
	}
	sig := f.Type().(*types.Signature)
	top := func(why string) ([]oval, bool) {
		out := make([]oval, sig.Results().Len())
		for i := range out {
			out[i] = oTop{why}
		}
		return out, true
	}
	rv := reflect.ValueOf(fn)
	rt := rv.Type()
	if rt.IsVariadic() || rt.NumIn() != len(args) {
		return top(f.FullName() + ": arity")
	}
	in := make([]reflect.Value, len(args))
	for i, a := range args {
		switch rt.In(i).Kind() {
		case reflect.String:
			str, ok := strOf(a)
			if !ok {
				return top(f.FullName() + " of a non-concrete string " + showVal(a))
			}
			in[i] = reflect.ValueOf(str)
		case reflect.Slice:
			if rt.In(i).Elem().Kind() == reflect.String {
				var strs []string
				if sl, ok := a.(oSlice); ok {
					for k := 0; k < sl.length(); k++ {
						e, ok := strOf(sl.at(k))
						if !ok {
							return top(f.FullName() + " of a non-concrete string list")
						}
						strs = append(strs, e)
					}
				} else if _, isNil := a.(oNil); !isNil {
					return top(f.FullName() + " of " + showVal(a))
				}
				in[i] = reflect.ValueOf(strs)
				break
			}
			if _, isNil := a.(oNil); isNil {
				in[i] = reflect.ValueOf([]byte(nil))
				break
			}
			str, ok := strOf(a)
			if !ok {
				return top(f.FullName() + " of non-concrete bytes " + showVal(a))
			}
			in[i] = reflect.ValueOf([]byte(str))
		case reflect.Bool:
			b, ok := a.(oBool)
			if !ok {
				return top(f.FullName() + ": bool argument")
			}
			in[i] = reflect.ValueOf(bool(b))
		default:
			n, ok := a.(oInt)
			if !ok {
				return top(f.FullName() + ": integer argument " + showVal(a))
			}
			in[i] = reflect.ValueOf(int64(n)).Convert(rt.In(i))
		}
	}
	outs := rv.Call(in)
	res := make([]oval, len(outs))
	for i, o := range outs {
		var rtT types.Type = types.Typ[types.String]
		if i < sig.Results().Len() {
			rtT = sig.Results().At(i).Type()
		}
		switch o.Kind() {
		case reflect.String:
			res[i] = strVal(rtT, o.String())
		case reflect.Slice:
			if o.Type().Elem().Kind() == reflect.String {
				var et types.Type = types.Typ[types.String]
				if st, ok := rtT.Underlying().(*types.Slice); ok {
					et = st.Elem()
				}
				vals := make([]oval, o.Len())
				for k := range vals {
					vals[k] = strVal(et, o.Index(k).String())
				}
				res[i] = oSlice{typ: rtT, arr: &vals, lo: 0, hi: len(vals), capEnd: len(vals)}
				break
			}
			res[i] = strVal(rtT, string(o.Bytes()))
		case reflect.Bool:
			res[i] = oBool(o.Bool())
		case reflect.Interface:
			if o.IsNil() {
				res[i] = oIface{}
			} else {
				res[i] = s.errV
			}
		default:
			res[i] = oInt(o.Int())
		}
	}
	return res, true
}

var floatTokRe = regexp.MustCompile(`^~f(-?\d+)~$`)

// ---------------------------------------------------------------- go-shp

func deepCopy(v oval) oval {
	switch x := v.(type) {
	case *oStruct:
		if x == nil {
			return x
		}
		c := &oStruct{typ: x.typ, fields: map[string]oval{}, order: x.order}
		for k, f := range x.fields {
			c.fields[k] = deepCopy(f)
		}
		return c
	case oPtr:
		if x.s == nil {
			return x
		}
		return oPtr{deepCopy(x.s).(*oStruct)}
	case oSlice:
		if x.arr == nil {
			return x
		}
		arr := make([]oval, x.length())
		for i := range arr {
			arr[i] = deepCopy(x.at(i))
		}
		return oSlice{typ: x.typ, arr: &arr, lo: 0, hi: len(arr), capEnd: len(arr)}
	case oIface:
		if x.dyn != nil {
			x.dyn = deepCopy(x.dyn)
		}
		return x
	}
	return v
}

func (s *shpModel) fieldValue(kind byte, name string, size, prec int64) oval {
	ft := s.shpType("Field")
	fv, _ := s.it.zero(ft).(*oStruct)
	if fv == nil {
		return oTop{"shp.Field"}
	}
	if arr, ok := fv.fields["Name"].(oSlice); ok {
		for i := 0; i < len(name) && i < arr.length(); i++ {
			arr.set(i, oInt(name[i]))
		}
	}
	fv.fields["Fieldtype"] = oInt(kind)
	fv.fields["Size"] = oInt(size)
	fv.fields["Precision"] = oInt(prec)
	return fv
}

func (s *shpModel) describeField(v oval) (shpFieldDesc, bool) {
	fv, ok := v.(*oStruct)
	if !ok || fv == nil {
		return shpFieldDesc{}, false
	}
	d := shpFieldDesc{val: fv}
	if arr, ok := fv.fields["Name"].(oSlice); ok {
		var b []byte
		for i := 0; i < arr.length(); i++ {
			e, ok := arr.at(i).(oInt)
			if !ok {
				return d, false
			}
			b = append(b, byte(e))
		}
		d.name = string(b)
	}
	k, ok1 := fv.fields["Fieldtype"].(oInt)
	sz, ok2 := fv.fields["Size"].(oInt)
	pr, ok3 := fv.fields["Precision"].(oInt)
	if !ok1 || !ok2 || !ok3 {
		return d, false
	}
	d.kind, d.size, d.prec = byte(k), int64(sz), int64(pr)
	return d, true
}

func shapeStruct(v oval) *oStruct {
	if iv, ok := v.(oIface); ok {
		v = iv.dyn
	}
	if p, ok := v.(oPtr); ok {
		return p.s
	}
	return nil
}

func shpTypeName(t types.Type) string {
	if n, ok := t.(*types.Named); ok {
		return n.Obj().Name()
	}
	return t.String()
}

// readBack: the shape a reader finds where `written` was written into a file of type geomType.
func (s *shpModel) readBack(written oval, geomType int64) oval {
	st := shapeStruct(written)
	if st == nil {
		if isTop(written) {
			s.problem("?", "the shape handed to the shapefile writer is %s", showVal(written))
			return written
		}
		s.problem("C16.R1", "a %s is handed to the shapefile writer", showVal(written))
		return oIface{}
	}
	wn := shpTypeName(st.typ)
	fn, known := shpTypeOfConst[geomType]
	if !known {
		s.problem("C16.R1", "the file is created with shape type %d, which carries Z or M values the package does not fill in", geomType)
		return oIface{}
	}
	same := wn == fn || (wn == "PolyLine" && fn == "Polygon") || (wn == "Polygon" && fn == "PolyLine")
	if !same {
		s.problem("C16.R1", "a *shp.%s is written into a shapefile created with shape type %s: the reader decodes every record as *shp.%s and finds other bytes", wn, strings.ToUpper(fn), fn)
		return oIface{}
	}
	cp := deepCopy(st).(*oStruct)
	cp.typ = s.shpType(fn)
	count := func(field, slice string) {
		n, ok1 := cp.fields[field].(oInt)
		sl, ok2 := cp.fields[slice].(oSlice)
		if ok1 && ok2 && int(n) != sl.length() {
			s.problem("C16.R2", "a *shp.%s is written with %s = %d but %d %s: the reader, which trusts the count, gets other records' bytes", wn, field, int(n), sl.length(), strings.ToLower(slice))
		}
	}
	switch fn {
	case "PolyLine", "Polygon":
		count("NumParts", "Parts")
		count("NumPoints", "Points")
	case "MultiPoint":
		count("NumPoints", "Points")
	}
	return oIface{dyn: oPtr{cp}}
}

func (s *shpModel) boxOfPoints(pts []oval) oval {
	bx, _ := s.it.zero(s.shpType("Box")).(*oStruct)
	if bx == nil {
		return oTop{"shp.Box"}
	}
	first := true
	var minx, miny, maxx, maxy int64
	for _, p := range pts {
		ps, ok := p.(*oStruct)
		if !ok {
			continue
		}
		x, okx := ps.fields["X"].(oFloat)
		y, oky := ps.fields["Y"].(oFloat)
		if !okx || !oky {
			continue
		}
		if first {
			minx, maxx, miny, maxy, first = x.r, x.r, y.r, y.r, false
			continue
		}
		if x.r < minx {
			minx = x.r
		}
		if x.r > maxx {
			maxx = x.r
		}
		if y.r < miny {
			miny = y.r
		}
		if y.r > maxy {
			maxy = y.r
		}
	}
	if !first {
		bx.fields["MinX"], bx.fields["MinY"], bx.fields["MaxX"], bx.fields["MaxY"] = oFloat{minx}, oFloat{miny}, oFloat{maxx}, oFloat{maxy}
	}
	return bx
}

func shpBaseName(name string) string { return strings.TrimSuffix(name, ".shp") }

func (s *shpModel) stub(f *types.Func, recv oval, args []oval) ([]oval, bool) {
	if s.it.p.Decl(f) != nil || f.Pkg() == nil {
		return nil, false
	}
	name := f.FullName()
	sig := f.Type().(*types.Signature)
	top := func(why string) ([]oval, bool) {
		out := make([]oval, sig.Results().Len())
		for i := range out {
			out[i] = oTop{why}
		}
		return out, true
	}
	switch f.Pkg().Path() {
	case "reflect":
		return s.reflectStub(name, f, recv, args)
	case "fmt":
		switch f.Name() {
		case "Errorf":
			return []oval{s.errV}, true
		case "Sprintf", "Sprint":
			return []oval{strVal(types.Typ[types.String], "<formatted text>")}, true
		}
	case "errors":
		if f.Name() == "New" {
			return []oval{s.errV}, true
		}
	case "strconv":
		if f.Name() == "ParseFloat" && len(args) == 2 {
			str, ok := strOf(args[0])
			if !ok {
				return top("ParseFloat of a non-concrete string")
			}
			if m := floatTokRe.FindStringSubmatch(str); m != nil {
				r, _ := strconv.ParseInt(m[1], 10, 64)
				return []oval{oFloat{r}, oIface{}}, true
			}
			if _, err := strconv.ParseFloat(str, 64); err != nil {
				return []oval{oTop{"result of a failed ParseFloat"}, s.errV}, true
			}
			return top("ParseFloat of a literal number")
		}
	case goshpPath:
		return s.shpStub(name, f, recv, args)
	}
	if out, ok := s.hostPure(f, args); ok {
		return out, true
	}
	return nil, false
}

func (s *shpModel) shpStub(name string, f *types.Func, recv oval, args []oval) ([]oval, bool) {
	sig := f.Type().(*types.Signature)
	top := func(why string) ([]oval, bool) {
		out := make([]oval, sig.Results().Len())
		for i := range out {
			out[i] = oTop{why}
		}
		if len(out) == 0 {
			s.problem("?", "%s", why)
		}
		return out, true
	}
	short := strings.Replace(name, goshpPath, "shp", 1)
	u8 := func(v oval) (int64, bool) { n, ok := v.(oInt); return int64(n), ok }
	switch short {
	case "shp.NumberField", "shp.StringField", "shp.FloatField", "shp.DateField":
		nm, ok := strOf(args[0])
		sz, ok2 := u8(args[1])
		if !ok || !ok2 {
			return top("field constructor arguments")
		}
		kind, prec := byte('N'), int64(0)
		switch f.Name() {
		case "StringField":
			kind = 'C'
		case "FloatField":
			kind = 'F'
			p, ok := u8(args[2])
			if !ok {
				return top("float precision")
			}
			prec = p
		case "DateField":
			kind = 'D'
		}
		return []oval{s.fieldValue(kind, nm, sz, prec)}, true
	case "shp.NewPolyLine":
		parts, ok := args[0].(oSlice)
		if !ok {
			if _, isNil := args[0].(oNil); !isNil {
				return top("NewPolyLine of " + showVal(args[0]))
			}
		}
		pl, _ := s.it.zero(s.shpType("PolyLine")).(*oStruct)
		if pl == nil {
			return top("shp.PolyLine")
		}
		var idx, pts []oval
		for i := 0; i < parts.length(); i++ {
			part, ok := parts.at(i).(oSlice)
			if !ok {
				return top("NewPolyLine part " + showVal(parts.at(i)))
			}
			idx = append(idx, oInt(len(pts)))
			for j := 0; j < part.length(); j++ {
				pts = append(pts, deepCopy(part.at(j)))
			}
		}
		ps := pl.fields["Parts"].(oSlice)
		pp := pl.fields["Points"].(oSlice)
		pl.fields["Parts"] = s.m.sliceOf(ps.typ, idx)
		pl.fields["Points"] = s.m.sliceOf(pp.typ, pts)
		pl.fields["NumParts"] = oInt(len(idx))
		pl.fields["NumPoints"] = oInt(len(pts))
		pl.fields["Box"] = s.boxOfPoints(pts)
		return []oval{oPtr{pl}}, true
	case "(*shp.Box).ExtendWithPoint", "(*shp.Box).Extend":
		// go-shp's own box arithmetic: four strict comparisons per point (Extend: the two corners)
		var bx *oStruct
		switch r := recv.(type) {
		case oPtr:
			bx = r.s
		case *oStruct:
			bx = r
		}
		arg, _ := args[0].(*oStruct)
		if bx == nil || arg == nil {
			return top(short + " of " + showVal(recv))
		}
		ext := func(xv, yv oval) bool {
			for _, d := range []struct {
				f  string
				v  oval
				op token.Token
			}{{"MinX", xv, token.LSS}, {"MinY", yv, token.LSS}, {"MaxX", xv, token.GTR}, {"MaxY", yv, token.GTR}} {
				b, ok := s.it.compareVals(d.op, d.v, bx.fields[d.f]).(oBool)
				if !ok {
					return false
				}
				if b {
					bx.fields[d.f] = d.v
				}
			}
			return true
		}
		ok := false
		if f.Name() == "ExtendWithPoint" {
			ok = ext(arg.fields["X"], arg.fields["Y"])
		} else {
			ok = ext(arg.fields["MinX"], arg.fields["MinY"]) && ext(arg.fields["MaxX"], arg.fields["MaxY"])
		}
		if !ok {
			return top(short + ": the comparison of " + showVal(arg) + " with " + showVal(bx) + " is not decided")
		}
		return nil, true
	case "shp.BBoxFromPoints":
		ps, ok := args[0].(oSlice)
		if !ok {
			if _, isNil := args[0].(oNil); !isNil {
				return top("BBoxFromPoints of " + showVal(args[0]))
			}
		}
		var pts []oval
		for i := 0; i < ps.length(); i++ {
			pts = append(pts, ps.at(i))
		}
		return []oval{s.boxOfPoints(pts)}, true
	case "shp.Create":
		fnm, ok := strOf(args[0])
		gt, ok2 := args[1].(oInt)
		if !ok || !ok2 {
			return top("shp.Create arguments")
		}
		file := &shpFile{geomType: int64(gt), attrs: map[[2]int]oval{}}
		s.files[shpBaseName(fnm)] = file
		s.wr = file
		w, _ := s.it.zero(s.shpType("Writer")).(*oStruct)
		if w == nil {
			return top("shp.Writer")
		}
		w.fields["GeometryType"] = gt
		return []oval{oPtr{w}, oIface{}}, true
	case "(*shp.Writer).SetFields":
		if s.wr == nil {
			return top("SetFields without Create")
		}
		fl, ok := args[0].(oSlice)
		if !ok {
			if _, isNil := args[0].(oNil); !isNil {
				return top("SetFields of " + showVal(args[0]))
			}
		}
		s.wr.fields = nil
		s.wr.hasDBF = true
		for i := 0; i < fl.length(); i++ {
			d, ok := s.describeField(fl.at(i))
			if !ok {
				return top("SetFields: field " + showVal(fl.at(i)))
			}
			s.wr.fields = append(s.wr.fields, d)
		}
		return nil, true
	case "(*shp.Writer).Write":
		if s.wr == nil {
			return top("Write without Create")
		}
		s.wr.shapes = append(s.wr.shapes, s.readBack(args[0], s.wr.geomType))
		return []oval{oInt(len(s.wr.shapes) - 1)}, true
	case "(*shp.Writer).WriteAttribute":
		if s.wr == nil {
			return top("WriteAttribute without Create")
		}
		row, ok1 := args[0].(oInt)
		col, ok2 := args[1].(oInt)
		if !ok1 || !ok2 {
			return top("WriteAttribute position")
		}
		if !s.wr.hasDBF {
			return []oval{s.errV}, true
		}
		if int(col) < 0 || int(col) >= len(s.wr.fields) {
			s.problem("C16.R4", "WriteAttribute is called for column %d of a table with %d columns — the real call panics", int(col), len(s.wr.fields))
			return []oval{s.errV}, true
		}
		v := args[2]
		t := dynTypeOf(v, nil)
		if iv, ok := v.(oIface); ok {
			v = iv.dyn
		}
		fd := s.wr.fields[col]
		switch {
		case t != nil && reflectKind(t) == reflect.Int && types.Identical(t, types.Typ[types.Int]):
			n, ok := v.(oInt)
			if !ok {
				return top("int attribute " + showVal(v))
			}
			if int64(len(strconv.Itoa(int(n)))) > fd.size {
				return []oval{s.errV}, true
			}
		case t != nil && types.Identical(t, types.Typ[types.Float64]):
			if _, ok := v.(oFloat); !ok {
				return top("float attribute " + showVal(v))
			}
		case t != nil && types.Identical(t, types.Typ[types.String]):
			str, ok := strOf(v)
			if !ok {
				return top("string attribute " + showVal(v))
			}
			if int64(len(str)) > fd.size {
				return []oval{s.errV}, true
			}
		default:
			return []oval{s.errV}, true
		}
		s.wr.attrs[[2]int{int(row), int(col)}] = v
		return []oval{oIface{}}, true
	case "(*shp.Writer).Close":
		return nil, true
	case "shp.Open":
		fnm, ok := strOf(args[0])
		if !ok {
			return top("shp.Open argument")
		}
		file := s.files[shpBaseName(fnm)]
		if file == nil || !strings.HasSuffix(fnm, ".shp") {
			return []oval{oPtr{nil}, s.errV}, true
		}
		s.rd, s.rdPos = file, 0
		r, _ := s.it.zero(s.shpType("Reader")).(*oStruct)
		if r == nil {
			return top("shp.Reader")
		}
		r.fields["GeometryType"] = oInt(file.geomType)
		return []oval{oPtr{r}, oIface{}}, true
	}
	if strings.HasPrefix(short, "(*shp.Reader).") {
		if s.rd == nil {
			return top("reader method without Open")
		}
		switch f.Name() {
		case "Next":
			if s.rdPos < len(s.rd.shapes) {
				s.rdPos++
				return []oval{oBool(true)}, true
			}
			return []oval{oBool(false)}, true
		case "Shape":
			if s.rdPos == 0 || s.rdPos > len(s.rd.shapes) {
				return []oval{oInt(0), oIface{}}, true
			}
			return []oval{oInt(s.rdPos - 1), s.rd.shapes[s.rdPos-1]}, true
		case "Fields":
			var vals []oval
			for _, d := range s.rd.fields {
				vals = append(vals, deepCopy(d.val))
			}
			return []oval{s.m.sliceOf(sig.Results().At(0).Type(), vals)}, true
		case "Err":
			return []oval{oIface{}}, true
		case "Close":
			if sig.Results().Len() == 1 {
				return []oval{oIface{}}, true
			}
			return nil, true
		case "AttributeCount":
			return []oval{oInt(len(s.rd.shapes))}, true
		case "ReadAttribute", "Attribute":
			var row, col oInt
			var ok1, ok2 bool
			if f.Name() == "ReadAttribute" {
				row, ok1 = args[0].(oInt)
				col, ok2 = args[1].(oInt)
			} else {
				row, ok1 = oInt(s.rdPos-1), true
				col, ok2 = args[0].(oInt)
			}
			if !ok1 || !ok2 {
				return top("ReadAttribute position")
			}
			if int(col) < 0 || int(col) >= len(s.rd.fields) {
				s.problem("C16.R5", "ReadAttribute is called for column %d of a table with %d columns — the real call panics", int(col), len(s.rd.fields))
				return top("ReadAttribute column")
			}
			fd := s.rd.fields[col]
			v, written := s.rd.attrs[[2]int{int(row), int(col)}]
			txt := ""
			if written {
				switch x := v.(type) {
				case oInt:
					txt = strconv.Itoa(int(x))
				case oFloat:
					txt = fmt.Sprintf("~f%d~", x.r)
				default:
					txt, _ = strOf(v)
				}
			}
			if int64(len(txt)) < fd.size {
				pad := int(fd.size) - len(txt)
				if pad > 3 {
					pad = 3
				}
				txt += strings.Repeat("\x00", pad)
			}
			return []oval{strVal(types.Typ[types.String], txt)}, true
		}
	}
	return top(short + " is not modelled")
}

// ---------------------------------------------------------------- driver

// shapesFor builds three records' geometries of the named type, with what must come back.
func (s *shpModel) shapesFor(tn string, big bool) (geoms []oval, want [][][]oBoxPt, orig [][][]oBoxPt, wantType string) {
	m := s.m
	ringT := m.polyT.Underlying().(*types.Slice).Elem()
	mkRing := func(t types.Type, n int, closed bool) (oSlice, []oBoxPt) {
		if closed && n > 1 {
			sl, pts := m.ring(t, m.ptT, n-1)
			first := sl.at(0).(*oStruct).clone()
			return appendVals(sl, []oval{first}), append(pts, pts[0])
		}
		return m.ring(t, m.ptT, n)
	}
	closeRing := func(r []oBoxPt) []oBoxPt {
		if len(r) > 0 && r[0] != r[len(r)-1] {
			return append(append([]oBoxPt{}, r...), r[0])
		}
		return r
	}
	switch tn {
	case "Point":
		for i := 0; i < 3; i++ {
			p := m.fresh()
			geoms = append(geoms, m.it.point(m.ptT, p.x, p.y))
			want = append(want, [][]oBoxPt{{p}})
		}
		return geoms, want, want, "Point"
	case "MultiPoint":
		ns := []int{1, 3, 2}
		if big {
			ns = []int{6, 1, 4}
		}
		for _, n := range ns {
			sl, pts := m.ring(s.mpT, m.ptT, n)
			geoms = append(geoms, sl)
			want = append(want, [][]oBoxPt{pts})
		}
		return geoms, want, want, "MultiPoint"
	case "LineString":
		ns := []int{2, 3, 4}
		if big {
			ns = []int{7, 1, 5}
		}
		for _, n := range ns {
			sl, pts := m.ring(m.lsT, m.ptT, n)
			geoms = append(geoms, sl)
			want = append(want, [][]oBoxPt{pts})
		}
		return geoms, want, want, "MultiLineString"
	case "MultiLineString":
		specs := [][]int{{2}, {2, 3}, {3, 0, 2, 1}}
		if big {
			specs = [][]int{{0, 2}, {4, 1, 0, 0, 3, 2}, {2, 6, 0}}
		}
		for _, ns := range specs {
			var parts []oval
			var rs [][]oBoxPt
			for _, n := range ns {
				sl, pts := m.ring(m.lsT, m.ptT, n)
				parts = append(parts, sl)
				rs = append(rs, pts)
			}
			geoms = append(geoms, m.sliceOf(m.mlsT, parts))
			want = append(want, rs)
		}
		return geoms, want, want, "MultiLineString"
	case "Polygon":
		type rg struct {
			n      int
			closed bool
		}
		specs := [][]rg{{{4, true}}, {{3, false}, {4, true}}, {{3, false}, {0, false}, {4, false}, {5, true}}}
		if big {
			specs = [][]rg{{{0, false}, {4, true}}, {{5, true}, {3, false}, {6, false}, {0, false}, {4, true}, {2, false}}, {{1, false}, {2, true}, {0, false}}}
		}
		for _, spec := range specs {
			var rings []oval
			var rs, ws [][]oBoxPt
			for _, r := range spec {
				sl, pts := mkRing(ringT, r.n, r.closed)
				rings = append(rings, sl)
				rs = append(rs, pts)
				ws = append(ws, closeRing(pts))
			}
			geoms = append(geoms, m.sliceOf(m.polyT, rings))
			orig = append(orig, rs)
			want = append(want, ws)
		}
		return geoms, want, orig, "Polygon"
	case "Bounds":
		for i := 0; i < 3; i++ {
			a, b := m.fresh(), m.fresh()
			geoms = append(geoms, oPtr{m.it.bounds(m.bt, m.ptT, a.x, a.y, b.x, b.y)})
			want = append(want, [][]oBoxPt{{{a.x, a.y}, {b.x, a.y}, {b.x, b.y}, {a.x, b.y}, {a.x, a.y}}})
		}
		return geoms, want, want, "Polygon"
	}
	return nil, nil, nil, ""
}

// geomRings: the parts of a decoded geometry and its type name.
func geomRings(v oval) (string, [][]oBoxPt, bool) {
	if iv, ok := v.(oIface); ok {
		v = iv.dyn
	}
	switch x := v.(type) {
	case *oStruct:
		if x == nil {
			return "", nil, false
		}
		px, okx := x.fields["X"].(oFloat)
		py, oky := x.fields["Y"].(oFloat)
		if !okx || !oky {
			return shpTypeName(x.typ), nil, false
		}
		return shpTypeName(x.typ), [][]oBoxPt{{{px.r, py.r}}}, true
	case oSlice:
		if x.typ == nil {
			return "", nil, false
		}
		tn := shpTypeName(x.typ)
		if pts, ok := ptsOf(x); ok && (x.length() > 0 || tn == "MultiPoint" || tn == "LineString") {
			return tn, [][]oBoxPt{pts}, true
		}
		rs, ok := ringsOf(x)
		return tn, rs, ok
	case nil:
		return "nil", nil, true
	}
	return "", nil, false
}

// sameCycle: the box ring is a closed five-vertex rectangle through the four corners in
// cyclic order (either direction, any start).
func boxRingOK(got []oBoxPt, want []oBoxPt) bool {
	if len(got) != 5 || got[0] != got[4] {
		return false
	}
	corners := want[:4]
	for start := 0; start < 4; start++ {
		for _, dir := range []int{1, 3} {
			ok := true
			for k := 0; k < 4; k++ {
				if got[k] != corners[(start+dir*k)%4] {
					ok = false
				}
			}
			if ok {
				return true
			}
		}
	}
	return false
}

type shpGeomVerdict struct {
	rule, msg string
}

// compareGeom classifies the difference between what came back and what the property demands.
func compareGeom(tn, wantType string, got oval, want, orig [][]oBoxPt) *shpGeomVerdict {
	gt, rs, ok := geomRings(got)
	if !ok {
		return &shpGeomVerdict{"?", "the decoded geometry is " + showVal(got)}
	}
	if gt != wantType {
		return &shpGeomVerdict{"C16.R1", fmt.Sprintf("a %s comes back as a %s, want %s", tn, gt, wantType)}
	}
	if tn == "Bounds" {
		if len(rs) == 1 && boxRingOK(rs[0], want[0]) {
			return nil
		}
		return &shpGeomVerdict{"C16.R3", fmt.Sprintf("a box comes back as %s, want the closed five-vertex rectangle %s", showRings(rs), showRings(want))}
	}
	if sameRings(rs, want) {
		return nil
	}
	// closing differences: the vertices are those of the input, only the closing vertex is missing or extra
	if len(rs) == len(want) {
		onlyClosing := true
		for i := range rs {
			g, w, o := rs[i], want[i], orig[i]
			switch {
			case sameRings([][]oBoxPt{g}, [][]oBoxPt{w}):
			case sameRings([][]oBoxPt{g}, [][]oBoxPt{o}):
			case len(g) == len(w)+1 && sameRings([][]oBoxPt{g[:len(w)]}, [][]oBoxPt{w}):
			default:
				onlyClosing = false
			}
		}
		if onlyClosing {
			return &shpGeomVerdict{"C16.R3", fmt.Sprintf("rings %s come back as %s: a ring must be closed by repeating its first vertex exactly when it is non-empty and first ≠ last (want %s)", showRings(orig), showRings(rs), showRings(want))}
		}
	}
	return &shpGeomVerdict{"C16.R2", fmt.Sprintf("a %s with parts %s comes back as %s, want %s: vertices are lost, moved between parts or reordered", tn, showRings(orig), showRings(rs), showRings(want))}
}

type shpFacet struct {
	bad, unk string
	pos      token.Pos
	taint    *string // why the scenario in progress is no longer a faithful run (shared by all facets)
}

// setBad records a violation — unless part of the scenario could not be interpreted: what the
// model then sees (a file half written, a value never stored) says nothing about the code.
func (f *shpFacet) setBad(format string, a ...interface{}) {
	if f.taint != nil && *f.taint != "" {
		f.setUnk("%s — not decided, because part of this scenario could not be interpreted: %s", fmt.Sprintf(format, a...), *f.taint)
		return
	}
	if f.bad == "" {
		f.bad = fmt.Sprintf(format, a...)
	}
}

// setWhy files a run that ended early: a panic is the code's behaviour (a violation), anything else
// is the interpreter's limit (undecided).
func (f *shpFacet) setWhy(why, format string, a ...interface{}) {
	what := fmt.Sprintf(format, a...)
	if strings.HasPrefix(why, "panic:") {
		f.setBad("%s", strings.Replace(what, "is not interpretable", "panics", 1)+": "+why)
		return
	}
	f.setUnk("%s: %s", what, why)
}

func (f *shpFacet) setUnk(format string, a ...interface{}) {
	if f.unk == "" {
		f.unk = fmt.Sprintf(format, a...)
	}
}

func (s *shpModel) mkStruct(name string, fields [][3]interface{}) *types.Named {
	pkg := types.NewPackage("example.org/user", "user")
	var vs []*types.Var
	var tags []string
	for _, f := range fields {
		vs = append(vs, types.NewField(token.NoPos, pkg, f[0].(string), f[1].(types.Type), false))
		tags = append(tags, f[2].(string))
	}
	tn := types.NewTypeName(token.NoPos, pkg, name, nil)
	return types.NewNamed(tn, types.NewStruct(vs, tags), nil)
}

func (s *shpModel) zeroRecord(t *types.Named) *oStruct {
	st := t.Underlying().(*types.Struct)
	r := &oStruct{typ: t, fields: map[string]oval{}}
	for i := 0; i < st.NumFields(); i++ {
		f := st.Field(i)
		r.order = append(r.order, f.Name())
		switch {
		case isStringT(f.Type()):
			r.fields[f.Name()] = strVal(f.Type(), "")
		case types.Identical(f.Type(), types.Typ[types.Float64]):
			r.fields[f.Name()] = oFloat{-7777}
		default:
			r.fields[f.Name()] = s.it.zero(f.Type())
		}
	}
	return r
}

// c16model runs both encode/decode flows and files what it finds under the C16 rules.
func c16model(c *Ctx, p *pkgT) {
	s := newShpModel(c, p)
	fn := func(n string) *types.Func { return c.P.Func("encoding/shp", n) }
	meth := func(t, n string) *types.Func {
		nt := c.P.NamedType("encoding/shp", t)
		if nt == nil {
			return nil
		}
		obj, _, _ := types.LookupFieldOrMethod(types.NewPointer(nt), true, p.Types, n)
		f, _ := obj.(*types.Func)
		return f
	}
	newEnc, newEncF, newDec := fn("NewEncoder"), fn("NewEncoderFromFields"), fn("NewDecoder")
	encode, encodeF, encClose := meth("Encoder", "Encode"), meth("Encoder", "EncodeFields"), meth("Encoder", "Close")
	decRow, decRowF, decErr, decClose := meth("Decoder", "DecodeRow"), meth("Decoder", "DecodeRowFields"), meth("Decoder", "Error"), meth("Decoder", "Close")
	for _, f := range []*types.Func{newEnc, newEncF, newDec, encode, encodeF, decRow, decRowF, decErr} {
		if f == nil || c.P.Decl(f) == nil {
			c.Unk("C16.R1", "encoding/shp#model", token.NoPos, "an API anchor (NewEncoder, NewEncoderFromFields, NewDecoder, Encode, EncodeFields, DecodeRow, DecodeRowFields, Error) does not resolve")
			return
		}
	}
	if s.shp == nil || s.mpT == nil || s.geomI == nil || s.m.ptT == nil || s.m.polyT == nil || s.m.lsT == nil || s.m.mlsT == nil || s.m.bt == nil {
		c.Unk("C16.R1", "encoding/shp#model", token.NoPos, "geometry or go-shp types do not resolve")
		return
	}
	pos := c.P.Decl(newEnc).Pos()
	strT := types.Typ[types.String]
	labels := []string{"alpha", strings.Repeat("x", 49) + "Z", "Mixed Case 3"}
	counts := []int64{7, 123456789, -42}

	geomTypes := map[string]types.Type{"Point": s.m.ptT, "MultiPoint": s.mpT, "LineString": s.m.lsT, "MultiLineString": s.m.mlsT, "Polygon": s.m.polyT, "Bounds": types.NewPointer(s.m.bt)}
	order := []string{"Bounds", "LineString", "MultiLineString", "MultiPoint", "Point", "Polygon"}

	// facets across all runs
	facets := map[string]*shpFacet{}
	facet := func(k string) *shpFacet {
		if facets[k] == nil {
			facets[k] = &shpFacet{taint: &s.taint}
		}
		return facets[k]
	}
	call := func(f *types.Func, recv oval, args ...oval) ([]oval, string) {
		c.Evals(1)
		res, why := s.it.Call(f, recv, args, 0)
		if why == "" {
			for _, r := range res {
				if t, isTop := r.(oTop); isTop {
					why = "result " + showVal(t)
					break
				}
			}
		}
		if why != "" && !strings.HasPrefix(why, "panic:") && s.taint == "" {
			s.taint = f.Name() + ": " + why
		}
		return res, why
	}
	isNilErr := func(v oval) bool { eq, ok := oEqual(v, oNil{}); return ok && eq }
	route := func(rule string) string {
		switch rule {
		case "C16.R1":
			return "R1"
		case "C16.R2":
			return "R2"
		case "C16.R3":
			return "R3"
		case "C16.R4":
			return "R4"
		case "C16.R5":
			return "R5"
		}
		return "?"
	}
	drainProblems := func(row *shpFacet, tn string) {
		for rule, msgs := range s.problems {
			for _, msg := range msgs {
				switch route(rule) {
				case "R1":
					row.setBad("%s", msg)
				case "R2":
					facet("parts:"+tn).setBad("%s", msg)
				case "R3":
					facet("closing").setBad("%s", msg)
				case "R4":
					facet("kinds").setBad("%s", msg)
				case "R5":
					facet("match").setBad("%s", msg)
				default:
					row.setUnk("%s", msg)
				}
			}
		}
		s.problems = map[string][]string{}
	}

	// ------------------------------------------------------------ struct flow
	type flowCase struct {
		tn     string
		layout int
	}
	var flows []flowCase
	for _, tn := range order {
		flows = append(flows, flowCase{tn, 0})
		// the geometry between the attributes, for every type: the encoder notes where the geometry
		// field is type by type
		flows = append(flows, flowCase{tn, 1})
		if c.Thorough {
			flows = append(flows, flowCase{tn, 2})
		}
	}
	for _, fc := range flows {
		tn := fc.tn
		row := facet("row:" + tn)
		partsF := facet("parts:" + tn)
		encFields := [][3]interface{}{
			{"Shape", geomTypes[tn], ""},
			{"Count", types.Typ[types.Int], `shp:"CoUnT"`},
			{"Value", types.Typ[types.Float64], ""},
			{"Label", strT, `shp:"label"`},
		}
		decFields := [][3]interface{}{
			{"G", s.geomI, ""},
			{"COUNT", types.Typ[types.Int], ""},
			{"V", types.Typ[types.Float64], `shp:"VALUE"`},
			{"Label", strT, `shp:"nomatch"`},
			{"Other", types.Typ[types.Int], ""},
		}
		if fc.layout == 1 {
			// the geometry between the attributes; the decoding struct in yet another order
			encFields[0], encFields[1], encFields[2] = encFields[1], encFields[2], encFields[0]
			decFields[0], decFields[3] = decFields[3], decFields[0]
		}
		encT := s.mkStruct("Rec"+tn, encFields)
		decT := s.mkStruct("Out"+tn, decFields)
		geoms, want, orig, wantType := s.shapesFor(tn, fc.layout == 2)
		s.files = map[string]*shpFile{}
		s.problems, s.taint = map[string][]string{}, ""
		fname := strVal(strT, "out/"+tn)
		arche := s.zeroRecord(encT)
		arche.fields["Shape"] = s.it.zero(geomTypes[tn])
		res, why := call(newEnc, nil, fname, oIface{dyn: arche, styp: encT})
		if why != "" {
			row.setWhy(why, "NewEncoder is not interpretable for a record with a %s field", tn)
			drainProblems(row, tn)
			continue
		}
		if !isNilErr(res[1]) {
			row.setBad("NewEncoder returns an error for a record with a %s field", tn)
			continue
		}
		enc := res[0]
		file := s.wr
		if file == nil {
			row.setBad("NewEncoder creates no shapefile for a record with a %s field", tn)
			continue
		}
		// field table
		kindsOK := len(file.fields) == 3
		if kindsOK {
			wantKinds := []struct {
				k    byte
				name string
				what string
			}{{'N', "count", "Int"}, {'F', "Value", "Float64"}, {'C', "label", "String"}}
			for i, w := range wantKinds {
				fd := file.fields[i]
				ff := facet("field:" + w.what)
				gotName := strings.TrimRight(fd.name, "\x00")
				if fd.kind != w.k {
					ff.setBad("a struct field of kind %s becomes a column of dBase type %q, want %q", w.what, fd.kind, w.k)
				}
				if !strings.EqualFold(gotName, w.name) {
					facet("match").setBad("the column for struct field %s is named %q, want %q in any case (the tag, else the field name)", w.what, gotName, w.name)
				}
				switch w.k {
				case 'N':
					if fd.size < 10 {
						ff.setBad("integer columns are %d bytes wide: a 32-bit value needs 10", fd.size)
					}
				case 'F':
					if fd.prec < 10 {
						ff.setBad("float columns keep %d decimal places, the documented guarantee is 10", fd.prec)
					}
					if fd.size < 19+fd.prec {
						ff.setBad("float columns are %d bytes wide with %d decimals: sign + 17 significant digits + point + decimals need %d", fd.size, fd.prec, 19+fd.prec)
					}
				case 'C':
					if fd.size < 50 {
						ff.setBad("string columns are %d bytes wide: the documented guarantee is 50", fd.size)
					}
				}
			}
		} else {
			facet("kinds").setBad("a record with int, float64 and string fields yields %d attribute columns, want 3", len(file.fields))
		}
		// encode three records
		var values []int64
		failed := false
		for k := 0; k < 3 && !failed; k++ {
			rec := s.zeroRecord(encT)
			rec.fields["Shape"] = geoms[k]
			rec.fields["Count"] = oInt(counts[k])
			v := s.m.fresh()
			values = append(values, v.x)
			rec.fields["Value"] = oFloat{v.x}
			rec.fields["Label"] = strVal(strT, labels[k])
			var arg oval = oIface{dyn: rec, styp: encT}
			if k == 1 {
				arg = oIface{dyn: oPtr{rec}, styp: types.NewPointer(encT)}
			}
			res, why := call(encode, enc, arg)
			if why != "" {
				row.setWhy(why, "Encode is not interpretable for a %s record", tn)
				failed = true
			} else if !isNilErr(res[0]) {
				row.setBad("Encode returns an error for a %s record (%d-byte string, count %d)", tn, len(labels[k]), counts[k])
				failed = true
			}
		}
		drainProblems(row, tn)
		if failed {
			continue
		}
		if encClose != nil {
			call(encClose, enc)
		}
		if len(file.shapes) != 3 {
			facet("rows:struct").setBad("3 records are encoded, %d shapes are written", len(file.shapes))
			continue
		}
		// decode
		res, why = call(newDec, nil, strVal(strT, "out/"+tn+".shp"))
		if why != "" || !isNilErr(res[1]) {
			row.setWhy(why, "NewDecoder is not interpretable or fails on the file just written")
			continue
		}
		dec := res[0]
		for k := 0; k < 4; k++ {
			out := s.zeroRecord(decT)
			res, why := call(decRow, dec, oIface{dyn: oPtr{out}, styp: types.NewPointer(decT)})
			if why != "" {
				row.setWhy(why, "DecodeRow is not interpretable on record %d of a %s file", k, tn)
				break
			}
			more, _ := res[0].(oBool)
			if k == 3 {
				if bool(more) {
					facet("rows:struct").setBad("DecodeRow reports a fourth record in a file of three")
				}
				break
			}
			if !bool(more) {
				facet("rows:struct").setBad("DecodeRow reports the end of the file at record %d of 3", k)
				break
			}
			if v := compareGeom(tn, wantType, out.fields["G"], want[k], orig[k]); v != nil {
				switch v.rule {
				case "C16.R1":
					// a geometry of another record?
					row.setBad("record %d: %s", k, v.msg)
				case "C16.R2":
					other := false
					for j := range want {
						if j != k && compareGeom(tn, wantType, out.fields["G"], want[j], orig[j]) == nil {
							other = true
						}
					}
					if other {
						facet("rows:struct").setBad("record %d of a %s file comes back with the geometry of another record", k, tn)
					} else {
						partsF.setBad("record %d: %s", k, v.msg)
					}
				case "C16.R3":
					facet("closing").setBad("record %d: %s", k, v.msg)
				default:
					row.setUnk("record %d: %s", k, v.msg)
				}
			}
			// attributes
			if n, ok := out.fields["COUNT"].(oInt); !ok || int64(n) != counts[k] {
				if ok && int64(n) == 0 {
					facet("match").setBad("the int field COUNT (no tag) is not filled from column \"count\": field names must match case-insensitively")
				} else if ok && (int64(n) == counts[(k+1)%3] || int64(n) == counts[(k+2)%3]) {
					facet("rows:struct").setBad("record %d comes back with the integer attribute of another row", k)
				} else {
					facet("decoder-kinds").setBad("integer attribute %d comes back as %s", counts[k], showVal(out.fields["COUNT"]))
				}
			}
			if f, ok := out.fields["V"].(oFloat); !ok || f.r != values[k] {
				if ok && f.r == -7777 {
					facet("match").setBad("the float field V tagged `shp:\"VALUE\"` is not filled from column \"Value\": tags must match case-insensitively")
				} else if ok && (f.r == values[(k+1)%3] || f.r == values[(k+2)%3]) {
					facet("rows:struct").setBad("record %d comes back with the float attribute of another row", k)
				} else {
					facet("decoder-kinds").setBad("a float attribute comes back as %s", showVal(out.fields["V"]))
				}
			}
			if str, ok := strOf(out.fields["Label"]); !ok || str != labels[k] {
				if ok && str == "" {
					facet("match").setBad("the string field Label, whose tag names no column, is not filled from the column matching its name: the name must be tried when the tag finds nothing")
				} else if ok && (str == labels[(k+1)%3] || str == labels[(k+2)%3]) {
					facet("rows:struct").setBad("record %d comes back with the string attribute of another row", k)
				} else {
					facet("decoder-kinds").setBad("string attribute %q comes back as %q", labels[k], str)
				}
			}
			if n, ok := out.fields["Other"].(oInt); !ok || n != 0 {
				facet("match").setBad("a struct field matching no column is overwritten with %s", showVal(out.fields["Other"]))
			}
		}
		drainProblems(row, tn)
		res, why = call(decErr, recvFor(decErr, dec))
		if why == "" && len(res) == 1 && !isNilErr(res[0]) {
			facet("decoder-kinds").setBad("Decoder.Error reports an error after reading back the %s file just written: an attribute or shape the encoder wrote is rejected by the decoder", tn)
		}
		if decClose != nil {
			call(decClose, dec)
		}
		// a record without a shape in the middle of the file: its row is still consumed, so the
		// record after it comes back with its own attributes
		if nullT := s.shpType("Null"); nullT != nil && tn == "Point" {
			nf := facet("rows:struct")
			if st, ok := s.it.zero(nullT).(*oStruct); ok {
				saved := file.shapes[1]
				file.shapes[1] = oPtr{st}
				res, why := call(newDec, nil, strVal(strT, "out/"+tn+".shp"))
				if why == "" && isNilErr(res[1]) {
					dec := res[0]
					for k := 0; k < 3; k++ {
						out := s.zeroRecord(decT)
						res, why := call(decRow, dec, oIface{dyn: oPtr{out}, styp: types.NewPointer(decT)})
						if why != "" {
							nf.setWhy(why, "DecodeRow is not interpretable on a file whose second record has no shape")
							break
						}
						if more, _ := res[0].(oBool); !bool(more) {
							nf.setBad("DecodeRow reports the end of a file of three at record %d when the second record has no shape", k)
							break
						}
						if n, ok := out.fields["COUNT"].(oInt); ok && int64(n) != counts[k] {
							nf.setBad("after a record without a shape, record %d comes back with the integer attribute %d of another row (its own is %d): the attribute row is not consumed with the record", k, int64(n), counts[k])
							break
						}
					}
					if decClose != nil {
						call(decClose, dec)
					}
				}
				file.shapes[1] = saved
				drainProblems(row, tn)
			}
		}
	}

	// ------------------------------------------------------------ field flow
	{
		tn := "Polygon"
		rowsF := facet("rows:fields")
		geoms, want, orig, wantType := s.shapesFor(tn, false)
		s.files = map[string]*shpFile{}
		s.problems, s.taint = map[string][]string{}, ""
		ft := s.shpType("Field")
		fields := s.m.sliceOf(types.NewSlice(ft), []oval{s.fieldValue('N', "id", 10, 0), s.fieldValue('C', "Name", 50, 0), s.fieldValue('F', "val", 30, 10)})
		res, why := call(newEncF, nil, strVal(strT, "out/fields.shp"), oInt(5), fields)
		if why != "" || !isNilErr(res[1]) {
			rowsF.setWhy(why, "NewEncoderFromFields is not interpretable")
		} else {
			enc := res[0]
			var values []int64
			ok := true
			anyT := types.NewInterfaceType(nil, nil)
			for k := 0; k < 3 && ok; k++ {
				v := s.m.fresh()
				values = append(values, v.x)
				vals := s.m.sliceOf(types.NewSlice(anyT), []oval{
					oIface{dyn: oInt(counts[k]), styp: types.Typ[types.Int]},
					oIface{dyn: strVal(strT, labels[k]), styp: strT},
					oIface{dyn: oFloat{v.x}, styp: types.Typ[types.Float64]},
				})
				res, why := call(encodeF, enc, oIface{dyn: geoms[k]}, vals)
				if why != "" {
					rowsF.setWhy(why, "EncodeFields is not interpretable")
					ok = false
				} else if !isNilErr(res[0]) {
					rowsF.setBad("EncodeFields returns an error for a polygon record")
					ok = false
				}
			}
			if ok {
				res, why = call(newDec, nil, strVal(strT, "out/fields"))
				if why != "" || !isNilErr(res[1]) {
					rowsF.setWhy(why, "NewDecoder is not interpretable or fails on the file just written (name given without .shp)")
					ok = false
				}
			}
			if ok {
				dec := res[0]
				names := s.m.sliceOf(types.NewSlice(strT), []oval{strVal(strT, "ID"), strVal(strT, "name"), strVal(strT, "VAL")})
				for k := 0; k < 4; k++ {
					res, why := call(decRowF, dec, names)
					if why != "" && !(k == 3 && len(res) == 3) {
						rowsF.setWhy(why, "DecodeRowFields is not interpretable on record %d", k)
						break
					}
					more, _ := res[2].(oBool)
					if k == 3 {
						if bool(more) {
							rowsF.setBad("DecodeRowFields reports a fourth record in a file of three")
						}
						break
					}
					if !bool(more) {
						rowsF.setBad("DecodeRowFields reports the end of the file at record %d of 3", k)
						break
					}
					if v := compareGeom(tn, wantType, res[0], want[k], orig[k]); v != nil {
						switch v.rule {
						case "C16.R3":
							facet("closing").setBad("field-based record %d: %s", k, v.msg)
						case "?":
							rowsF.setUnk("record %d: %s", k, v.msg)
						default:
							rowsF.setBad("field-based record %d: %s", k, v.msg)
						}
					}
					mp, isMap := res[1].(oMap)
					if !isMap {
						rowsF.setUnk("record %d: the attribute map is %s", k, showVal(res[1]))
						break
					}
					wantTxt := map[string]string{"ID": strconv.Itoa(int(counts[k])), "name": labels[k], "VAL": fmt.Sprintf("~f%d~", values[k])}
					for _, key := range []string{"ID", "name", "VAL"} {
						i := mp.find(strVal(strT, key))
						if i < 0 {
							facet("match").setBad("DecodeRowFields(%q) returns no entry under the requested name", key)
							continue
						}
						got, _ := strOf((*mp.vals)[i])
						if got != wantTxt[key] {
							if got == strconv.Itoa(int(counts[(k+1)%3])) || got == labels[(k+1)%3] || got == strconv.Itoa(int(counts[(k+2)%3])) || got == labels[(k+2)%3] {
								rowsF.setBad("record %d comes back with attribute %q of another row", k, key)
							} else {
								facet("decoder-kinds").setBad("DecodeRowFields returns %q for attribute %q written as %q", got, key, wantTxt[key])
							}
						}
					}
				}
				res, why = call(decErr, recvFor(decErr, dec))
				if why == "" && len(res) == 1 && !isNilErr(res[0]) {
					rowsF.setBad("Decoder.Error reports an error after reading back the file just written")
				}
				// a second reader that asks for the geometry only on the first record and for an
				// attribute on the next: each record still consumes its row
				if res2, why := call(newDec, nil, strVal(strT, "out/fields")); why == "" && isNilErr(res2[1]) {
					dec2 := res2[0]
					none := s.m.sliceOf(types.NewSlice(strT), nil)
					one := s.m.sliceOf(types.NewSlice(strT), []oval{strVal(strT, "ID")})
					for k := 0; k < 3; k++ {
						arg := one
						if k == 0 {
							arg = none
						}
						r, why := call(decRowF, dec2, arg)
						if why != "" || len(r) != 3 {
							rowsF.setWhy(why, "DecodeRowFields is not interpretable when the first record is read without attribute names")
							break
						}
						if k == 0 {
							continue
						}
						if mp, isMap := r[1].(oMap); isMap {
							if i := mp.find(strVal(strT, "ID")); i >= 0 {
								if got, _ := strOf((*mp.vals)[i]); got != strconv.Itoa(int(counts[k])) {
									rowsF.setBad("after a record read without attribute names, record %d comes back with attribute ID = %q, its own is %d: the attribute row is not consumed with every record", k, got, counts[k])
									break
								}
							}
						}
					}
				}
			}
		}
		drainProblems(rowsF, tn)
	}

	// ------------------------------------------------------------ obligations
	file := func(rule, cons string, f *shpFacet, okText string) {
		switch {
		case f != nil && f.bad != "":
			c.Bad(rule, cons, pos, "%s", f.bad)
		case f != nil && f.unk != "":
			c.Unk(rule, cons, pos, "%s", f.unk)
		default:
			c.OK(rule, cons, pos, "%s", okText)
		}
	}
	anyUnk := ""
	for _, tn := range order {
		if f := facets["row:"+tn]; f != nil && f.unk != "" {
			anyUnk = f.unk
		}
	}
	for _, tn := range order {
		file("C16.R1", "encoding/shp#row("+tn+")", facets["row:"+tn], "three records with a "+tn+" field are written into a file of the matching shape type and come back as the expected geometry type")
		pf := facets["parts:"+tn]
		if (pf == nil || pf.bad == "") && facets["row:"+tn] != nil && facets["row:"+tn].unk != "" {
			pf = &shpFacet{unk: facets["row:"+tn].unk}
		}
		file("C16.R2", "encoding/shp#roundtrip("+tn+")", pf, "every part comes back with the same vertices in the same order (1–4 parts of 0–5 vertices, an empty part in the middle included)")
	}
	dep := func(f *shpFacet) *shpFacet {
		if (f == nil || (f.bad == "" && f.unk == "")) && anyUnk != "" {
			return &shpFacet{unk: anyUnk}
		}
		return f
	}
	file("C16.R3", "encoding/shp#closing(model)", dep(facets["closing"]), "unclosed rings come back closed, closed rings unchanged, boxes as closed five-vertex rectangles")
	for _, k := range []string{"Int", "Float64", "String"} {
		file("C16.R4", "encoding/shp.NewEncoder#field("+k+")", dep(facets["field:"+k]), "column type and width as documented")
	}
	kf := facets["decoder-kinds"]
	if kf == nil || kf.bad == "" {
		if f := facets["kinds"]; f != nil && f.bad != "" {
			kf = f
		}
	}
	file("C16.R4", "encoding/shp#decoder-kinds", dep(kf), "int, float64 and string attributes all come back equal, through DecodeRow and DecodeRowFields")
	file("C16.R5", "encoding/shp#match(model)", dep(facets["match"]), "columns are found by lower-cased tag, by name when the tag finds nothing, case-insensitively; unmatched fields are left alone")
	file("C16.R6", "encoding/shp#rows(struct)", dep(facets["rows:struct"]), "three records come back in order, each with its own geometry and attributes, then end of file")
	file("C16.R6", "encoding/shp#rows(fields)", facets["rows:fields"], "three field-based records come back in order, each with its own geometry and attributes, then end of file")
}

// recvFor: the receiver value a method expects (the pointer, or a copy of the struct).
func recvFor(f *types.Func, v oval) oval {
	if _, ptr := f.Type().(*types.Signature).Recv().Type().(*types.Pointer); ptr {
		return v
	}
	if p, ok := v.(oPtr); ok && p.s != nil {
		return p.s.clone()
	}
	return v
}
