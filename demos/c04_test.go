package demos

import (
	"math"
	"testing"

	"github.com/ctessum/geom"
)

// C04 defect: Extend with the empty box (Bounds() of a vertex-less member)
// turned the receiver into the whole plane.
func TestC04ExtendEmptyOperand(t *testing.T) {
	ml := geom.MultiLineString{{{X: 1, Y: 1}, {X: 2, Y: 2}}, {}}
	b := ml.Bounds()
	if math.IsInf(b.Min.X, 0) || math.IsInf(b.Max.X, 0) || b.Min.X != 1 || b.Max.Y != 2 {
		t.Errorf("bounds with an empty member: %+v", *b)
	}
}

// C04/C01 defect: box-box intersection returned an inverted box when the boxes
// were separated on one axis only (nil test used && instead of ||).
func TestC04BoxIntersectionSeparatedOnOneAxis(t *testing.T) {
	a := &geom.Bounds{Min: geom.Point{X: 0, Y: 0}, Max: geom.Point{X: 1, Y: 1}}
	b := &geom.Bounds{Min: geom.Point{X: 2, Y: 0}, Max: geom.Point{X: 3, Y: 1}}
	if r := a.Intersection(b); r != nil {
		t.Errorf("disjoint boxes intersect to %+v", r)
	}
}

// C04 defect: Points() iterators index out of range after an empty member
// (and GeometryCollection.Points panics on an empty collection).
func TestC04PointsSkipsEmptyMembers(t *testing.T) {
	pt := geom.Point{X: 1, Y: 2}
	for _, g := range []geom.Geom{
		geom.MultiLineString{{pt}, {}, {}, {pt}},
		geom.MultiLineString{{}, {pt}},
		geom.Polygon{{pt}, {}, {}, {pt}},
		geom.MultiPolygon{{{pt}}, {}, {{}, {pt}}},
		geom.MultiPolygon{{}, {{pt}}},
		geom.GeometryCollection{pt, geom.MultiPoint{}, geom.LineString{}, pt},
		geom.GeometryCollection{},
	} {
		func() {
			defer func() {
				if r := recover(); r != nil {
					t.Errorf("%T %v: panic: %v", g, g, r)
				}
			}()
			it := g.Points()
			for i := 0; i < g.Len(); i++ {
				if p := it(); p != pt {
					t.Errorf("%T: point %d = %v", g, i, p)
				}
			}
		}()
	}
}
