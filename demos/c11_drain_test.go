package rtree

// Demonstration for C11 (drain and refill): copy into /repo/index/rtree and run
//   go test ./index/rtree -run TestC11DrainRefill
// Before the fix "rtree Delete collapses every single-entry root level" about 40 % of the
// random histories below end with a nil-pointer panic in Insert (or in Delete's reinsertion):
// the drained tree keeps a non-leaf root without entries.

import (
	"math/rand"
	"testing"

	"github.com/ctessum/geom"
)

func TestC11DrainRefill(t *testing.T) {
	fails := 0
	for seed := int64(0); seed < 3000; seed++ {
		r := rand.New(rand.NewSource(seed))
		n := 10 + r.Intn(40)
		tree := NewTree(2, 4)
		var objs []*geom.Bounds
		for i := 0; i < n; i++ {
			x, y := r.Float64()*100, r.Float64()*100
			b := &geom.Bounds{Min: geom.Point{X: x, Y: y}, Max: geom.Point{X: x + r.Float64()*10, Y: y + r.Float64()*10}}
			objs = append(objs, b)
			tree.Insert(b)
		}
		r.Shuffle(len(objs), func(i, j int) { objs[i], objs[j] = objs[j], objs[i] })
		func() {
			defer func() {
				if e := recover(); e != nil {
					fails++
					if fails < 4 {
						t.Errorf("seed %d, %d objects: panic %v", seed, n, e)
					}
				}
			}()
			for _, o := range objs {
				if !tree.Delete(o) {
					t.Fatalf("seed %d: Delete of a stored object failed", seed)
				}
			}
			tree.Insert(objs[0])
			if tree.Size() != 1 || tree.Depth() != 1 {
				t.Errorf("seed %d: after drain and one insert Size=%d Depth=%d", seed, tree.Size(), tree.Depth())
			}
		}()
	}
	if fails > 0 {
		t.Errorf("%d of 3000 histories panic", fails)
	}
}
