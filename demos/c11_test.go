package demos

import (
	"testing"

	"github.com/ctessum/geom"
	"github.com/ctessum/geom/index/rtree"
)

// C11 defect: when Delete collapses the root onto its only child the height is
// not decremented.  After the next root split the level numbers are off by
// one, re-insertion of an underfull leaf (at level+1) lands inside a leaf, and
// SearchIntersect returns nil objects and loses stored ones.
func TestC11DeleteRootCollapseKeepsHeight(t *testing.T) {
	tree := rtree.NewTree(2, 4)
	pts := make([]*geom.Point, 0)
	add := func(x, y float64) *geom.Point {
		p := geom.NewPoint(x, y)
		pts = append(pts, p)
		tree.Insert(p)
		return p
	}
	// 5 points: root splits into two leaves, depth 2
	for i := 0; i < 5; i++ {
		add(float64(i), float64(i))
	}
	if tree.Depth() != 2 {
		t.Fatalf("depth after first split = %d", tree.Depth())
	}
	// delete everything but one point: the tree drains to a single leaf
	for _, p := range pts[1:] {
		if !tree.Delete(p) {
			t.Fatalf("delete failed")
		}
	}
	if tree.Size() != 1 {
		t.Fatalf("size = %d", tree.Size())
	}
	if tree.Depth() != 1 {
		t.Errorf("a tree holding one object in its root leaf reports depth %d, want 1", tree.Depth())
	}
	// refill and drain again: the stale height corrupts re-insertion
	kept := []*geom.Point{pts[0]}
	pts = pts[:1]
	for i := 10; i < 30; i++ {
		kept = append(kept, add(float64(i), float64(i%7)))
	}
	for len(kept) > 3 {
		p := kept[len(kept)-1]
		kept = kept[:len(kept)-1]
		if !tree.Delete(p) {
			t.Errorf("stored object %v cannot be deleted", *p)
		}
		all := tree.SearchIntersect(&geom.Bounds{Min: geom.Point{X: -1e9, Y: -1e9}, Max: geom.Point{X: 1e9, Y: 1e9}})
		if len(all) != len(kept) {
			t.Fatalf("after draining to %d objects the whole-plane query returns %d results", len(kept), len(all))
		}
		for _, g := range all {
			if g == nil {
				t.Fatalf("SearchIntersect returned a nil object")
			}
		}
	}
}
