package demos

import (
	"runtime"
	"testing"

	"github.com/ctessum/geom/encoding/wkb"
)

// C07 defect: WKB readers allocate from the count field before reading any
// payload, so nine bytes of input can demand gigabytes.
func TestC07WKBInflatedCount(t *testing.T) {
	// little-endian LineString claiming 0x0FFFFFFF points (4 GiB of Point), no payload
	in := []byte{1, 2, 0, 0, 0, 0xFF, 0xFF, 0xFF, 0x0F}
	var before, after runtime.MemStats
	runtime.GC()
	runtime.ReadMemStats(&before)
	_, err := wkb.Decode(in)
	runtime.ReadMemStats(&after)
	if err == nil {
		t.Errorf("expected an error for a truncated line string")
	}
	if grew := after.TotalAlloc - before.TotalAlloc; grew > 1<<20 {
		t.Errorf("decoding %d bytes allocated %d MiB", len(in), grew>>20)
	}
	// MultiPoint claiming 0x0FFFFFFF members
	in = []byte{1, 4, 0, 0, 0, 0xFF, 0xFF, 0xFF, 0x0F}
	runtime.ReadMemStats(&before)
	_, err = wkb.Decode(in)
	runtime.ReadMemStats(&after)
	if err == nil {
		t.Errorf("expected an error for a truncated multipoint")
	}
	if grew := after.TotalAlloc - before.TotalAlloc; grew > 1<<20 {
		t.Errorf("decoding %d bytes allocated %d MiB", len(in), grew>>20)
	}
}
