module demos

go 1.13

require github.com/ctessum/geom v0.0.0

replace github.com/ctessum/geom => /repo
