package demos

import (
	"math"
	"testing"

	"github.com/ctessum/geom"
	"github.com/ctessum/geom/route"
)

// C19 defect 1: Network does not implement gonum's path.Weighted, so AStar uses
// unit costs: one long link beats two short ones.
func TestC19RouteMinimisesDistance(t *testing.T) {
	net := route.NewNetwork(route.Distance)
	a, b, c := geom.Point{X: 0, Y: 0}, geom.Point{X: 1, Y: 0}, geom.Point{X: 2, Y: 0}
	net.AddLink(geom.LineString{a, b}, 1)
	net.AddLink(geom.LineString{b, c}, 1)
	// a detour of length 20 that connects a and c directly
	net.AddLink(geom.LineString{a, {X: 1, Y: 10}, c}, 1)
	_, dist, _, _, _ := net.ShortestRoute(a, c)
	if math.Abs(dist-2) > 1e-9 {
		t.Errorf("shortest distance from a to c = %v, want 2 (a-b-c)", dist)
	}
}

// C19 defect 2: the time heuristic divides by the slowest speed and so
// over-estimates; A* then settles for a slower route.
func TestC19RouteMinimisesTime(t *testing.T) {
	net := route.NewNetwork(route.Time)
	s, m, g := geom.Point{X: 0, Y: 0}, geom.Point{X: 5, Y: 5}, geom.Point{X: 10, Y: 0}
	far := geom.Point{X: 100, Y: 100}
	// direct road s-g: length 10 at speed 1 → 10 time units
	net.AddLink(geom.LineString{s, g}, 1)
	// motorway s-m-g: length 2*7.07 at speed 10 → 1.41 time units
	net.AddLink(geom.LineString{s, m}, 10)
	net.AddLink(geom.LineString{m, g}, 10)
	// an unrelated crawl-speed link drags the "minimum speed" down
	net.AddLink(geom.LineString{far, {X: 101, Y: 100}}, 0.001)
	_, _, tm, _, _ := net.ShortestRoute(s, g)
	want := 2 * math.Hypot(5, 5) / 10
	if math.Abs(tm-want) > 1e-9 {
		t.Errorf("fastest time from s to g = %v, want %v (via the motorway)", tm, want)
	}
}
