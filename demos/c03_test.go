package demos

import (
	"math"
	"testing"

	"github.com/ctessum/geom"
)

// C03 defect: MultiPolygon.Centroid divided the (orientation-odd) ring sums by
// the unsigned ring area, so a clockwise ring gave a mirrored centroid.
func TestC03MultiPolygonCentroidWinding(t *testing.T) {
	ccw := geom.Polygon{{{X: 0, Y: 0}, {X: 2, Y: 0}, {X: 2, Y: 2}, {X: 0, Y: 2}, {X: 0, Y: 0}}}
	cw := geom.Polygon{{{X: 0, Y: 0}, {X: 0, Y: 2}, {X: 2, Y: 2}, {X: 2, Y: 0}, {X: 0, Y: 0}}}
	for _, p := range []geom.Polygon{ccw, cw} {
		c := geom.MultiPolygon{p}.Centroid()
		if math.Abs(c.X-1) > 1e-12 || math.Abs(c.Y-1) > 1e-12 {
			t.Errorf("centroid of the square [0,2]^2 = %+v, want (1,1)", c)
		}
	}
	// one hole, each ring reversed independently
	hole := geom.Path{{X: 1, Y: 1}, {X: 1, Y: 3}, {X: 3, Y: 3}, {X: 3, Y: 1}, {X: 1, Y: 1}}
	holeR := geom.Path{{X: 1, Y: 1}, {X: 3, Y: 1}, {X: 3, Y: 3}, {X: 1, Y: 3}, {X: 1, Y: 1}}
	shell := geom.Path{{X: 0, Y: 0}, {X: 10, Y: 0}, {X: 10, Y: 10}, {X: 0, Y: 10}, {X: 0, Y: 0}}
	c1 := geom.MultiPolygon{{shell, hole}}.Centroid()
	c2 := geom.MultiPolygon{{shell, holeR}}.Centroid()
	if math.Abs(c1.X-c2.X) > 1e-12 || math.Abs(c1.Y-c2.Y) > 1e-12 {
		t.Errorf("reversing the hole moves the centroid: %+v vs %+v", c1, c2)
	}
}
