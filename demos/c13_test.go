package demos

import (
	"testing"
	"time"

	"github.com/ctessum/geom"
)

// C13 defect: the curve simplifier never returns for curves of 1 or 2 vertices.
func TestC13SimplifyShortTerminates(t *testing.T) {
	for _, l := range []geom.LineString{
		{{X: 0, Y: 0}},
		{{X: 0, Y: 0}, {X: 1, Y: 1}},
	} {
		done := make(chan geom.Geom, 1)
		go func(l geom.LineString) { done <- l.Simplify(0.1) }(l)
		select {
		case g := <-done:
			if got := g.(geom.LineString); len(got) != len(l) || got[0] != l[0] || got[len(got)-1] != l[len(l)-1] {
				t.Errorf("Simplify(%v) = %v", l, got)
			}
		case <-time.After(2 * time.Second):
			t.Fatalf("Simplify of a %d-vertex line string does not terminate", len(l))
		}
	}
}

// C13 known finding (open): the last vertex is appended "regardless", so the
// segment that closes the simplified curve is never tested for intersections.
func TestC13SimplifyFinalSegmentCrosses(t *testing.T) {
	l := geom.LineString{{X: 5, Y: -0.5}, {X: 5, Y: 5}, {X: 0, Y: 5}, {X: 0, Y: 0}, {X: 5, Y: -0.9}, {X: 10, Y: 0}}
	got := l.Simplify(1).(geom.LineString)
	// the input is simple; in the output, segment (0,0)-(10,0) crosses segment (5,-0.5)-(5,5)
	want := geom.LineString{{X: 5, Y: -0.5}, {X: 5, Y: 5}, {X: 0, Y: 5}, {X: 0, Y: 0}, {X: 10, Y: 0}}
	if len(got) == len(want) {
		same := true
		for i := range got {
			same = same && got[i] == want[i]
		}
		if same {
			t.Errorf("simple input became self-intersecting: %v", got)
		}
	}
}
