package demos

import (
	"testing"

	"github.com/ctessum/geom"
)

// C15 defect: collection Similar did not compare member counts, so it was
// asymmetric (a ⊂ b: a.Similar(b) true, b.Similar(a) false).
func TestC15SimilarSymmetric(t *testing.T) {
	l1 := geom.LineString{{X: 0, Y: 0}, {X: 1, Y: 1}}
	l2 := geom.LineString{{X: 10, Y: 10}, {X: 11, Y: 11}}
	a := geom.MultiLineString{l1}
	b := geom.MultiLineString{l1, l2}
	if a.Similar(b, 1e-9) != b.Similar(a, 1e-9) {
		t.Errorf("MultiLineString.Similar asymmetric: %v vs %v", a.Similar(b, 1e-9), b.Similar(a, 1e-9))
	}
	if a.Similar(b, 1e-9) {
		t.Errorf("member counts differ but Similar is true")
	}
	r1 := geom.Path{{X: 0, Y: 0}, {X: 1, Y: 0}, {X: 1, Y: 1}, {X: 0, Y: 0}}
	r2 := geom.Path{{X: 5, Y: 5}, {X: 6, Y: 5}, {X: 6, Y: 6}, {X: 5, Y: 5}}
	if (geom.Polygon{r1}).Similar(geom.Polygon{r1, r2}, 1e-9) {
		t.Errorf("Polygon: ring counts differ but Similar is true")
	}
	if (geom.MultiPolygon{{r1}}).Similar(geom.MultiPolygon{{r1}, {r2}}, 1e-9) {
		t.Errorf("MultiPolygon: member counts differ but Similar is true")
	}
	if (geom.GeometryCollection{l1}).Similar(geom.GeometryCollection{l1, l2}, 1e-9) {
		t.Errorf("GeometryCollection: member counts differ but Similar is true")
	}
}
