package osm

// White-box demonstration for the C18 known finding (not part of /repo: copy this
// file into encoding/osm of a scratch worktree and run `go test -run TestSched`).
//
// In extract(), a node and the way that references it are handed to two
// different workers.  The two possible orders of their critical sections are
// replayed here sequentially with the real worker functions:
//
//   order A: processNode(N) then processWay(W)  → W is kept
//   order B: processWay(W) then processNode(N)  → W is dropped, and neither call
//            requests another pass, so extract() terminates without W.

import (
	"testing"

	"github.com/ctessum/geom"
	"github.com/paulmach/osm"
)

func newData() *Data {
	return &Data{
		Nodes:              make(map[osm.NodeID]*Node),
		Ways:               make(map[osm.WayID]*Way),
		Relations:          make(map[osm.RelationID]*Relation),
		dependentNodes:     make(map[osm.NodeID]empty),
		dependentWays:      make(map[osm.WayID]empty),
		dependentRelations: make(map[osm.RelationID]empty),
	}
}

func TestSchedKeepBounds(t *testing.T) {
	keep := KeepBounds(&geom.Bounds{Min: geom.Point{X: 0, Y: 0}, Max: geom.Point{X: 1, Y: 1}})
	n := &osm.Node{ID: 1, Lat: 0.5, Lon: 0.5}
	w := &osm.Way{ID: 7, Nodes: osm.WayNodes{{ID: 1}, {ID: 1}}}

	a := newData()
	a.processNode(n, keep, true)
	passA := a.processWay(w, keep, true)

	b := newData()
	passB := b.processWay(w, keep, true)
	b.processNode(n, keep, true)

	if len(a.Ways) != len(b.Ways) && !passB {
		t.Errorf("schedule A keeps %d way(s) (another pass: %v), schedule B keeps %d way(s) and requests no further pass: the result of ExtractXML/ExtractPBF with KeepBounds depends on which worker runs first",
			len(a.Ways), passA, len(b.Ways))
	}
}
