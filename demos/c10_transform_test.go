package demos

import (
	"errors"
	"testing"

	"github.com/ctessum/geom"
)

// C10 defect: MultiLineString/MultiPolygon.Transform asserted the member result
// before testing the error, so a failing vertex panicked instead of returning it.
func TestC10TransformErrorNotPanic(t *testing.T) {
	fail := func(x, y float64) (float64, float64, error) { return 0, 0, errors.New("boom") }
	for _, g := range []geom.Geom{
		geom.MultiLineString{{{X: 1, Y: 2}}},
		geom.MultiPolygon{{{{X: 1, Y: 2}}}},
	} {
		func() {
			defer func() {
				if r := recover(); r != nil {
					t.Errorf("%T.Transform panicked: %v", g, r)
				}
			}()
			if _, err := g.Transform(fail); err == nil {
				t.Errorf("%T.Transform: expected error", g)
			}
		}()
	}
}
