package demos

// C20 — SR.Equal must be a total relation: before the fix (4254d7b) it panicked
// for datum parameter lists of different length (7-parameter source against a
// 3-parameter destination, reached through NewTransform) and for nil nested
// pointers (two fresh NewSR values).

import (
	"testing"

	"github.com/ctessum/geom/proj"
)

func TestC20EqualDatumParamLengths(t *testing.T) {
	a, err := proj.Parse("+proj=longlat +ellps=WGS84 +towgs84=1,2,3 +no_defs")
	if err != nil {
		t.Fatal(err)
	}
	b, err := proj.Parse("+proj=longlat +ellps=WGS84 +towgs84=1,2,3,4,5,6,7 +no_defs")
	if err != nil {
		t.Fatal(err)
	}
	defer func() {
		if r := recover(); r != nil {
			t.Fatalf("panic: %v", r)
		}
	}()
	if a.Equal(b, 2) || b.Equal(a, 2) {
		t.Error("3- and 7-parameter datums reported Equal")
	}
	if tr, err := b.NewTransform(a); err != nil || tr == nil {
		t.Errorf("b.NewTransform(a): transformer nil=%v err=%v", tr == nil, err)
	}
}

func TestC20EqualFreshSR(t *testing.T) {
	defer func() {
		if r := recover(); r != nil {
			t.Fatalf("panic: %v", r)
		}
	}()
	if !proj.NewSR().Equal(proj.NewSR(), 2) {
		t.Error("two fresh spatial references are not Equal")
	}
}
