package demos

import (
	"math"
	"testing"

	"github.com/ctessum/geom/proj"
)

func mustParse(t *testing.T, s string) *proj.SR {
	sr, err := proj.Parse(s)
	if err != nil {
		t.Fatal(err)
	}
	return sr
}

// C09 defect: e3fn computes x³·(35/3072) with an integer quotient (= 0), so the
// sin(6φ) term of the meridian arc is missing: ~2 cm in northing at 45°.
func TestC09MeridianArcE3(t *testing.T) {
	src := mustParse(t, "+proj=longlat +ellps=WGS84 +datum=WGS84")
	dst := mustParse(t, "+proj=utm +zone=32 +ellps=WGS84 +datum=WGS84")
	tr, err := src.NewTransform(dst)
	if err != nil {
		t.Fatal(err)
	}
	_, north, err := tr(9, 45) // on the central meridian: northing = k0 · M(45°)
	if err != nil {
		t.Fatal(err)
	}
	// independent reference: numerical integration of the meridian radius of curvature
	const a, f = 6378137.0, 1 / 298.257223563
	e2 := f * (2 - f)
	phi := 45 * math.Pi / 180
	n := 200000
	h := phi / float64(n)
	g := func(p float64) float64 { s := math.Sin(p); return a * (1 - e2) / math.Pow(1-e2*s*s, 1.5) }
	sum := g(0) + g(phi)
	for i := 1; i < n; i++ {
		w := 2.0
		if i%2 == 1 {
			w = 4
		}
		sum += w * g(float64(i)*h)
	}
	want := 0.9996 * sum * h / 3
	if math.Abs(north-want) > 0.005 {
		t.Errorf("UTM northing at (9E, 45N) = %.4f m, reference %.4f m: off by %.1f mm (limit 5 mm)", north, want, 1000*(north-want))
	}
}

// C09 defect: +pm=<name> stores the table value (degrees) into a radian field.
func TestC09PrimeMeridianByName(t *testing.T) {
	src := mustParse(t, "+proj=longlat +ellps=WGS84 +datum=WGS84 +pm=paris")
	dst := mustParse(t, "+proj=longlat +ellps=WGS84 +datum=WGS84")
	tr, err := src.NewTransform(dst)
	if err != nil {
		t.Fatal(err)
	}
	lon, _, err := tr(0, 48)
	if err != nil {
		t.Fatal(err)
	}
	if math.Abs(lon-2.337229166667) > 1e-9 {
		t.Errorf("longitude 0 east of Paris = %.9f east of Greenwich, want 2.337229167", lon)
	}
}

// C09 known finding (open): between two 3/7-parameter datums the pipeline goes
// through WGS84 as a 2-D hop and drops the ellipsoidal height in between.
func TestC09DatumHopDropsHeight(t *testing.T) {
	a := mustParse(t, "+proj=longlat +ellps=bessel +towgs84=598.1,73.7,418.2,0.202,0.045,-2.455,6.7 +no_defs")
	b := mustParse(t, "+proj=longlat +ellps=intl +towgs84=-87,-98,-121 +no_defs")
	tr, err := a.NewTransform(b)
	if err != nil {
		t.Fatal(err)
	}
	lon, lat, err := tr(10, 50)
	if err != nil {
		t.Fatal(err)
	}
	// single geocentric chain: geodetic(bessel, h=0) → XYZ → Helmert to WGS84 → inverse 3-param → geodetic(intl)
	toXYZ := func(aa, es, lo, la, h float64) (x, y, z float64) {
		s, c := math.Sin(la), math.Cos(la)
		rn := aa / math.Sqrt(1-es*s*s)
		return (rn + h) * c * math.Cos(lo), (rn + h) * c * math.Sin(lo), (rn*(1-es) + h) * s
	}
	fromXYZ := func(aa, es, x, y, z float64) (lo, la float64) {
		lo = math.Atan2(y, x)
		p := math.Hypot(x, y)
		la = math.Atan2(z, p*(1-es))
		for i := 0; i < 20; i++ {
			s := math.Sin(la)
			rn := aa / math.Sqrt(1-es*s*s)
			h := p/math.Cos(la) - rn
			la = math.Atan2(z, p*(1-es*rn/(rn+h)))
		}
		return
	}
	es := func(rf float64) float64 { f := 1 / rf; return f * (2 - f) }
	const d2r = math.Pi / 180
	x, y, z := toXYZ(6377397.155, es(299.1528128), 10*d2r, 50*d2r, 0)
	const s2r = 4.84813681109535993589914102357e-6
	rx, ry, rz, m := 0.202*s2r, 0.045*s2r, -2.455*s2r, 1+6.7e-6
	x, y, z = m*(x-rz*y+ry*z)+598.1, m*(rz*x+y-rx*z)+73.7, m*(-ry*x+rx*y+z)+418.2
	x, y, z = x+87, y+98, z+121
	wlon, wlat := fromXYZ(6378388.0, es(297), x, y, z)
	dx := (lon - wlon/d2r) * d2r * 6378388 * math.Cos(50*d2r)
	dy := (lat - wlat/d2r) * d2r * 6378388
	if d := math.Hypot(dx, dy); d > 0.0001 {
		t.Errorf("two-hop result differs from the single Helmert chain by %.2f mm (limit 0.1 mm)", d*1000)
	}
}
