package demos

import (
	"testing"

	"github.com/ctessum/geom"
)

// C01 known finding (open): the external clipper returns nothing for XOR when
// an operand is empty or the bounding boxes are disjoint (trivial-case switches
// in polyclip-go@v1.1.0 clipper.go handle DIFFERENCE and UNION only).
func TestC01XOrDisjoint(t *testing.T) {
	a := geom.Polygon{{{X: 0, Y: 0}, {X: 1, Y: 0}, {X: 1, Y: 1}, {X: 0, Y: 1}, {X: 0, Y: 0}}}
	b := geom.Polygon{{{X: 5, Y: 5}, {X: 6, Y: 5}, {X: 6, Y: 6}, {X: 5, Y: 6}, {X: 5, Y: 5}}}
	x := a.XOr(b)
	if got := x.Area(); got != 2 {
		t.Errorf("XOr of two disjoint unit squares has area %v, want 2 (Union gives %v)", got, a.Union(b).Area())
	}
}
