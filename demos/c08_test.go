package demos

import (
	"math"
	"testing"
)

// C08 defect: the Krovak inverse computes longitude and latitude into its
// parameters and returns the unassigned results (0, 0) for every input.
func TestC08KrovakInverts(t *testing.T) {
	geo := mustParse(t, "+proj=longlat +ellps=bessel +towgs84=589,76,480,0,0,0,0 +no_defs")
	krovak := mustParse(t, "+proj=krovak +lat_0=49.5 +lon_0=24.83333333333333 +alpha=30.28813972222222 +k=0.9999 +x_0=0 +y_0=0 +ellps=bessel +towgs84=589,76,480,0,0,0,0 +units=m +no_defs")
	fwd, err := geo.NewTransform(krovak)
	if err != nil {
		t.Fatal(err)
	}
	inv, err := krovak.NewTransform(geo)
	if err != nil {
		t.Fatal(err)
	}
	x, y, err := fwd(14.4, 50.1) // Prague
	if err != nil {
		t.Fatal(err)
	}
	lon, lat, err := inv(x, y)
	if err != nil {
		t.Fatal(err)
	}
	if math.Abs(lon-14.4) > 1e-6 || math.Abs(lat-50.1) > 1e-6 {
		t.Errorf("inverse(forward(14.4, 50.1)) = (%v, %v)", lon, lat)
	}
}
