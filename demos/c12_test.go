package demos

import (
	"math"
	"sort"
	"testing"

	"github.com/ctessum/geom"
	"github.com/ctessum/geom/index/rtree"
)

// C12 defect: the k-nearest search prunes branches with the 1-NN MINMAXDIST
// bound, which only promises ONE object within that distance.
func TestC12KNearestPruning(t *testing.T) {
	tree := rtree.NewTree(2, 3)
	var pts []*geom.Point
	// a tight cluster near the query and a second cluster farther away,
	// inserted so that they end up under different branches
	for i := 0; i < 4; i++ {
		pts = append(pts, geom.NewPoint(float64(i)*0.01, 0))
	}
	for i := 0; i < 8; i++ {
		pts = append(pts, geom.NewPoint(100+float64(i), 100))
	}
	for _, p := range pts {
		tree.Insert(p)
	}
	q := geom.Point{X: 0, Y: 0}
	k := 8
	got := tree.NearestNeighbors(k, q)
	var all []float64
	for _, p := range pts {
		all = append(all, math.Hypot(p.X-q.X, p.Y-q.Y))
	}
	sort.Float64s(all)
	for i := 0; i < k; i++ {
		if got[i] == nil {
			t.Fatalf("result %d of %d is nil although the tree holds %d objects", i, k, len(pts))
		}
		p := got[i].(*geom.Point)
		if d := math.Hypot(p.X-q.X, p.Y-q.Y); math.Abs(d-all[i]) > 1e-9 {
			t.Errorf("neighbour %d is at distance %v, the %d-th smallest distance is %v", i, d, i, all[i])
		}
	}
}
