package demos

import (
	"math"
	"testing"
)

// C10 defect: the transformer closure rebinds its captured source reference to
// WGS84 during the first call that needs the datum hop, so the second call on
// the same transformer computes something else.
func TestC10TransformerHistoryIndependent(t *testing.T) {
	a := mustParse(t, "+proj=tmerc +lat_0=49 +lon_0=-2 +k=0.9996012717 +x_0=400000 +y_0=-100000 +ellps=airy +towgs84=446.448,-125.157,542.060,0.1502,0.2470,0.8421,-20.4894 +units=m +no_defs")
	b := mustParse(t, "+proj=longlat +ellps=intl +towgs84=-87,-98,-121 +no_defs")
	tr, err := a.NewTransform(b)
	if err != nil {
		t.Fatal(err)
	}
	x1, y1, err := tr(530000, 180000)
	if err != nil {
		t.Fatal(err)
	}
	x2, y2, err := tr(530000, 180000)
	if err != nil {
		t.Fatalf("first call succeeded with (%v, %v); the second call with the same input fails: %v", x1, y1, err)
	}
	if x1 != x2 || y1 != y2 {
		t.Errorf("the same transformer maps the same input to (%v, %v) on the first call and (%v, %v) on the second", x1, y1, x2, y2)
	}
}

// C10 defect: a source with a non-default axis order makes adjust_axis index
// point[2] of a two-element slice.
func TestC10AxisOrderNoPanic(t *testing.T) {
	defer func() {
		if r := recover(); r != nil {
			t.Errorf("transformer panicked: %v", r)
		}
	}()
	a := mustParse(t, "+proj=longlat +ellps=WGS84 +datum=WGS84 +axis=wnu")
	b := mustParse(t, "+proj=longlat +ellps=WGS84 +datum=WGS84")
	tr, err := a.NewTransform(b)
	if err != nil {
		t.Fatal(err)
	}
	lon, lat, err := tr(10, 20) // 10 west
	if err != nil {
		t.Fatal(err)
	}
	if math.Abs(lon+10) > 1e-9 || math.Abs(lat-20) > 1e-9 {
		t.Errorf("(10 west, 20 north) → (%v, %v), want (-10, 20)", lon, lat)
	}
}
