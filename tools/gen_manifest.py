#!/usr/bin/env python3
"""Regenerates /verif/MANIFEST.json from the table below.  A property is claimed
only when `armed` is True (its rules exist in checker/ and are green or triaged
on the unchanged tree); otherwise it is listed under not_applicable with the
reason.  Run: python3 tools/gen_manifest.py"""
import json, os, subprocess

HERE = os.path.dirname(os.path.dirname(os.path.abspath(__file__)))

P = {}
def prop(id, armed, technique, text, note, na_reason=None):
    P[id] = dict(armed=armed, technique=technique, text=text, note=note, na=na_reason)

NOT_YET = "rules designed in DESIGN.md but not armed in the checker yet; nothing is claimed until they are"

ME = "model evaluation: the repository's own source is interpreted by the checker's abstract interpreter (coordinates as abstract ranks or symbols, integers/strings/structure concrete, everything outside the repository replaced by a model) and the values that come out are compared with the specification"

prop("C01", True,
     ME + "; the external clipper is replaced by a recorder; abstract interpretation over all weak orderings of box coordinates with nondeterministic answers for questions asked of an opaque polygon; an AST rule over the dependency's trivial-case switches",
     "Decides the geom-side plumbing around the external clipper and the rectangle shortcuts: (R1–R3) for Polygon, MultiPolygon and *Bounds receivers and arguments the clipper receives the right operation constant, exactly the receiver's rings as subject and the argument's as clipping operand, and its answer comes back with every ring closed once; (R4) box-box intersection, Within(*Bounds), Polygons() and every shortcut result of the four *Bounds operations follow from the box relation alone, for every weak ordering (exhaustive) and every answer the polygon could give; (R5) the clipper's trivial-case switches treat XOR like UNION (read from the dependency's source).",
     "Not decided: the sweep-line clipper itself (external numerical algorithm), hence the point-set and area identities for overlapping operands. Two open known findings (R5: XOR of disjoint/empty operands is empty in polyclip-go v1.1.0). Model sizes: 1–2 members, 1–2 rings.",
     None)
prop("C02", True,
     ME + "; the two segment predicates and the per-vertex classifier are replaced by oracles whose answers are enumerated; exhaustive abstract interpretation over orderings for the box pre-filter and for the comparison-only prefixes of the two segment predicates",
     "(R1) with every oracle answer false each segment predicate is asked about every segment of every ring exactly once, the closing pair included; (R2) a single 'on the segment' answer gives OnEdge at once, crossings toggle Inside/Outside summed over rings and member polygons; (R3) the per-ring pre-filter is the closed box test of the ring's own bounds (exhaustive over orderings); (R4) the vertex-wise receivers consult every vertex/member and return Outside exactly when one is classified Outside; (R5) every answer the two segment predicates give by comparisons alone equals the order-level geometric truth for all orderings of {p,a,b} per axis.",
     "Not decided: the final slope comparisons of the two segment predicates (division, rounding), i.e. the classification of points that survive the order-level exits. Thin by nature.",
     None)
prop("C03", True,
     ME + " with symbolic arithmetic: results are normal-form polynomials / rational functions / sums of square roots in the vertex coordinates and are compared with the specification as identities; branches on computed values follow a stated reference figure; path-sensitive comparison-fact dataflow for the clamped projection; an axis (X/Y) type rule on comparisons",
     "(R1) Polygon.Area and op.Area equal the shoelace area of shells minus holes as a polynomial identity for a triangle, a pentagon and a shell with one and two holes under every per-ring reversal, start vertex and closed/unclosed spelling; Length is the sum of segment lengths and Distance the least point-to-segment distance over all consecutive pairs; (R2) Polygon.Centroid, op.Centroid and MultiPolygon.Centroid equal the area-weighted mean of the ring centroids as rational functions under the reversals and rotations the property names; (R3) the Multi* measures sum / minimise over every member whatever its winding; (R4) the point-to-segment projection parameter is in [0,1] at the foot point and its divisor is non-zero on every path; (R5) no comparison in geom/op relates an X to a Y ordinate.",
     "Not decided: floating-point rounding (the identities are over the reals), Buffer's trigonometry, figures whose branch decisions differ from the reference figure (one shell with up to two holes, two members), numerical agreement beyond identity of the formulas.",
     None)
prop("C04", True,
     ME + "; abstract interpretation over the order domain (all weak orderings of the coordinates, exhaustive) for the box algebra; an axis (X/Y) type rule",
     "(R1) Extend/extendPoint are the lattice join with empty operands as identities, NewBounds the join identity, Overlaps/Empty/Copy and box-box Intersection match their order-level specification for every weak ordering of the eight coordinates incl. the canonical empty box; (R2) Len() and Bounds() of all eight types are the vertex count and the smallest box, on model geometries with empty members in every position; (R3) Points() yields exactly Len() vertices in storage order without panicking on the same geometries; (R5) no ordinate comparison in geom, index/rtree and op relates X to Y.",
     "Not decided: NaN and -0 behaviour of math.Min/Max; geometries larger than the models (up to 3 members per level, runs of empty members).",
     None)
prop("C05", True,
     ME + " with encoding/binary replaced by a typed stream; SSA provenance analysis for result freshness; AST rule for the hex wrapper",
     "(R1) for model geometries of all seven types and both byte orders the stream wkb.Write produces is the OGC layout (order byte, code, counts = members that follow, members complete WKB of their own, every multi-byte item in the requested order); (R2) Read on each reference stream returns the geometry and consumes the stream exactly, members in the other byte order decode correctly, point arrays longer than the allocation chunk come back complete; (R3) truncated messages, unknown codes, bad flags and members of the wrong kind are rejected; (R4) hex is EncodeToString/DecodeString around exactly wkb.Encode/Decode; (R5) the returned bytes are freshly allocated.",
     "Not decided: encoding/binary's own behaviour (trusted: bit-exact float64 transfer); hence NaN payload preservation follows from that trust. Model sizes: up to 3 members per level, point arrays of 1024/1025/2049.",
     None)
prop("C06", True,
     ME + " with encoding/json replaced by a tree model; SSA provenance analysis for result freshness; AST rule excluding custom JSON hooks",
     "(R1) each of the six types is written with its RFC 7946 name and coordinates nested exactly as required and decodes back to the same geometry, on small geometries incl. empty members; (R2) malformed documents (wrong nesting, positions of 0/1/3 numbers, non-numbers, unknown types, nil) give an error, never a panic or a geometry; (R4) Encode returns json.Marshal's error and an error for unsupported types; (R5) no type of the package customises its JSON/text form; (R6) returned bytes are fresh.",
     "Not decided: encoding/json's float formatting/parsing (trusted shortest round trip).",
     None)
prop("C07", True,
     ME + " of the WKB and GeoJSON decoders on malformed inputs (typed-stream and tree models shared with C05/C06); path-sensitive error-before-use dataflow",
     "(R1) every truncation of the model messages, counts of 2^28 with no or little payload, unknown codes, invalid flags and members of the wrong kind give an error, nothing panics and no make is sized by an announced count above the chunk limit; (R2) malformed GeoJSON documents give an error, never a panic; (R3) no decoder function uses a value before testing the error it was returned with; (R4) writer and reader agree on the layout, so a decoded value re-encodes to an accepted message.",
     "Not decided: total memory as a multiple of input length beyond 'no allocation sized by an unchecked count'; encoding/json's and encoding/hex's own behaviour.",
     None)
prop("C08", True,
     "SSA backward data-dependence of closure results (through phis, allocs, field loads and repository helpers), registry table extraction, stage/role classification of the NewTransform pipeline (following helpers), scenario replay of the cone-sign variable",
     "(R1) in all forward/inverse closures of the registered projections every success return yields coordinates that depend on the inputs; (R2) the NewTransform pipeline is mirrored around the datum shift; (R3) all eight projections are registered with constructors yielding both closures; (R4) in each inverse the longitude depends on Long0 and the latitude does not; (R5) in the conic family the polar angle is taken of coordinates multiplied by ±1 following the sign of the cone constant. Necessary for inverse(forward(p)) = p.",
     "Not decided: the projection formulas themselves (three independently seeded formula changes — an LCC scale term, a transverse-Mercator sign, an Albers cone constant — are not reported), convergence of the iterative solvers, tolerance figures.",
     None)
prop("C09", True,
     "table agreement between Go composite literals (constants folded by go/types) and the bundled proj4js 2.3.12 sources read by a small JS-subset reader; typed-constant rule for integer division in float context; " + ME + " of proj.Parse with a symbolic parameter value for the angle units; SSA operand-closure and signed sum-of-products extraction for the Helmert shift; a two-point e/e² type system over call sites; call-order rule for the datum shifts",
     "(R1, complete for this clause) all ellipsoids, datums, prime meridians, units and named numeric constants equal the bundled proj4js source as float64; (R2) no integer-constant quotient is used as a float coefficient; (R3) every PROJ.4 key that proj4js multiplies by D2R stores P × deg2rad once and no other numeric key does, incl. named prime meridians; (R4) no 2-D Transformer hop between two datum shifts; (R6) the 3/7-parameter datum shifts are simultaneous, antisymmetric and inverse to each other in form; (R7) eccentricity typing e / e²; (R8) the NewTransform pipeline applies each reference's parameters once, mirrored.",
     "Not decided: agreement of the projection formulas with proj4js (only their parameters and tables); one open known finding (R4: height dropped between two datum shifts, 0.93 mm).",
     None)
prop("C10", True,
     ME + " of the eight Transform methods with a host transformer (incl. failure at the k-th vertex) and of the axis adjustment; SSA effect analysis of the transformer closures (captured-variable stores, idempotence of per-call stores, save/restore); path-sensitive error-before-use dataflow",
     "(R1) no per-call state survives in a Transformer: closures never assign captured variables or store argument-dependent values outside themselves, and every store the constructors/helpers make to a reference is a guarded lazy initialisation, a normalising overwrite from stable values or a save/restore; (R2) the axis adjustment never indexes beyond a 2-element coordinate slice; (R3) a member result returned with an error is never used before the error is tested; (R4) Transform with nil returns the receiver, otherwise a fresh value of the receiver's shape whose i-th vertex is T(i-th vertex), T called once per vertex in order, the receiver untouched, a failure at any vertex reported.",
     "Not decided: numerical equality with a fresh transformer (follows from 'no state survives' assuming deterministic float arithmetic).",
     None)
prop("C11", True,
     ME + " of NewTree/Insert/Delete/SearchIntersect/Size/Depth over histories of boxes with rank coordinates: envelopes are computed exactly by the repository code, the comparisons of the insertion heuristics (areas, enlargements) are symbolic and are resolved once by the geometry and several times by arbitrary consistent orders; exhaustive abstract interpretation of the box relations over all weak orderings; path-sensitive AST dataflow for size accounting and overflow tests",
     "After every operation of three histories (fill, scattered drain to empty and refill, interleaved deletes of absent objects and duplicates, 36 boxes to height three) under several branching parameters and heuristic resolutions: (R1) leaves at one depth = Depth(), no dangling child, no panic; (R2) parent links follow entries; (R3) every entry's box is the exact envelope of its subtree; (R4) Size() and the stored multiset equal the history's, Delete true/false as specified and without effect when false (plus the every-path rule for size++/--); (R5) fan-out ≤ MaxChildren (plus the every-path overflow test); (R6) SearchIntersect equals a scan for disjoint, touching, overlapping, degenerate and all-covering queries, and every box relation of the package is closed intersection / containment / join in all orderings.",
     "Not decided: histories longer or differently shaped than the three modelled; MinChildren fill (not part of the property). The model run found the drain-and-refill panic repaired in a139d91 (fixed entry in known_findings.json).",
     None)
prop("C12", True,
     ME + " of NearestNeighbor/NearestNeighbors on hand-built trees with the two point-to-box bounds replaced by tables, over every weak ordering of the object distances and every admissible choice of inner bounds; the bound functions themselves compared with MINDIST² / MINMAXDIST² as polynomials in symbolic coordinates; squared/linear unit dataflow",
     "(R1) NearestNeighbors(k,p) returns k slots, the first min(k,n) holding distinct stored objects at the k smallest distances in non-decreasing order, for k ∈ {1,2,n,n+1}; (R2) NearestNeighbor returns the object at the least distance; (R3) with ties it returns one of the nearest (no strict exclusion by MINMAXDIST); (R4) no comparison mixes squared and linear distances; (R5) premise: exact envelopes and parent links after every Insert/Delete (C11 model); (R6) each point-to-box function equals MINDIST² or MINMAXDIST² (Roussopoulos et al., def. 4) for all 16 placements of the point.",
     "Not decided: trees deeper than two inner levels or with more than five objects in the quick tier (the thorough tier adds a four-leaf tree).",
     None)
prop("C13", True,
     ME + " of LineString.Simplify and Polygon.Simplify with the point-to-segment distance and the simplicity test replaced by oracles, every combination of answers to the questions actually asked enumerated depth-first; comparison-fact dataflow for the clamped projection; AST rules for the member methods and the exactness of the crossing test",
     "On curves of 0–5 vertices (thorough 6; up to 7 with the simplicity oracle fixed) and curves with a repeated vertex: (R1) every run returns, none panics; (R2) the result is a fresh order-preserving subsequence that starts with the first and ends with the last vertex, the input unchanged; (R3) every dropped vertex's distance to the replacing segment was asked and answered within tolerance, and every replacing segment was tested against the kept output, the rest of the curve and the other curves; (R4) Multi* members are simplified independently into a fresh result; (R5) the deviation is the distance to the segment (clamped, no 0/0); (R6) the crossing test behind the simplicity oracle uses tolerance 0.",
     "One open known finding (R3: the segment reaching the last vertex is appended untested; a simple 6-vertex line becomes self-intersecting). Not decided: the simplicity test's own geometry beyond R6.",
     None)
prop("C14", True,
     ME + " with the external clipper replaced by a recorder (shared with C01); AST rule over the dependency's segment loop; implication check of conditional exits against the box relation",
     "Thin by nature (the clipping is done by the external clipper): (R1) the line(s) become the subject contours one-to-one, the polygon's rings the clipping operand, the mode is CLIPLINE; (R2) every returned piece is the clipper's contour without the one closing vertex the converter appends; (R3) in CLIPLINE mode the clipper does not add the subject's closing segment; (R4) a conditional exit before the clipper is allowed only when the closed boxes share no point and then returns an empty result; (R5) the conversion helpers convert every contour, ring and vertex at its own index.",
     "Not decided: everything the external clipper computes (that pieces lie on L and inside P, total length, emptiness).",
     None)
prop("C15", True,
     ME + " of Similar on model pairs for each of the eight types in both argument orders; AST rule for the scalar tolerance test",
     "(R1) Similar is true for a perturbed copy, also with members reordered and closed rings rotated; false when a vertex is displaced, a member or vertex added or removed, a line reversed, or a duplicated member stands against a different one; and symmetric in all these cases; (R2) false for every ordered pair of different geometry types; (R3) the scalar test is |a−b| < tol, strict, bounding both signs.",
     "Not decided: pairs larger than the models (up to 3 members / 5 vertices), near-tolerance ambiguities between several members.",
     None)
prop("C16", True,
     ME + " of the shapefile package at the go-shp boundary: reflect is described by go/types (struct fields, tags, kinds, assignability), go-shp by a file model (a record is read back as the file's shape type with the counts it declares; attributes come back as NUL-padded text), strings/bytes/strconv helpers are evaluated on the concrete texts; path rules for the row cursor and the column lookup",
     "For both NewEncoder/Encode/DecodeRow and NewEncoderFromFields/EncodeFields/DecodeRowFields: (R1) each supported geometry type is written into a file of the matching shape type and comes back as the expected geom type; (R2) geometries of 1–6 parts with 0–7 vertices (empty parts included) come back part by part, vertices in order, declared counts consistent; (R3) rings come back closed exactly when needed, boxes as five-vertex rectangles; (R4) int/float64/string fields become columns of the documented widths and come back equal (50-byte strings, NUL padding); (R5) columns are matched by lower-cased tag, else name, case-insensitively, unmatched fields untouched; (R6) records come back in order, each with its own row's attributes, then end of file and a nil Error().",
     "Not decided: go-shp's own file I/O and dBase number formatting (modelled, not analysed), float text round trip to 10 decimals beyond the column widths, null shapes.",
     None)
prop("C17", True,
     ME + " of wkt.Encode with strconv's float formatting replaced by coordinate tokens; the emitted text is parsed by an OGC WKT recogniser held in the checker; SSA provenance analysis for result freshness",
     "(R1) for each of the five supported types and all member-count combinations 1..3 per nesting level the emitted text is accepted by the OGC WKT grammar with the right member counts at every level and every coordinate once, in storage order, X before Y; (R2) every float formatting performed uses a format in eEfgG, precision -1, 64 bits (shortest round-tripping text); (R3) exactly Point, LineString, MultiLineString, Polygon and MultiPolygon are encoded, everything else is an error; (R4) the text is freshly allocated.",
     "Not decided: strconv's contract (trusted).",
     None)
prop("C18", True,
     "lockset analysis (path-sensitive must-hold locksets with defer, field→mutex table derived from the struct), lock-order graph over the package call graph, flow facts for the pass barrier and the pass flag (captured variable or mutex-guarded field reached through methods), reporter chains for dependency registration, fixpoint-completeness rule from the KeepFuncs' read set, sibling summary comparison",
     "For all schedules of the worker pool (the quantifier tests cannot reach): (R1) every access to the six guarded maps in code reachable from the errgroup workers (incl. the KeepFunc closures) holds the map's mutex in the right mode, the another-pass flag is written only under its mutex and untouched by the spawner between Go and Wait; (R2) every acquire is released on all exits and the acquisition-order graph incl. callee acquisitions is acyclic; (R3) all 8 dependency registrations set the another-pass result and no caller discards it; (R4) every concurrent store into a set that a KeepFunc consults must request another pass (fixpoint completeness); (R5) process* and *NoCopy twins have the same guard→effect summary.",
     "Not decided: minimality of the result, equality with a sequential model, termination of the pass loop. Three open known findings under R4 (KeepBounds reads Nodes/Ways/Relations while workers fill them; schedule replayed in demos/osm_whitebox).",
     None)
prop("C19", True,
     "type-level conformance check (go/types.Implements of the AStar graph argument against gonum's path.Weighted), max-accumulator shape rule on every store of the heuristic's divisor, table/loop rules for weights and totals, pairing rule for adjacency stores",
     "(R1) the static type of the graph passed to gonum path.AStar implements path.Weighted — the optional interface AStar asserts before silently falling back to unit costs (near-misses are reported with both signatures); (R2) the field the time heuristic divides by is a running maximum of link speeds at every store, and every value the heuristic returns is 0, the straight-line distance (Distance option) or that distance over the maximum speed (Time option); (R3) Weight returns the time/length field per option with no numeric default, time = length/speed, the route loop covers every consecutive node pair and sums the appended link's own length and time; (R4) adjacency stores are mirrored.",
     "Not decided: optimality of gonum's A* itself, node snapping tolerance (newNode / op.PointEquals), behaviour for disconnected nodes.",
     None)
prop("C20", True,
     ME + " of proj.Parse with symbolic parameters: every number in the PROJ.4 and OGC WKT texts is a placeholder that becomes a symbol, unit conversions and DeriveConstants are carried as normal-form polynomials, branches on parameter values follow a stated reference valuation (an ordinary ellipsoid); the definition registry is read after interpreting the package's init functions; SR.Equal is interpreted on parsed references with reflection described by go/types; path rules for NewTransform's identity shortcut and the parse loops",
     "(R1) the WKT and PROJ.4 texts of the same system (five WKT projection names, centre/azimuth and central_parallel variants, a geographic system) store every parameter in the same SR field; (R2) angles come out as symbol × deg2rad from either spelling, ratios bare, the WKT false origin as symbol × declared unit whatever the clause order, UNIT reaches ToMeter, SPHEROID[a,1/f] and +a +rf give identical derived constants; (R3) both projection names map to the same constructor; every registered name is a definition equal to a fresh parse of its text or an alias bound to the identical *SR; (R4) NewTransform returns nil exactly where Equal is true; (R5) Equal is true for two parses of one text and false — never a panic — when any float, NaN marker, string, flag, datum-shift value or length, or nested pointer differs; (R6) parameters are applied in textual order; (R7) datum-shift lists keep every value in order.",
     "Not decided: micrometre agreement of the resulting transformers; parameter regions that take other branches than the reference valuation (spheres, rf = 0); datum renaming heuristics.",
     None)

def main():
    checks, na = [], []
    for id in sorted(P):
        p = P[id]
        if not p["armed"]:
            na.append({"property_id": id, "reason": p["na"]})
            continue
        checks.append({
            "property_id": id,
            "quick_cmd": "./run.sh %s quick" % id,
            "thorough_cmd": "./run.sh %s thorough" % id,
            "evidence_file": "/verif/evidence/%s.json" % id,
            "replay_cmd_template": "./bin/geomcheck replay {path}",
            "engine": "geomcheck",
            "level_claimed": {"category": "other", "text": p["text"], "design_ref": "DESIGN.md §10 and Appendix D, " + id},
            "level_note": p["note"],
            "technique": "static analysis: " + p["technique"],
        })
    m = {
        "version": 1,
        "setup_cmd": "cd /verif/checker && GOFLAGS=-mod=mod GOPROXY=off GOSUMDB=off GOTOOLCHAIN=local CGO_ENABLED=0 go build -o /verif/bin/geomcheck .",
        "hooks": {
            "guard": "verif",
            "enable": "none needed: static analysis reads /repo's source; no hook or instrumentation commits exist",
            "baseline_off_cmd": "cd /repo && GOFLAGS= GOPROXY=off GOSUMDB=off GOTOOLCHAIN=local go test -vet=off -count=1 $(go list ./... | grep -v /carto)",
            "source_commits": [],
            "add_only": True,
        },
        "engines": [{
            "name": "geomcheck",
            "path": "/verif/checker",
            "serves_properties": [c["property_id"] for c in checks],
            "kind_free_text": "repository-specific static analyser (go/packages + go/types + structured AST dataflow + go/ssa + call graph, x/tools v0.29.0) with its own abstract interpreter for Go source (order domain, symbolic polynomials, modelled library boundary); never builds or executes code from /repo",
        }],
        "checks": checks,
        "not_applicable": na,
        "notes": "All claims are at level 'other': necessary conditions of each property decided statically from /repo's current source — structural rules and model evaluation on bounded abstract inputs; see DESIGN.md §0 and §10. Known findings: /verif/known_findings.json.",
    }
    with open(os.path.join(HERE, "MANIFEST.json"), "w") as f:
        json.dump(m, f, indent=1)
        f.write("\n")
    try:
        import jsonschema
        jsonschema.validate(m, json.load(open("/root/.vp/MANIFEST.schema.json")))
        print("MANIFEST.json valid; claimed:", [c["property_id"] for c in checks])
    except ImportError:
        print("jsonschema not importable here; wrote MANIFEST.json unchecked")

main()
