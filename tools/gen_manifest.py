#!/usr/bin/env python3
"""Regenerates /verif/MANIFEST.json from the table below.  A property is claimed
only when `armed` is True (its rules exist in checker/ and are green or triaged
on the unchanged tree); otherwise it is listed under not_applicable with the
reason.  Run: python3 tools/gen_manifest.py"""
import json, os, subprocess

HERE = os.path.dirname(os.path.dirname(os.path.abspath(__file__)))

P = {}
def prop(id, armed, technique, text, note, na_reason=None):
    P[id] = dict(armed=armed, technique=technique, text=text, note=note, na=na_reason)

NOT_YET = "rules designed in DESIGN.md but not armed in the checker yet; nothing is claimed until they are"

ME = "model evaluation: the repository's own source is interpreted by the checker's abstract interpreter (coordinates as abstract ranks or symbols, integers/strings/structure concrete, everything outside the repository replaced by a model) and the values that come out are compared with the specification"

prop("C01", True,
     ME + "; the external clipper is replaced by a recorder; abstract interpretation over all weak orderings of box coordinates with nondeterministic answers for questions asked of an opaque polygon; an AST rule over the dependency's trivial-case switches",
     "Decides the geom-side plumbing around the external clipper and the rectangle shortcuts: (R1–R3) for Polygon, MultiPolygon and *Bounds receivers and arguments the clipper receives the right operation constant, exactly the receiver's rings as subject and the argument's as clipping operand, and its answer comes back with every ring closed once; (R4) box-box intersection, Within(*Bounds), Polygons() and every shortcut result of the four *Bounds operations follow from the box relation alone, for every weak ordering (exhaustive) and every answer the polygon could give; (R5) the clipper's trivial-case switches treat XOR like UNION (read from the dependency's source).",
     "Not decided: the sweep-line clipper itself (external numerical algorithm), hence the point-set and area identities for overlapping operands. Two open known findings (R5: XOR of disjoint/empty operands is empty in polyclip-go v1.1.0). Model sizes: 1–2 members, 1–2 rings.",
     None)
prop("C02", True,
     ME + "; the two segment predicates and the per-vertex classifier are replaced by oracles whose answers are enumerated; exhaustive abstract interpretation over orderings for the comparison-only prefixes of the two segment predicates",
     "(R1) with every oracle answer false each segment predicate is asked about every segment of every ring exactly once, the closing pair included; (R2) a single 'on the segment' answer gives OnEdge at once, crossings toggle Inside/Outside summed over rings and member polygons; (R3) a ring is never skipped when the point is inside or on its box: the same runs on rings whose box the point only touches or enters only thanks to the last vertex of an unclosed ring, and on polygons whose rings come in an unusual order (a ring away from the point listed before the ring around it, an empty first ring, a member away from the point first); (R4) the vertex-wise receivers consult every vertex/member and return Outside exactly when one is classified Outside; (R5) every answer the two segment predicates give by comparisons alone equals the order-level geometric truth for all orderings of {p,a,b} per axis.",
     "Not decided: the final slope comparisons of the two segment predicates (division, rounding), i.e. the classification of points that survive the order-level exits. Thin by nature.",
     None)
prop("C03", True,
     ME + " with symbolic arithmetic: results are normal-form polynomials / rational functions / sums of square roots in the vertex coordinates and are compared with the specification as identities; branches on computed values follow a stated reference figure or position; an axis (X/Y) type rule on comparisons",
     "(R1) Polygon.Area and op.Area equal the shoelace area of shells minus holes as a polynomial identity for a triangle, a pentagon and a shell with one and two holes under every per-ring reversal, start vertex and closed/unclosed spelling; Length is the sum of segment lengths and the square of Distance the least squared point-to-segment distance over all consecutive pairs; (R2) Polygon.Centroid, op.Centroid and MultiPolygon.Centroid equal the area-weighted mean of the ring centroids as rational functions under the reversals and rotations the property names; (R3) the Multi* measures sum / minimise over every member whatever its winding; (R4) every (Point,Point,Point) float64 function of geom and op that behaves like a distance is evaluated in 14 positions of the point relative to the segment (behind the start, beyond the end, beside the interior, on both perpendiculars through the ends, on an end, on the segment, a degenerate segment, a reversed and a vertical one): its square equals the squared distance to the nearest point of the segment as a rational term, and 0/0 is never formed; (R5) no comparison in geom/op relates an X to a Y ordinate.",
     "Not decided: floating-point rounding (the identities are over the reals), Buffer's trigonometry, figures whose branch decisions differ from the reference figure (one shell with up to two holes, two members), numerical agreement beyond identity of the formulas.",
     None)
prop("C04", True,
     ME + "; abstract interpretation over the order domain (all weak orderings of the coordinates, exhaustive) for the box algebra; an axis (X/Y) type rule",
     "(R1) Extend/extendPoint are the lattice join with empty operands as identities, NewBounds the join identity, Overlaps/Empty/Copy and box-box Intersection match their order-level specification for every weak ordering of the eight coordinates incl. the canonical empty box; (R2) Len() and Bounds() of all eight types are the vertex count and the smallest box, on model geometries with empty members in every position; (R3) Points() yields exactly Len() vertices in storage order without panicking on the same geometries; (R5) no ordinate comparison in geom, index/rtree and op relates X to Y.",
     "Not decided: NaN and -0 behaviour of math.Min/Max; geometries larger than the models (up to 3 members per level, runs of empty members).",
     None)
prop("C05", True,
     ME + " with encoding/binary replaced by one abstract stream that typed transfers (binary.Read/Write) and raw ones (io.ReadFull, Write, ByteOrder.UintNN/PutUintNN, math.Float64bits) share; the hexadecimal wrapper run on the real bytes of the model messages with encoding/hex, strings.Builder and bytes.Buffer evaluated on concrete bytes; context-sensitive SSA provenance analysis (followed through function-typed parameters and closures) for result freshness",
     "(R1) for model geometries of all seven types and both byte orders the stream wkb.Write produces is the OGC layout (order byte, code, counts = members that follow, members complete WKB of their own, every multi-byte item in the requested order); (R2) Read on each reference stream returns the geometry and consumes the stream exactly, members in the other byte order decode correctly, point arrays longer than the allocation chunk come back complete; (R3) truncated messages, unknown codes, bad flags and members of the wrong kind are rejected; (R4) hex.Encode returns the lower-case hexadecimal text of exactly wkb.Encode's stream for the same geometry and byte order and an error where wkb.Encode gives one; hex.Decode returns what wkb.Decode returns on the bytes DecodeString gives, and an error — never a panic — for a text that is not hexadecimal; (R5) the returned bytes are freshly allocated.",
     "Not decided: encoding/binary's and encoding/hex's own behaviour (trusted: bit-exact float64 transfer, lower-case digits); hence NaN payload preservation follows from that trust. Model sizes: up to 3 members per level, point arrays of 1024/1025/2049.",
     None)
prop("C06", True,
     ME + " with encoding/json replaced by a tree model; SSA provenance analysis for result freshness; AST rule excluding custom JSON hooks",
     "(R1) each of the six types is written with its RFC 7946 name and coordinates nested exactly as required and decodes back to the same geometry, on small geometries incl. empty members; (R2) malformed documents (wrong nesting, positions of 0/1/3 numbers, non-numbers, unknown types, nil) give an error, never a panic or a geometry; (R4) Encode returns json.Marshal's error and an error for unsupported types; (R5) no type of the package customises its JSON/text form; (R6) returned bytes are fresh.",
     "Not decided: encoding/json's float formatting/parsing (trusted shortest round trip).",
     None)
prop("C07", True,
     ME + " of the WKB and GeoJSON decoders on malformed inputs (typed-stream and tree models shared with C05/C06); path-sensitive error-before-use dataflow",
     "(R1) every truncation of the model messages, counts of 2^28 with no or little payload, unknown codes, invalid flags and members of the wrong kind give an error, nothing panics and no make is sized by an announced count above the allowance (4096 elements or 64 KiB); (R2) malformed GeoJSON documents give an error, never a panic; (R3) no decoder function uses a value before testing the error it was returned with; (R4) writer and reader agree on the layout, so a decoded value re-encodes to an accepted message.",
     "Not decided: total memory as a multiple of input length beyond 'no allocation sized by an unchecked count'; encoding/json's and encoding/hex's own behaviour.",
     None)
prop("C08", True,
     ME + " with symbolic parameters and positions: the NewTransform pipeline is interpreted with the projection members and the datum shift left as named operations; the inverse members of the registered projections are interpreted for northern and southern standard parallels; scalar helpers are classified by behaviour; the forward and inverse members of every registered projection are evaluated to terms (dependence on inputs and central meridian, longitude round trip as an identity)",
     "(R1) the terms both members of every registered projection return depend on their inputs; (R2) for eleven pairs of references (units, prime meridians, axis orders, geographic and projected, a datum shift on one or both sides) the term NewTransform computes for (x, y) equals: source unit, source inverse member, source prime meridian, datum shift (through WGS84 in two legs where that route is taken), destination prime meridian, destination forward member, destination unit, axis flips on their own side; (R3) all eight projections are registered with constructors yielding both members; (R4) in each inverse the longitude depends on Long0 and the latitude does not; (R5) in every projection whose longitude is a polar angle scaled by a quantity that follows the standard parallels, that angle is taken of offsets that change sign together with the cone constant; (R6) every angle-normalising helper reachable from the constructors is the identity on (−π, π), has period 2π and is odd; (R7) for the projections whose longitude has a closed form (longlat, merc, lcc, aea, eqdc) the inverse evaluated on the forward member's own terms returns the longitude as a term, for northern and southern parallels. Necessary for inverse(forward(p)) = p.",
     "Not decided: the projection formulas themselves (of three independently seeded formula changes, the LCC scale term is now reported by R7 and the Albers cone constant by C09.R10; a hemisphere choice inside the spherical transverse-Mercator inverse is not), the latitude round trip, convergence of the iterative solvers, tolerance figures.",
     None)
prop("C09", True,
     "table agreement between the package's tables as they stand after initialisation (read through the interpreter) and the bundled proj4js 2.3.12 sources read by a small JS-subset reader; typed-constant rule for integer division in float context; " + ME + " of proj.Parse with symbolic parameter values (angle units, datum classification), of the geocentric shift functions (found by behaviour) against the Helmert formulas as rational terms, of the whole datum shift with the geodetic↔geocentric conversions as named operations, and of the NewTransform pipeline; a two-point e/e² type system over call sites",
     "(R1, complete for this clause) all ellipsoids, datums, prime meridians, units and named numeric constants equal the bundled proj4js source as float64; (R2) no integer-constant quotient is used as a float coefficient; (R3) every PROJ.4 key that proj4js multiplies by D2R stores P × deg2rad once and no other numeric key does, incl. named prime meridians; (R4) the height produced by one datum shift reaches the next; (R6) the 3- and 7-parameter shifts to and from WGS84 equal the Helmert formulas in the stored parameters, and between a 7-parameter and a 3-parameter datum the conversion back to geodetic coordinates is given exactly from₃(to₇(G)) of the source's geocentric position G, all three ordinates travelling through; (R7) eccentricity typing e / e²; (R8) the pipeline applies each reference's unit, prime meridian and member once, mirrored around the shift (eleven pairs, shared with C08.R2); (R9) a +towgs84 list is classified and converted (arc seconds, ppm) as proj4js does; (R10) with a single standard parallel the cone constant of every conic — the coefficient of the longitude in the polar angle of the forward easting — is, as a term, the sine of the stored parallel (Snyder), whatever the latitude of origin.",
     "Not decided: agreement of the projection formulas with proj4js beyond the cone constant of R10 (only their parameters, tables and the wiring around them); one open known finding (R4: height dropped between two datum shifts, 0.93 mm).",
     None)
prop("C10", True,
     ME + " of the eight Transform methods with a host transformer (incl. failure at the k-th vertex), of the axis adjustment, of the NewTransform pipeline and of the members of every registered projection with symbolic parameters (terms before and after an unrelated call, reference dumps before and after); SSA effect analysis of the transformer closures (captured-variable stores); path-sensitive error-before-use dataflow",
     "(R1) no per-call state survives in a Transformer: closures never assign captured variables or store argument-dependent values outside themselves; for eleven reference pairs the same position gives the same term after the transformer was used for another position and neither reference changes; for every registered projection, members rebuilt and reused give the same terms and leave the reference as the first construction left it; a datum shift leaves both datums as they were; (R2) the axis adjustment never indexes beyond a 2-element coordinate slice; (R3) a member result returned with an error is never used before the error is tested; (R4) Transform with nil returns the receiver, otherwise a fresh value of the receiver's shape whose i-th vertex is T(i-th vertex), T called once per vertex in order, the receiver untouched, a failure at any vertex reported.",
     "Not decided: numerical equality with a fresh transformer (follows from 'no state survives' assuming deterministic float arithmetic).",
     None)
prop("C11", True,
     ME + " of NewTree/Insert/Delete/SearchIntersect/Size/Depth over histories of boxes with rank coordinates: envelopes are computed exactly by the repository code, the comparisons of the insertion heuristics (areas, enlargements) are symbolic and are resolved once by the geometry and several times by arbitrary consistent orders; exhaustive abstract interpretation of the box relations over all weak orderings",
     "After every operation of three histories (fill, scattered drain to empty and refill, interleaved deletes of absent objects and duplicates, 36 boxes to height three) under several branching parameters and heuristic resolutions: (R1) leaves at one depth = Depth(), no dangling child, no panic; (R2) parent links follow entries; (R3) every entry's box is the exact envelope of its subtree; (R4) Size() and the stored multiset equal the history's, Delete true/false as specified and without effect when false, and the count does not depend on how large it already is (a counter preset to 2^40); (R5) fan-out ≤ MaxChildren; (R6) SearchIntersect equals a scan for disjoint, touching, overlapping, degenerate and all-covering queries, and every box relation of the package is closed intersection / containment / join in all orderings.",
     "Not decided: histories longer or differently shaped than the three modelled; MinChildren fill (not part of the property). The model run found the drain-and-refill panic repaired in a139d91 (fixed entry in known_findings.json).",
     None)
prop("C12", True,
     ME + " of NearestNeighbor/NearestNeighbors on hand-built trees with the two point-to-box bounds replaced by tables, over every weak ordering of the object distances and every admissible choice of inner bounds; the bound functions themselves compared with MINDIST² / MINMAXDIST² as polynomials in symbolic coordinates; both queries interpreted on a tree built through Insert with the package's own bound arithmetic at three scales of the coordinates",
     "(R1) NearestNeighbors(k,p) returns k slots, the first min(k,n) holding distinct stored objects at the k smallest distances in non-decreasing order, for k ∈ {1,2,n,n+1}; (R2) NearestNeighbor returns the object at the least distance; (R3) with ties it returns one of the nearest (no strict exclusion by MINMAXDIST); (R4) distances are compared like with like, observed as scale invariance: on a 13-object tree both queries return what a linear scan finds for 36 query points at grid spacings 1/64, 1 and 64 (a squared distance compared with a linear one orders differently below and above 1); (R5) premise: exact envelopes and parent links after every Insert/Delete (C11 model); (R6) each point-to-box function equals MINDIST² or MINMAXDIST² (Roussopoulos et al., def. 4) for all 16 placements of the point.",
     "Not decided: trees deeper than two inner levels or with more than five objects under the tabled bounds (the thorough tier adds a four-leaf tree); R4's expected object is computed from the same coordinates (an identity of objects, not of numbers).",
     None)
prop("C13", True,
     ME + " of the Simplify methods with the point-to-segment distance and the simplicity test replaced by oracles, every combination of answers to the questions actually asked enumerated depth-first (constant answers for the multi-geometries); the point-to-segment distance itself evaluated symbolically; AST rule for the exactness of the crossing test",
     "On curves of 0–5 vertices (thorough 6; up to 7 with the simplicity oracle fixed) and curves with a repeated vertex: (R1) every run returns, none panics; (R2) the result is a fresh order-preserving subsequence that starts with the first and ends with the last vertex, the input unchanged; (R3) every dropped vertex's distance to the replacing segment was asked, compared with the tolerance itself (or both squared) and answered within it, and every replacing segment was tested against the kept output, the rest of the curve and the other curves; (R4) MultiLineString.Simplify and MultiPolygon.Simplify return at index i what the single-geometry method returns for member i alone, over the full range, receiver unchanged and unshared; (R5) the deviation is the distance to the segment in all 14 relative positions incl. a degenerate segment (shared with C03.R4); (R6) the crossing test behind the simplicity oracle uses tolerance 0.",
     "One open known finding (R3: the segment reaching the last vertex is appended untested; a simple 6-vertex line becomes self-intersecting). Not decided: the simplicity test's own geometry beyond R6.",
     None)
prop("C14", True,
     ME + " with the external clipper replaced by a recorder (shared with C01); AST rule over the dependency's segment loop; implication check of conditional exits against the box relation",
     "Thin by nature (the clipping is done by the external clipper): (R1) the line(s) become the subject contours one-to-one, the polygon's rings the clipping operand, the mode is CLIPLINE; (R2) every returned piece is the clipper's contour without the one closing vertex the converter appends; (R3) in CLIPLINE mode the clipper does not add the subject's closing segment; (R4) a conditional exit before the clipper is allowed only when the closed boxes share no point and then returns an empty result; (R5) the conversion helpers convert every contour, ring and vertex at its own index.",
     "Not decided: everything the external clipper computes (that pieces lie on L and inside P, total length, emptiness).",
     None)
prop("C15", True,
     ME + " of Similar on model pairs for each of the eight types in both argument orders, coordinates and tolerance symbolic, the package's own tolerance arithmetic deciding every comparison under a reference valuation (vertices 16 apart, perturbation 1, displacement 8, tolerance 1.5); Point.Similar evaluated under eleven valuations that separate |a−b| < tol from its neighbours",
     "(R1) Similar is true for a perturbed copy, also with members reordered and closed rings rotated; false when a vertex is displaced, a member or vertex added or removed, a line reversed, or a duplicated member stands against a different one; and symmetric in all these cases; (R2) false for every ordered pair of different geometry types; (R3) on two points differing in one coordinate (each axis) the tolerance test is |a−b| < tol: strict (a difference of exactly the tolerance and a zero tolerance on equal values are rejected) and bounding both signs of the difference.",
     "Not decided: pairs larger than the models (up to 3 members / 5 vertices), near-tolerance ambiguities between several members.",
     None)
prop("C16", True,
     ME + " of the shapefile package at the go-shp boundary: reflect is described by go/types (struct fields, tags, kinds, assignability), go-shp by a file model (a record is read back as the file's shape type with the counts it declares; attributes come back as NUL-padded text), strings/bytes/strconv helpers are evaluated on the concrete texts",
     "For both NewEncoder/Encode/DecodeRow and NewEncoderFromFields/EncodeFields/DecodeRowFields: (R1) each supported geometry type is written into a file of the matching shape type and comes back as the expected geom type; (R2) geometries of 1–6 parts with 0–7 vertices (empty parts included) come back part by part, vertices in order, declared counts consistent; (R3) rings come back closed exactly when needed, boxes as five-vertex rectangles; (R4) int/float64/string fields become columns of the documented widths and come back equal (50-byte strings, NUL padding); (R5) columns are matched by tag, else name, case-insensitively, unmatched fields untouched; (R6) records come back in order, each with its own row's attributes — also after a record without a shape and after a geometry-only read — then end of file and a nil Error().",
     "Not decided: go-shp's own file I/O and dBase number formatting (modelled, not analysed), float text round trip to 10 decimals beyond the column widths.",
     None)
prop("C17", True,
     ME + " of wkt.Encode with strconv's float formatting replaced by coordinate tokens; the emitted text is parsed by an OGC WKT recogniser held in the checker; context-sensitive SSA provenance analysis (followed through function-typed parameters and closures) for result freshness",
     "(R1) for each of the five supported types and all member-count combinations 1..3 per nesting level the emitted text is accepted by the OGC WKT grammar with the right member counts at every level and every coordinate once, in storage order, X before Y; (R2) every float formatting performed uses a format in eEfgG, precision -1, 64 bits (shortest round-tripping text); (R3) exactly Point, LineString, MultiLineString, Polygon and MultiPolygon are encoded, everything else is an error; (R4) the text is freshly allocated.",
     "Not decided: strconv's contract (trusted).",
     None)
prop("C18", True,
     "lockset analysis (path-sensitive must-hold locksets with defer, field→mutex table derived from the struct), lock-order graph over the package call graph, flow facts for the pass barrier and the pass flag (captured variable or mutex-guarded field reached through methods; one pass per call with the loop in the caller), request flow of the per-object results through assignments, ||, helpers and loops, fixpoint-completeness rule from the KeepFuncs' read set; " + ME + " of the sequential semantics: Filter, Check, the per-object functions and the extraction loop itself (goroutines run when waited for, channels as queues: the schedule in which the first worker takes every object in the order scanned) on model documents with the package's own keep functions, maps walked in both orders",
     "For all schedules of the worker pool (the quantifier tests cannot reach): (R1) every access to the six guarded maps in code reachable from the errgroup workers (incl. the KeepFunc closures) holds the map's mutex in the right mode, the another-pass flag is written only under its mutex and untouched by the spawner between Go and Wait; (R2) every acquire is released on all exits and the acquisition-order graph incl. callee acquisitions is acyclic; (R3) no caller discards the another-pass result of a per-object function; (R4) every concurrent store into a set that a KeepFunc consults must request another pass (fixpoint completeness); (R6) workers are joined before the flag is read or reset, every object reaches its function on its type alone. For the values computed (R7): on eight documents (shared nodes, relations of ways, nodes and relations, a chain three deep, a cycle, a dangling reference) Filter returns exactly the selected objects and what they reference, transitively, whichever way maps are walked, idempotently, accepted by Check; the per-object functions driven through the pass protocol in file, reverse and interleaved order reach the same least closed set; the extraction loop, given a scanner over each document in nine orders, reads again until nothing new is asked for and returns that set; with KeepBounds in file order the least set closed under selection-by-what-is-stored and references.",
     "Not decided: schedules other than the sequential one for the values computed, interleavings inside one per-object call (what R1 and R4 are about, structurally), termination of the pass loop on large inputs. Three open known findings under R4 (KeepBounds reads Nodes/Ways/Relations while workers fill them; schedule replayed in demos/osm_whitebox).",
     None)
prop("C19", True,
     ME + " of ShortestRoute on a small network built through AddLink with symbolic link lengths and speeds (a reference valuation orders them), gonum's A* transcribed over the interpreted graph and its Weighted interface; type-level conformance check (go/types.Implements of the AStar graph argument against gonum's path.Weighted); purity rule for the query path",
     "(R1) the static type of the graph passed to gonum path.AStar implements path.Weighted — the optional interface AStar asserts before silently falling back to unit costs; (R2) the heuristic is 0 at the goal and never exceeds the cheapest remaining cost for either option (straight-line distance; that distance over the largest link speed); (R3) the weight of a link is its length or its length over its speed per option, the route is the cheapest one on the model network incl. a winding link that is longer but faster, totals are the sums over the returned links, start and end distances are the snapping distances, disconnected nodes give an empty route; (R4) the graph is symmetric: every link can be travelled both ways at the same cost; (R5) ShortestRoute does not modify the network.",
     "Not decided: optimality of gonum's own A* (transcribed, not analysed), node snapping over R-trees deeper than a leaf (a change in the shared nearest-neighbour helper is reported by C12), networks larger than the model (six nodes and a second component).",
     None)
prop("C20", True,
     ME + " of proj.Parse with symbolic parameters: every number in the PROJ.4 and OGC WKT texts is a placeholder that becomes a symbol, unit conversions and DeriveConstants are carried as normal-form polynomials, branches on parameter values follow a stated reference valuation (an ordinary ellipsoid), ranged-over maps are walked in both orders; the definition registry is read after interpreting the package's init functions; SR.Equal is interpreted on parsed references with reflection described by go/types; path rule for NewTransform's identity shortcut",
     "(R1) the WKT and PROJ.4 texts of the same system (five WKT projection names, centre/azimuth and central_parallel variants, a geographic system) store every parameter in the same SR field; (R2) angles come out as symbol × deg2rad from either spelling, ratios bare, the WKT false origin as symbol × declared unit whatever the clause order, UNIT reaches ToMeter, SPHEROID[a,1/f] and +a +rf give identical derived constants; (R3) both projection names map to the same constructor; every registered name is a definition equal to a fresh parse of its text or an alias bound to the identical *SR; (R4) NewTransform returns nil exactly where Equal is true; (R5) Equal is true for two parses of one text and false — never a panic — when any float, NaN marker, string, flag, datum-shift value or length, or nested pointer differs; (R6) a text with competing keys (k/k_0, units/to_meter, ellps/a, datum/towgs84, in either order) and a projected WKT give identical references whichever way maps are walked; (R7) datum-shift lists of three and seven values (also rotation-free and scale-free) keep every value in order, identically from both spellings, and a WKT datum name that only resembles one the reader rewrites keeps the shift written in the text.",
     "Not decided: micrometre agreement of the resulting transformers; parameter regions that take other branches than the reference valuation (spheres, rf = 0); datum renaming heuristics.",
     None)

def main():
    checks, na = [], []
    for id in sorted(P):
        p = P[id]
        if not p["armed"]:
            na.append({"property_id": id, "reason": p["na"]})
            continue
        checks.append({
            "property_id": id,
            "quick_cmd": "./run.sh %s quick" % id,
            "thorough_cmd": "./run.sh %s thorough" % id,
            "evidence_file": "/verif/evidence/%s.json" % id,
            "replay_cmd_template": "./bin/geomcheck replay {path}",
            "engine": "geomcheck",
            "level_claimed": {"category": "other", "text": p["text"], "design_ref": "DESIGN.md §10, §11 and Appendix D, " + id},
            "level_note": p["note"],
            "technique": "static analysis: " + p["technique"],
        })
    m = {
        "version": 1,
        "setup_cmd": "cd /verif/checker && GOFLAGS=-mod=mod GOPROXY=off GOSUMDB=off GOTOOLCHAIN=local CGO_ENABLED=0 go build -o /verif/bin/geomcheck .",
        "hooks": {
            "guard": "verif",
            "enable": "none needed: static analysis reads /repo's source; no hook or instrumentation commits exist",
            "baseline_off_cmd": "cd /repo && GOFLAGS= GOPROXY=off GOSUMDB=off GOTOOLCHAIN=local go test -vet=off -count=1 $(go list ./... | grep -v /carto)",
            "source_commits": [],
            "add_only": True,
        },
        "engines": [{
            "name": "geomcheck",
            "path": "/verif/checker",
            "serves_properties": [c["property_id"] for c in checks],
            "kind_free_text": "repository-specific static analyser (go/packages + go/types + structured AST dataflow + go/ssa + call graph, x/tools v0.29.0) with its own abstract interpreter for Go source (order domain, symbolic polynomials, modelled library boundary); never builds or executes code from /repo",
        }],
        "checks": checks,
        "not_applicable": na,
        "notes": "All claims are at level 'other': necessary conditions of each property decided statically from /repo's current source — structural rules and model evaluation on bounded abstract inputs; see DESIGN.md §0, §10 and §11. Known findings: /verif/known_findings.json.",
    }
    with open(os.path.join(HERE, "MANIFEST.json"), "w") as f:
        json.dump(m, f, indent=1)
        f.write("\n")
    try:
        import jsonschema
        jsonschema.validate(m, json.load(open("/root/.vp/MANIFEST.schema.json")))
        print("MANIFEST.json valid; claimed:", [c["property_id"] for c in checks])
    except ImportError:
        print("jsonschema not importable here; wrote MANIFEST.json unchecked")

main()
