#!/usr/bin/env python3
"""Regenerates /verif/MANIFEST.json from the table below.  A property is claimed
only when `armed` is True (its rules exist in checker/ and are green or triaged
on the unchanged tree); otherwise it is listed under not_applicable with the
reason.  Run: python3 tools/gen_manifest.py"""
import json, os, subprocess

HERE = os.path.dirname(os.path.dirname(os.path.abspath(__file__)))

P = {}
def prop(id, armed, technique, text, note, na_reason=None):
    P[id] = dict(armed=armed, technique=technique, text=text, note=note, na=na_reason)

NOT_YET = "rules designed in DESIGN.md but not armed in the checker yet; nothing is claimed until they are"

prop("C01", True,
     "table extraction of the operation constant along call paths, affine copy-loop analysis of the converters, abstract interpretation over the order domain (with nondeterministic answers for calls on an opaque polygon) for the rectangle shortcuts, AST rule over the dependency's trivial-case switches",
     "Decides the geom-side plumbing around the external clipper and the rectangle shortcuts completely: (R1) each of the 12 receiver×method combinations reaches Construct with its own operation constant; (R2) subject built from the receiver only, clipping operand from every polygon of the parameter, converter copies every ring/vertex at the same index; (R3) result rings get len+1 vertices with last=first; (R4) box-box intersection, Within(*Bounds) and Polygons() agree with the order-level box relation for every weak ordering (exhaustive), and for each of the four *Bounds operations with a general polygon every shortcut result (nil, the box, the argument) follows from the box relation alone — questions the code asks about the polygon's shape (Within, point-in-polygon) are answered in every possible way; (R5) the clipper's trivial-case switches treat XOR like UNION (read from the dependency's source).",
     "Not decided: the sweep-line clipper for overlapping operands (external numerical algorithm), hence the point-set identity and area identities themselves. Two open known findings (R5: XOR of disjoint/empty operands is empty in polyclip-go v1.1.0).",
     None)
prop("C02", True,
     "affine loop/index analysis (segment pair sets), shape rules on the type-checked AST, abstract interpretation over the order domain for the pre-filter and for the comparison-only prefixes of the two segment predicates",
     "Structural necessary conditions: (R1) the on-segment and the ray test each see exactly the closed ring (chain 0..len-2 plus the closing pair) of every ring; (R2) OnEdge is returned at once, crossings toggle an even-odd status across rings and member polygons, rings are skipped only for len<3 or by the box pre-filter; (R3) the pre-filter is the closed-box test of the ring's own bounds (never skips a point in or on the box; exhaustive over orderings); (R4) the vertex-wise receivers visit everything and return Outside exactly on an Outside vertex; (R5) every answer the two segment predicates give by comparisons alone equals the order-level geometric truth, for all 169 orderings of {p,a,b} per predicate (either perturbation convention). Thin by nature: the final slope comparisons are arithmetic and not decided.",
     "Not decided: the slope comparisons of rayIntersectsSegment/pointOnSegment (division, rounding), i.e. the classification of points that survive the order-level exits; the caller in area() that passes a reduced polygon with reduced bounds. One reviewed exception in R4: Polygon.Within returns OnEdge for deeply-equal operands.",
     None)
prop("C03", True,
     "affine loop/index analysis (segment pair sets), polynomial expansion of fold summands, a parity type system (zero/even/odd/mixed under ring reversal) evaluated by path-sensitive AST dataflow with callee summaries, path-sensitive comparison-fact dataflow for the clamped projection, an axis (X/Y) type rule on comparisons",
     "Structural necessary conditions: (R1) every fold over consecutive vertices reachable from Area/Length/Distance/Centroid (geom and op) visits the right pair set — shoelace: chain 0..len-2 plus a closing term that equals the loop's own summand at (last, first), behind an empty-ring guard; Length/Distance/centroid loops: the open chain; (R2) orientation parity: Area results are even; Polygon/op Centroid even under global reversal; MultiPolygon.Centroid even under reversal of any single ring (odd/even decided by expanding each summand to a polynomial and comparing with its vertex swap); (R3) member aggregation is a full-range + from 0 / min from +Inf; (R4) in both point-to-segment distance routines the projection parameter is in [0,1] at the foot point and the division producing it has a non-zero divisor on every path (comparison facts closed under transitivity); (R5) no comparison in geom/op relates an X ordinate to a Y ordinate. These are exactly the clauses 'whatever the winding / start vertex / closed-or-not spelling' that tests sample and this decides for all paths.",
     "Not decided: floating-point accuracy, hole detection by point-in-polygon inside area(), Buffer's trigonometry, numerical agreement of op.* with the root package. Recursive calls (op.Area over nested collections) are assumed even and confirmed by the outer result.",
     None)
prop("C04", True,
     "abstract interpretation over the order domain (all weak orderings of the coordinates, exhaustive) + affine loop analysis + path-sensitive guard-freshness dataflow in the iterator closures",
     "Decides structural necessary conditions on every path/ordering: (R1) Extend/extendPoint are the lattice join with nil/empty operands as identities, NewBounds is the join identity, Overlaps/Empty/Copy and box-box Intersection match their order-level specification for every weak ordering of the eight coordinates incl. the canonical empty box; "
     "(R2) every Bounds()/Len() is a complete fold over the receiver; (R3) every nested access in a Points() closure sits behind a length guard that is still fresh, and nothing is indexed before the first call; (R4) indices only ++/reset and the element index advances exactly once per call; (R5) axis discipline: none of the ordinate-to-ordinate comparisons in geom, index/rtree and op relates an X ordinate to a Y ordinate (through locals, math.Min/Max and ± axis-free terms). "
     "Right level: the property quantifies over all geometries incl. runs of empty members and all float values; R1 is exhaustive over the order domain (so exact for all non-NaN floats), R2–R4 cover all paths of the code.",
     "Not decided: that exactly Len() calls succeed (needs an inductive invariant relating indices to the call count); NaN and -0 behaviour of math.Min/Max. Assumes the closure invariant 'member iterator p corresponds to the current member index' holds at entry (it is re-established on every path that changes the index).",
     None)
prop("C05", True,
     "codec shape extraction (format trees of writers and readers by abstract interpretation of the syntax tree, helpers inlined, loop idioms summarised) compared with the OGC layout; table extraction from switches/registries/SSA return types; order-argument threading rule",
     "Strong on layout: (R1) for each of the seven types the extracted writer tree equals U8·U32 code·Body(T) with every count being uint32(len(x)) of the collection that follows and members written through Write (own header); the reader trees mirror it (count, then exactly that many members through Read; chunked point reads sum to the count); Point is struct{X,Y float64}; (R2) all 39 order-argument sites pass the element's own order, constant order only for the single flag byte; (R3) code tables of writer, registry, returned concrete types and asserted member types agree and equal OGC 1..7, flag table 0↔big/1↔little with anything else rejected; (R4) hex is EncodeToString/DecodeString around exactly wkb.Encode/Decode.",
     "Not decided: encoding/binary's own behaviour (trusted: bit-exact float64 transfer, field order = struct order); hence NaN payload preservation follows from that trust. Reader loop idioms accepted: counted member loop, direct slice read, bounded chunk loop with a clamp helper (0 < clamp(n) <= n); anything else is UNDECIDED.",
     None)
prop("C06", True,
     "table extraction from the encoder type switch / decoder name switch with static nesting depth from go/types, shape rules for positions, affine identity-copy-loop analysis",
     "(R1) each of the six types is written with its RFC 7946 name and a coordinates value whose static type nests exactly as required, the decoder's case for each name decodes that nesting and returns the same-named geom type, JSON members are type/coordinates; (R2) positions are [p.X, p.Y] and read back as X=e[0], Y=e[1] under len(e)==2; (R3) all 13 conversion loops are full-range identity maps into make(T, len(src)); (R4) Encode returns json.Marshal's error and an error for unsupported types; (R5) no type of the package defines JSON/text marshalling hooks, so number formatting and parsing stay encoding/json's (the trust base of the exact round trip).",
     "Not decided: encoding/json's float formatting/parsing (trusted shortest round trip), interface{} decoding of numbers as float64.",
     None)
prop("C07", True,
     "SSA taint analysis (source: memory written by encoding/binary.Read; sinks: make sizes; sanitizers: dominating clamps, bounded helper summaries), call-graph reachability with recovering-frame cut, path-sensitive error-before-use dataflow",
     "Structural necessary conditions of totality: (R1) no allocation size reachable from wkb.Read/Decode or hex.Decode is an input count unless bounded at that point; (R2) every explicit panic, single-result assertion and index/slice expression reachable from the five decoder entry points is below the frame that recovers and sets the error result (GeoJSON) or statically safe (WKB/hex), and every value passed to panic implements error (the recovery asserts e.(error)); (R3) no decoder function uses a value before testing the error it was returned with. This covers the statement's 'never panics' and 'count fields are not trusted' for all inputs; tests sample zero malformed inputs.",
     "Not decided: total memory as a multiple of input length beyond 'no allocation sized by an unchecked count' (encoding/json's own allocations, recursion depth); the re-encode/decode fixpoint. Trusted: encoding/binary, encoding/json, encoding/hex do not panic on the values passed. Reachability: static calls + function values resolved by signature within the package; interface method calls into the standard library are not followed.",
     None)
prop("C08", True,
     "SSA backward data-dependence of closure results (through phis, allocs, field loads), registry table extraction, stage/role classification of the NewTransform pipeline",
     "(R1) in all 14 forward/inverse closures of the registered projections every success return yields coordinates that depend on the inputs; (R2) the NewTransform pipeline is mirrored around the datum shift: ×/÷ ToMeter, ± FromGreenwich, deg2rad·r2d = 1, inverse member for the source and forward member for the destination, denorm false/true, stages in mirrored order; (R3) all eight projections are registered with constructors yielding both closures; (R4) in each inverse the longitude result depends on Long0 and the latitude does not; (R5) in the conic family (inverse lon = atan2(…)/N + λ0, discovered: lcc, aea, eqdc) the polar angle is taken of coordinates multiplied by ±1 following the sign of the cone constant. Necessary for inverse(forward(p)) = p; broken instances are total failures (Krovak inverse returned (0,0)).",
     "Not decided: the projection formulas themselves, convergence of the iterative latitude solvers inside the usable region, tolerance figures. Dropping a solver's error was considered and rejected as a rule (not necessary for C08).",
     None)
prop("C09", True,
     "table agreement between Go composite literals (constants folded by go/types) and the bundled proj4js 2.3.12 sources read by a small JS-subset reader; typed-constant rule for integer division in float context; angle-unit type system (degree/radian) evaluated by path-sensitive AST dataflow against proj4js' own params table; call-order rule for the datum shifts; SSA operand-closure (simultaneity) and signed sum-of-products extraction for the Helmert shift; a two-point e/e² type system over call sites",
     "(R1, complete for this clause) all 43 ellipsoids, 16 datums, 13 prime meridians, 2 units and 14 named numeric constants equal the bundled proj4js source as float64 (same key sets, towgs84 element-wise); (R2) no integer-constant quotient is used as a float coefficient; (R3) every PROJ.4 key that proj4js multiplies by D2R is multiplied by deg2rad exactly once on every path of its case and no linear/scale key is; (R4) no 2-D Transformer hop between two datum shifts; (R6) the 3/7-parameter datum shifts: outputs computed simultaneously (no returned ordinate is an SSA operand of another), each output = own ordinate ± p[3+third axis]·other ordinate with antisymmetric couplings and translation p[axis], the inverse uses the transposed matrix, opposite translation sign and divides by the scale; (R7) eccentricity typing e / e² (SR.E, SR.Es, sqrt, squares, 1−(B/A)²): every helper parameter receives one of the two at all call sites.",
     "Not decided: numerical agreement of every projection formula with proj4js and with Snyder/Karney references (0.1 mm / 5 mm) — cross-language formula comparison was rejected as brittle; R5 (dimensional homogeneity) is not armed. One open known finding (R4: height dropped in the WGS84 hop, 0.93 mm).",
     None)
prop("C10", True,
     "path-sensitive error-before-use dataflow, affine index-map analysis of the copy loops, shape checks on the type-checked AST; SSA effect analysis of the transformer closures",
     "Geometry side: (R3) in all eight Transform methods a member result returned with an error is never asserted/indexed/returned-with-nil before the error is tested; (R4) nil transformer returns the receiver, otherwise a fresh value of the receiver's shape filled by out[i]=t(in[i]) over the full range with X/Y passed and stored in order, the receiver never written, *Bounds becomes the 4-corner ring in ring order. Projection side (R1/R2) see level_note.",
     "Not decided: numerical equality with a fresh transformer (follows from 'no state survives' only assuming deterministic float arithmetic). Projection side: (R1a) no Transformer closure assigns a captured variable (SSA store to a free variable), (R1b) none stores an argument-dependent value into captured/package state, (R1c) all 39 stores to SR/datum fields made by constructors and helpers on the per-call path are lazy initialisations, normalising overwrites from stable fields, or saved-and-restored temporaries (restore may be skipped only on error returns); (R2) constant indices into the coordinate slice are below the callers' literal length or behind a length guard.",
     None)
prop("C11", True,
     "path-sensitive AST dataflow with balance facts (root/height, size), placement/parent-link pairing rules, post-dominance of the upward envelope pass over the package call graph, purity summaries, abstract interpretation over the order domain for the box predicates",
     "Guttman bookkeeping decided on every path: (R1) every root store outside the constructor is balanced by height++/-- on all paths and every node creation sets its level; (R2) every placement of an entry with a possibly non-nil child into a node is paired with child.parent = node (or the entry already belongs to that node; the adjustTree sibling is discharged by the caller-side fact that split() links it); (R3) every mutation of a node's entries under Insert/Delete is followed before return by the upward pass that stores recomputed envelopes, and the pass itself visits every ancestor up to the root (loop form: condition is the root test, no break/return/continue, each iteration repairs the node's own entry or removes it; recursion form: every return is the root case or recurses on the parent after the repair; a root test by parent==nil is accepted only if every root store clears the parent link); (R4) Insert is size+1 on every path, Delete returns true only after one removal and one size--, and false only on effect-free paths (purity of findLeaf over the package call graph); (R6) intersect/containsRect/containsPoint/enlarge/boundingBox equal their order-level specification for every weak ordering, the search visits every intersecting entry with no other filter, the envelope fold covers all entries.",
     "Not decided: that split/condense keep all leaves at one depth for every history; multiplicity of results; quadratic-split heuristics; fan-out below MinChildren after condensing. (R5) every append to a linked node's entries is followed by the MaxChildren test whose overflow branch splits that node. Field roles are discovered from Depth()/Size() and types, so renames do not matter.",
     None)
prop("C12", True,
     "bound-derivation dataflow over the package (which values derive from MINDIST vs another point-to-box bound), k-dependence closure from the query's k parameter, shape rules for the leaf scans",
     "Thin: (R1) below NearestNeighbors(k,p) no comparison that excludes a branch depends on a bound other than MINDIST unless it also depends on k (MINMAXDIST only promises one object); (R2) both leaf scans offer every entry's MINDIST from the query point and the entry's object to the accumulator over the full range, with the same bound function; (R3) the 1-NN exclusion by MINMAXDIST keeps entries whose MINDIST equals the bound; (R4) squared vs linear distances: bounds return squares, math.Sqrt makes them linear, no comparison mixes the two; (R5) the exact-envelope premise of the bounds: C11's envelope-maintenance obligations, re-established here.",
     "Not decided: ordering/exactness of returned distances, the MINDIST-ordered descent, tie handling, insertNearest's slice arithmetic.",
     None)
prop("C13", True,
     "stutter-path detection (symbolic header-to-header paths + interval feasibility over len(x)), path-sensitive vetting dataflow, shape rules on the append sites, affine copy-loop analysis",
     "Structural necessary conditions: (R1) the curve simplifier has no loop path that changes nothing its conditions read and is feasible on the first iteration (definite non-termination, witness interval on len(curve)); (R2) output fresh, every appended vertex is an input vertex, input never written, first vertex kept first, exit flag raised only right after appending the last vertex and is the only way out; (R3) every kept vertex is the scan start, adjacent to the previous kept one, or its replacing segment was tested against kept output, remaining input and other curves; (R4) Multi* methods map member i to index i over the full range and Polygon passes all rings as obstacles; (R5) the deviation measure is the distance to the replacing segment: projection parameter clamped to [0,1], no 0/0.",
     "Not decided: the tolerance guarantee, order of kept indices, termination on later iterations / for self-intersecting inputs (documented upstream as out of contract). One open known finding (R3: the final 'append last point regardless' segment is not vetted).",
     None)
prop("C14", True,
     "operation-constant extraction along call paths, affine copy/strip loop analysis, AST rule over the dependency's segment loop",
     "Thin by nature (the clipping is done by the external clipper): (R1) the line(s) become the subject contours one-to-one, the polygon is the clipping operand, the mode is CLIPLINE; (R2) every returned piece is result[i][0:len-1], i.e. strips exactly the one vertex the result converter appends; (R3) the clipper skips the subject's closing segment in CLIPLINE mode; (R4) no conditional return or skipped member ahead of the clipper call unless implied by disjoint closed bounding boxes, and then the result is empty.",
     "Not decided: everything the external clipper computes (that pieces lie on L and inside P, total length, emptiness).",
     None)
prop("C15", True,
     "path-sensitive AST dataflow (must-facts) + callee summaries + shape matching on the type-checked program",
     "Structural necessary conditions of symmetry and of 'false when counts/types differ', decided on every path of every Similar method: "
     "(R1) each possibly-true result is preceded by a member-count equality test (directly, through a length-checking helper, or a final emptiness test of the unmatched remainder); "
     "(R2) possibly-true results occur only after the argument was found to have the receiver's type; "
     "(R3) the scalar test is |a-b|<tol on matching axes, list comparison is element-wise over the full range, and the ring comparison makes at least len-1 steps from the two anchors with both cursors advanced by the same successor and no early exit. "
     "This is the right level because the matching semantics under permutation/rotation quantifies over float inputs and is not decidable from shape; the clauses above are and each, if broken, yields a concrete asymmetric pair.",
     "Not decided: the greedy matching itself (ambiguous matches, ring rotation by minPt/nextPt). Trusted: go/types resolution; idioms enumerated in checker/c15.go (type switch bound/unbound, comma-ok, len compare, helper call).",
     None)
prop("C16", True,
     "table extraction (type-name switch, type switch, reflect.TypeOf case list) joined with SSA return types; symbolic part-range loop analysis (dst[j-start]=src[j], start<=j<end) plus affine identity-copy analysis; shape rule for ring closing; constant-folded width inequalities",
     "(R1) the four-column table type name → shape-type constant → concrete go-shp shape built → geom type rebuilt is consistent for Point, LineString, MultiLineString, Polygon, *Bounds, MultiPoint; (R2) the part-boundary helper is parts[i]..parts[i+1] / len(points), and all 12 geometry copy loops (both directions, M/Z variants included) are identity index maps over the full part or collection range, whatever the loop direction; (R3) rings are closed by appending the first vertex exactly when non-empty and first≠last, to a slice that owns its backing array; (R5) the decoder's column index and every lookup are lower-cased and DecodeRow looks each field up by its tag and, independently, by its name; (R4) encoder and decoder attribute kinds are both {int,float64,string} and the folded widths satisfy string≥50, int≥10, float precision≥10 and width≥1+17+1+precision.",
     "Not decided: go-shp's file I/O and dBase formatting, float text round trip to 10 decimals, that EncodeFields ignores WriteAttribute errors (noted by errcheck; outside every clause).",
     None)
prop("C17", True,
     "emission-grammar extraction: abstract interpretation of the appender functions with every loop unrolled for 1,2,3 members per nesting level, token strings parsed by an OGC WKT recogniser held in the checker; constant-argument rule for strconv; support table",
     "Strong on well-formedness: (R1) for each of the five supported types and all 3^depth member-count combinations (first/middle/last member all occur) the emitted token string is accepted by the OGC BNF, has the member counts of the geometry at every level and lists every coordinate exactly once in storage order, X before Y; (R2) every float is formatted with precision -1, 64 bits, format in eEfgG (shortest round trip); (R3) exactly the five types are encoded and everything else reaches the error return.",
     "Not decided: strconv's contract (trusted). Bounds: member counts {1,2,3} per level realise every index predicate the appenders may test (i==0, i==len-1 and their negations); predicates on other positions would be UNDECIDED.",
     None)
prop("C18", True,
     "lockset analysis (path-sensitive must-hold locksets with defer, field→mutex table derived from the struct), lock-order graph over the package call graph, pairing rules for dependency registration, fixpoint-completeness rule from the KeepFuncs' read set, sibling summary comparison",
     "For all schedules of the worker pool (the quantifier tests cannot reach): (R1) every access to the six guarded maps in code reachable from the errgroup workers (incl. the KeepFunc closures) holds the map's mutex in the right mode, the another-pass flag is written only under its mutex and untouched by the spawner between Go and Wait; (R2) every acquire is released on all exits and the acquisition-order graph incl. callee acquisitions is acyclic; (R3) all 8 dependency registrations set the another-pass result and no caller discards it; (R4) every concurrent store into a set that a KeepFunc consults must request another pass (fixpoint completeness); (R5) process* and *NoCopy twins have the same guard→effect summary.",
     "Not decided: minimality of the result, equality with a sequential model, termination of the pass loop. Three open known findings under R4 (KeepBounds reads Nodes/Ways/Relations while workers fill them; schedule replayed in demos/osm_whitebox).",
     None)
prop("C19", True,
     "type-level conformance check (go/types.Implements of the AStar graph argument against gonum's path.Weighted), max-accumulator shape rule on every store of the heuristic's divisor, table/loop rules for weights and totals, pairing rule for adjacency stores",
     "(R1) the static type of the graph passed to gonum path.AStar implements path.Weighted — the optional interface AStar asserts before silently falling back to unit costs (near-misses are reported with both signatures); (R2) the field the time heuristic divides by is a running maximum of link speeds at every store, and every value the heuristic returns is 0, the straight-line distance (Distance option) or that distance over the maximum speed (Time option); (R3) Weight returns the time/length field per option with no numeric default, time = length/speed, the route loop covers every consecutive node pair and sums the appended link's own length and time; (R4) adjacency stores are mirrored.",
     "Not decided: optimality of gonum's A* itself, node snapping tolerance (newNode / op.PointEquals), behaviour for disconnected nodes.",
     None)
prop("C20", True,
     "table agreement between the WKT PARAMETER switch and the PROJ.4 key switch against an OGC↔PROJ correspondence table held in the checker; unit rules (deg2rad / ToMeter) on the type-checked AST; registry extraction; path-sensitive rule for the identity shortcut",
     "(R1) the 11 corresponding WKT/PROJ.4 parameter names set the same SR field; (R2) WKT angular parameters × deg2rad, linear ones not, false origin × ToMeter exactly once after all sections are parsed, UNIT factor stored unchanged for projected systems; (R3) each of the five WKT projection names is registered for the same constructor as its PROJ.4 short name and every alias in the definition registry is bound to the identical *SR; (R4) NewTransform returns the nil transformer exactly on the Equal-true path; (R5) Equal's reflective worker: the float case continues exactly when both values are NaN or neither is and they agree (truth table over isNaN/withinULP with helper inlining), slice elements are indexed only after a length-equality test, pointees compared only after nil-parity and non-nil tests.",
     "Not decided: micrometre agreement of the resulting transformers, SPHEROID/DATUM/TOWGS84 clause handling beyond the tables (datum renaming heuristics).",
     None)

def main():
    checks, na = [], []
    for id in sorted(P):
        p = P[id]
        if not p["armed"]:
            na.append({"property_id": id, "reason": p["na"]})
            continue
        checks.append({
            "property_id": id,
            "quick_cmd": "./run.sh %s quick" % id,
            "thorough_cmd": "./run.sh %s thorough" % id,
            "evidence_file": "/verif/evidence/%s.json" % id,
            "replay_cmd_template": "./bin/geomcheck replay {path}",
            "engine": "geomcheck",
            "level_claimed": {"category": "other", "text": p["text"], "design_ref": "DESIGN.md §3 " + id},
            "level_note": p["note"],
            "technique": "static analysis: " + p["technique"],
        })
    m = {
        "version": 1,
        "setup_cmd": "cd /verif/checker && GOFLAGS=-mod=mod GOPROXY=off GOSUMDB=off GOTOOLCHAIN=local CGO_ENABLED=0 go build -o /verif/bin/geomcheck .",
        "hooks": {
            "guard": "verif",
            "enable": "none needed: static analysis reads /repo's source; no hook or instrumentation commits exist",
            "baseline_off_cmd": "cd /repo && GOFLAGS= GOPROXY=off GOSUMDB=off GOTOOLCHAIN=local go test -vet=off -count=1 $(go list ./... | grep -v /carto)",
            "source_commits": [],
            "add_only": True,
        },
        "engines": [{
            "name": "geomcheck",
            "path": "/verif/checker",
            "serves_properties": [c["property_id"] for c in checks],
            "kind_free_text": "repository-specific static analyser (go/packages + go/types + structured AST dataflow + go/ssa + call graph, x/tools v0.29.0); never executes code from /repo",
        }],
        "checks": checks,
        "not_applicable": na,
        "notes": "All claims are at level 'other': structural necessary conditions decided statically from /repo's current source; see DESIGN.md §0. Known findings: /verif/known_findings.json.",
    }
    with open(os.path.join(HERE, "MANIFEST.json"), "w") as f:
        json.dump(m, f, indent=1)
        f.write("\n")
    try:
        import jsonschema
        jsonschema.validate(m, json.load(open("/root/.vp/MANIFEST.schema.json")))
        print("MANIFEST.json valid; claimed:", [c["property_id"] for c in checks])
    except ImportError:
        print("jsonschema not importable here; wrote MANIFEST.json unchecked")

main()
