#!/bin/sh
# (re)builds bin/geomcheck from checker/ — called by the evaluation tools so that they never use a stale binary
here=$(cd "$(dirname "$0")/.." && pwd)
export GOFLAGS=-mod=mod GOPROXY=off GOSUMDB=off GOTOOLCHAIN=local; unset GOWORK
cd "$here/checker" && go build -o "$here/bin/geomcheck" . 
