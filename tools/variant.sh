#!/bin/sh
# usage: tools/variant.sh <patch.diff> <prop> [<prop>...]
# Applies a patch to a scratch copy of /repo's working tree and runs the
# property checks against it (no evidence written).  The copy is removed.
set -u
patch=$1; shift
here=$(cd "$(dirname "$0")/.." && pwd)
tmp=$(mktemp -d "${TMPDIR:-/tmp}/geomvar.XXXXXX")
trap 'rm -rf "$tmp"' EXIT
rsync -a --exclude=.git /repo/ "$tmp/"
if [ "$patch" != "-" ]; then
  (cd "$tmp" && patch -p1 -s < "$patch") || { echo "PATCH-FAILED $patch"; exit 3; }
fi
export GOFLAGS= GOPROXY=off GOSUMDB=off GOTOOLCHAIN=local; unset GOWORK
(cd "$tmp" && go build $(go list ./... | grep -v /carto) 2>&1 | head -5)
rc=0
for p in "$@"; do
  GEOM_REPO="$tmp" VERIF_DIR="$here" "$here/bin/geomcheck" check -prop "$p" -tier "${VERIF_TIER:-quick}" -no-evidence || rc=1
done
exit $rc
