#!/usr/bin/env python3
"""Mechanical behaviour-preserving refactor of one function at a time against the checks.

For every top-level function and method of the mapped packages (single-line signature, named
parameters), a scratch copy of /repo gets the body moved into a new unexported function
`<name>Body` and the original turned into a one-line wrapper that forwards its arguments:

    func (p Polygon) Area() float64 {          func (p Polygon) Area() float64 {
        ...                               =>       return p.areaBody()
    }                                          }
                                               func (p Polygon) areaBody() float64 { ... }

Behaviour, exported API and method sets are unchanged; the library builds.  Every mapped check
must stay silent: a VIOLATED or UNDECIDED line is an alarm on code where the property holds.

usage: wrap_check.py [-j N] [package-dir ...]     writes mutants/WRAP_RESULTS.json; exit 1 on alarms"""
import os, re, shutil, subprocess, sys, tempfile, json
from concurrent.futures import ThreadPoolExecutor

sys.path.insert(0, os.path.dirname(os.path.abspath(__file__)))
import opacity_check as oc

V, REPO, BIN, ENV = oc.V, oc.REPO, oc.BIN, oc.ENV
SIG = re.compile(r"^func\s+(\((\w+)\s+(\*?)([\w.]+)\)\s+)?(\w+)\((.*)\)\s*(.*?)\s*\{$")


def split_top(s):
    out, depth, cur = [], 0, ""
    for ch in s:
        if ch in "([{":
            depth += 1
        elif ch in ")]}":
            depth -= 1
        if ch == "," and depth == 0:
            out.append(cur.strip())
            cur = ""
        else:
            cur += ch
    if cur.strip():
        out.append(cur.strip())
    return out


def forward_args(params):
    """names to forward, or None when the parameter list cannot be forwarded by name."""
    if not params.strip():
        return []
    pieces = split_top(params)
    names = []
    typed_seen = any(" " in p for p in pieces)
    if not typed_seen:
        return None  # unnamed parameters
    for p in pieces:
        if " " in p:
            n, t = p.split(" ", 1)
            if not re.match(r"^\w+$", n) or n == "_":
                return None
            names.append(n + ("..." if t.strip().startswith("...") else ""))
        else:
            if not re.match(r"^\w+$", p) or p == "_":
                return None
            names.append(p)
    return names


def rewrite(lines, idx):
    line = lines[idx]
    m = re.match(r"^func\s+(\((\w+)\s+(\*?)([\w.]+)\)\s+)?(\w+)\(", line)
    if not m or not line.endswith("{"):
        return None
    recv_all, rname, star, rtype, name = m.groups()
    # the parameter list ends at the parenthesis matching the one after the name
    depth, k = 1, m.end()
    while k < len(line) and depth > 0:
        if line[k] in "([{":
            depth += 1
        elif line[k] in ")]}":
            depth -= 1
        k += 1
    if depth != 0:
        return None
    params, results = line[m.end():k - 1], line[k:-1].strip()
    if name in ("init", "main") or "[" in name:
        return None
    if recv_all and (not rname or rname == "_"):
        return None
    args = forward_args(params)
    if args is None:
        return None
    # find the end of the function
    j = idx + 1
    while j < len(lines) and lines[j] != "}":
        j += 1
    if j >= len(lines):
        return None
    body_name = name[0].lower() + name[1:] + "Body"
    call = (rname + "." if recv_all else "") + body_name + "(" + ", ".join(args) + ")"
    wrapper = [lines[idx], "\t" + ("return " if results else "") + call, "}", ""]
    renamed = lines[idx].replace(") " + name + "(" if recv_all else "func " + name + "(", (") " if recv_all else "func ") + body_name + "(", 1)
    return lines[:idx] + wrapper + [renamed] + lines[idx + 1:]


def variant(pkgdir, fn, idx, name):
    tmp = tempfile.mkdtemp(prefix="wrp.", dir="/tmp")
    try:
        subprocess.run(["rsync", "-a", "--exclude=.git", REPO + "/", tmp + "/"], check=True)
        path = os.path.join(tmp, pkgdir, fn)
        lines = open(path).read().split("\n")
        new = rewrite(lines, idx)
        if new is None:
            return (pkgdir, fn, name, "skip", ["signature not handled"])
        open(path, "w").write("\n".join(new))
        r = subprocess.run(["go", "build", "./" + pkgdir], cwd=tmp, env=ENV, capture_output=True, text=True)
        if r.returncode != 0:
            return (pkgdir, fn, name, "skip", [(r.stderr.strip().splitlines() or ["build"])[-1][:160]])
        alarms = []
        for p in oc.PKGS[pkgdir]:
            env = dict(os.environ, GEOM_REPO=tmp, VERIF_DIR=V)
            r = subprocess.run([BIN, "check", "-prop", p, "-tier", "quick", "-no-evidence"], env=env, capture_output=True, text=True)
            if r.returncode != 0:
                for ln in (r.stdout + r.stderr).splitlines():
                    if re.match(r"\s+(VIOLATED|UNDECIDED)", ln):
                        alarms.append(p + " " + ln.strip()[:400])
        return (pkgdir, fn, name, "ALARM" if alarms else "silent", alarms)
    finally:
        shutil.rmtree(tmp, ignore_errors=True)


def main():
    args = sys.argv[1:]
    j = 8
    if args[:1] == ["-j"]:
        j = int(args[1]); args = args[2:]
    pkgs = args or list(oc.PKGS)
    work = [(p, fn, idx, name) for p in pkgs for fn, idx, name in oc.functions(p)]
    print(f"{len(work)} functions in {len(pkgs)} packages", flush=True)
    counts, offenders = {}, []
    with ThreadPoolExecutor(j) as ex:
        for pkgdir, fn, name, verdict, lines in ex.map(lambda w: variant(*w), work):
            counts[verdict] = counts.get(verdict, 0) + 1
            if verdict == "ALARM":
                offenders.append({"pkg": pkgdir, "file": fn, "func": name, "lines": lines})
                print(f"ALARM  {pkgdir}/{fn} {name}", flush=True)
                for b in lines[:3]:
                    print("       " + b[:330], flush=True)
    print(json.dumps(counts, sort_keys=True))
    json.dump({"counts": counts, "offenders": offenders}, open(os.path.join(V, "mutants", "WRAP_RESULTS.json"), "w"), indent=1)
    sys.exit(1 if offenders else 0)


if __name__ == "__main__":
    main()
