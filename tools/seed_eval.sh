#!/bin/bash
# usage: seed_eval.sh <prop> <mutant-dir> <dest-pkg-dir-relative-to-repo> <go test -run regex> [checks...]
# Confirms an independently written change: demo passes without the patch, the existing suite passes with it,
# the demo fails with it; then runs the given property checks (default: the property itself) on the patched copy.
set -u
prop=$1; mdir=$2; dest=$3; rx=$4; shift 4
checks=${*:-$prop}
tmp=$(mktemp -d /tmp/seedeval.XXXXXX)
trap 'rm -rf "$tmp"' EXIT
rsync -a --exclude=.git /repo/ "$tmp/"
export GOFLAGS= GOPROXY=off GOSUMDB=off GOTOOLCHAIN=local; unset GOWORK
cp "$mdir"/demo/*.go "$tmp/$dest/" 2>/dev/null
cd "$tmp"
echo "== demo WITHOUT patch (expect ok)"
go test -vet=off -count=1 -run "$rx" "./$dest/" 2>&1 | tail -3
git init -q . >/dev/null 2>&1
if ! git apply --check "$mdir/patch.diff" 2>/dev/null; then echo "PATCH DOES NOT APPLY"; git apply "$mdir/patch.diff" 2>&1 | head -5; exit 3; fi
git apply "$mdir/patch.diff"
echo "== existing suite WITH patch (expect all ok)"
rm -f "$tmp/$dest"/*mutant*_test.go "$tmp/$dest"/*demo*_test.go 2>/dev/null
mkdir -p "$tmp/.demo_hold"; 
go test -vet=off -count=1 $(go list ./... | grep -v /carto) 2>&1 | grep -v "^ok\|no test files" | head -10
cp "$mdir"/demo/*.go "$tmp/$dest/" 2>/dev/null
echo "== demo WITH patch (expect FAIL)"
go test -vet=off -count=1 -run "$rx" "./$dest/" 2>&1 | grep -v "^\s*$" | tail -6
rm -f "$tmp/$dest"/*mutant*_test.go "$tmp/$dest"/*demo*_test.go 2>/dev/null
for f in "$mdir"/demo/*.go; do rm -f "$tmp/$dest/$(basename $f)"; done
echo "== checks on the patched tree"
for p in $checks; do
  GEOM_REPO="$tmp" VERIF_DIR=/verif /verif/bin/geomcheck check -prop "$p" -tier quick -no-evidence 2>&1 | grep -v KNOWN-FINDING | grep -A1 "VIOLATION\|quick:" | grep -v "^--" | cut -c1-400 | head -12
done
