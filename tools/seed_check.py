#!/usr/bin/env python3
"""Run the property checks against every independently written change under /verif/seeded.

usage: seed_check.py [-j N] [ids...]        (ids like C11-2; default all)

For each seeded/<id>/patch.diff: rsync /repo to a scratch directory outside /repo and /verif,
apply the patch, run `geomcheck check -prop <prop> -tier quick -no-evidence` on it, and
report the rules that fired.  The scratch copy is removed straight afterwards.  Writes
seeded/RESULTS.json (id -> {caught, rules}) — nothing under /repo is touched.
"""
import json, os, re, shutil, subprocess, sys, tempfile
from concurrent.futures import ThreadPoolExecutor

VERIF = os.path.dirname(os.path.dirname(os.path.abspath(__file__)))
REPO = os.environ.get("GEOM_REPO", "/repo")

def run_one(sid):
    prop = [x for x in sid.split("-") if re.match(r"C\d\d$", x)][0]
    d = os.path.join(VERIF, "seeded", sid)
    tmp = tempfile.mkdtemp(prefix="seedchk.", dir="/tmp")
    try:
        subprocess.run(["rsync", "-a", "--exclude=.git", REPO + "/", tmp + "/"], check=True)
        subprocess.run(["git", "init", "-q", "."], cwd=tmp, check=True, stdout=subprocess.DEVNULL, stderr=subprocess.DEVNULL)
        r = subprocess.run(["git", "apply", os.path.join(d, "patch.diff")], cwd=tmp, capture_output=True, text=True)
        if r.returncode != 0:
            return sid, {"caught": None, "error": "patch does not apply: " + r.stderr[:200]}
        env = dict(os.environ, GEOM_REPO=tmp, VERIF_DIR=VERIF)
        r = subprocess.run([os.path.join(VERIF, "bin/geomcheck"), "check", "-prop", prop, "-tier", "quick", "-no-evidence"],
                           env=env, capture_output=True, text=True)
        out = r.stdout + r.stderr
        rules = sorted(set(re.findall(r"(?:VIOLATED|UNDECIDED) rule=(\S+) construct=(\S+)", out)))
        return sid, {"caught": r.returncode != 0, "rules": [f"{a} {b}" for a, b in rules][:6]}
    finally:
        shutil.rmtree(tmp, ignore_errors=True)

def main():
    args = sys.argv[1:]
    j = 6
    if args[:1] == ["-j"]:
        j = int(args[1]); args = args[2:]
    ids = args or sorted(x for x in os.listdir(os.path.join(VERIF, "seeded")) if re.match(r"(R\d-)?C\d\d-\d+$", x))
    res = {}
    with ThreadPoolExecutor(j) as ex:
        for sid, r in ex.map(run_one, ids):
            res[sid] = r
            tag = "CAUGHT" if r.get("caught") else ("ERROR " if r.get("caught") is None else "missed")
            print(f"{tag} {sid}  {'; '.join(r.get('rules', [])) or r.get('error','')}"[:300], flush=True)
    if not args:
        json.dump(res, open(os.path.join(VERIF, "seeded", "RESULTS.json"), "w"), indent=1, sort_keys=True)
    n = sum(1 for r in res.values() if r.get("caught"))
    print(f"{n}/{len(res)} caught")

if __name__ == "__main__":
    import subprocess as _sp, os as _os
    _sp.run([_os.path.join(_os.path.dirname(_os.path.abspath(__file__)), "build.sh")], check=True)
    main()
