#!/bin/bash
# usage: bn_import.sh <round> <Cxx>   imports /tmp/wt/<round lower>-Cxx/BENIGN as seeded/<ROUND>-Cxx-1 and confirms it:
# the patch applies to a scratch copy of /repo, the library builds and the unedited suite passes.
set -u
round=$1; p=$2
lower=$(echo $round | tr 'A-Z' 'a-z')
src=/tmp/wt/$lower-$p/BENIGN
d=/verif/seeded/$round-$p-1
[ -f $src/patch.diff ] || { echo "$p: no delivery"; exit 2; }
mkdir -p $d
cp $src/patch.diff $src/README.agent.md $d/
tmp=$(mktemp -d /tmp/bnimport.XXXXXX)
trap 'rm -rf "$tmp"' EXIT
rsync -a --exclude=.git /repo/ "$tmp/"
cd "$tmp"; git init -q . >/dev/null 2>&1
export GOFLAGS= GOPROXY=off GOSUMDB=off GOTOOLCHAIN=local; unset GOWORK
if ! git apply "$d/patch.diff" 2>/dev/null; then echo "$p: PATCH DOES NOT APPLY"; exit 3; fi
out=$(go build $(go list ./... | grep -v /carto) 2>&1 | tail -3)
[ -n "$out" ] && { echo "$p: BUILD FAILS: $out"; exit 4; }
out=$(go test -vet=off -count=1 $(go list ./... | grep -v /carto) 2>&1 | grep -v "^ok\|no test files" | head -5)
[ -n "$out" ] && { echo "$p: SUITE FAILS: $out"; exit 5; }
echo "$p: confirmed (applies, builds, suite passes)"
