#!/usr/bin/env python3
"""Two more mechanical behaviour-preserving rewrites, one function at a time, against the checks.

  temp-return : every `return E` with a single expression becomes `r_ := E; return r_`
  index-loop  : every `for k, v := range S {` over a named slice becomes
                `for k := 0; k < len(S); k++ { v := S[k]`   (and `for _, v` / `for k := range S` likewise)

Sites where the rewrite does not type-check (several results, untyped nil, maps, channels) are
dropped one by one until the package builds; a variant with no site left is skipped.  The unedited
suite must pass with the variant (a rewrite that changes behaviour — a range over a string, a loop
that appends to the slice it walks — is discarded that way), and every mapped check must stay silent.

usage: idiom_check.py [-j N] [--kind temp-return|index-loop] [package-dir ...]
writes mutants/IDIOM_RESULTS.json; exit 1 on alarms"""
import os, re, shutil, subprocess, sys, tempfile, json
from concurrent.futures import ThreadPoolExecutor

sys.path.insert(0, os.path.dirname(os.path.abspath(__file__)))
import opacity_check as oc
import mutate_check as mc

V, REPO, BIN, ENV = oc.V, oc.REPO, oc.BIN, oc.ENV
RET = re.compile(r"^(\t+)return ([^,]+)$")
RNG = re.compile(r"^(\t+)for (\w+)(?:, (\w+))? := range (\w+(?:\.\w+)*) \{$")


def sites(lines, a, b, kind):
    out = []
    for i in range(a, b + 1):
        l = lines[i]
        if kind == "temp-return":
            m = RET.match(l)
            if m and m.group(2).strip() not in ("nil", "true", "false") and "func(" not in l and not l.rstrip().endswith("{"):
                out.append(i)
        else:
            if RNG.match(l):
                out.append(i)
    return out


def apply(lines, idxs, kind):
    new = list(lines)
    for n, i in enumerate(sorted(idxs, reverse=True)):
        l = new[i]
        if kind == "temp-return":
            m = RET.match(l)
            ind, e = m.group(1), m.group(2)
            new[i:i + 1] = [f"{ind}r{i}_ := {e}", f"{ind}return r{i}_"]
        else:
            m = RNG.match(l)
            ind, k, v, s = m.groups()
            kk = k if k != "_" else f"i{i}_"
            head = [f"{ind}for {kk} := 0; {kk} < len({s}); {kk}++ {{"]
            if v and v != "_":
                head.append(f"{ind}\t{v} := {s}[{kk}]")
            new[i:i + 1] = head
    return new


def variant(pkgdir, fn, a, b, name, kind):
    tmp = tempfile.mkdtemp(prefix="idm.", dir="/tmp")
    try:
        subprocess.run(["rsync", "-a", "--exclude=.git", REPO + "/", tmp + "/"], check=True)
        path = os.path.join(tmp, pkgdir, fn)
        lines = open(path).read().split("\n")
        idxs = sites(lines, a, b, kind)
        if not idxs:
            return (pkgdir, fn, name, "nosite", [])
        # drop sites that do not type-check, one at a time (the compiler names the line)
        for _ in range(len(idxs) + 1):
            if not idxs:
                return (pkgdir, fn, name, "nosite", [])
            open(path, "w").write("\n".join(apply(lines, idxs, kind)))
            r = subprocess.run(["go", "build", "./" + pkgdir], cwd=tmp, env=ENV, capture_output=True, text=True)
            if r.returncode == 0:
                break
            # map the first error line back to a site: rewritten lines grow the file below them
            m = re.search(re.escape(fn) + r":(\d+):", r.stderr)
            if not m:
                return (pkgdir, fn, name, "skip", [r.stderr.strip()[-160:]])
            errline = int(m.group(1)) - 1
            grown, victim = 0, None
            for s in sorted(idxs):
                if s + grown <= errline <= s + grown + 2:
                    victim = s
                    break
                grown += 1
            if victim is None:
                victim = idxs[-1]
            idxs = [s for s in idxs if s != victim]
        else:
            return (pkgdir, fn, name, "skip", ["does not build"])
        pk = [p for p in mc.test_pkgs() if not (p.endswith("/encoding/osm") and pkgdir != "encoding/osm")]
        r = subprocess.run(["go", "test", "-vet=off", "-count=1", "-timeout", "120s"] + pk, cwd=tmp, env=ENV, capture_output=True, text=True)
        if r.returncode != 0:
            return (pkgdir, fn, name, "behaviour-changed", [])
        alarms = []
        for p in oc.PKGS[pkgdir]:
            env = dict(os.environ, GEOM_REPO=tmp, VERIF_DIR=V)
            r = subprocess.run([BIN, "check", "-prop", p, "-tier", "quick", "-no-evidence"], env=env, capture_output=True, text=True)
            if r.returncode != 0:
                for ln in (r.stdout + r.stderr).splitlines():
                    if re.match(r"\s+(VIOLATED|UNDECIDED)", ln):
                        alarms.append(p + " " + ln.strip()[:400])
        return (pkgdir, fn, name, "ALARM" if alarms else "silent", alarms + [f"{len(idxs)} sites"])
    finally:
        shutil.rmtree(tmp, ignore_errors=True)


def main():
    args = sys.argv[1:]
    j, kinds = 8, ["temp-return", "index-loop"]
    while args[:1] and args[0] in ("-j", "--kind"):
        if args[0] == "-j":
            j = int(args[1])
        else:
            kinds = [args[1]]
        args = args[2:]
    pkgs = args or list(oc.PKGS)
    work = []
    for p in pkgs:
        for fn, rs in sorted(mc.func_ranges(p).items()):
            for (a, b, name, openidx) in rs:
                for k in kinds:
                    work.append((p, fn, a, b, name, k))
    print(f"{len(work)} function × rewrite pairs", flush=True)
    counts, offenders = {}, []
    with ThreadPoolExecutor(j) as ex:
        for w, (pkgdir, fn, name, verdict, lines) in zip(work, ex.map(lambda w: variant(*w), work)):
            key = w[5] + ":" + verdict
            counts[key] = counts.get(key, 0) + 1
            if verdict == "ALARM":
                offenders.append({"pkg": pkgdir, "file": fn, "func": name, "kind": w[5], "lines": lines})
                print(f"ALARM  [{w[5]}] {pkgdir}/{fn} {name}", flush=True)
                for b in lines[:3]:
                    print("       " + b[:330], flush=True)
    print(json.dumps(counts, sort_keys=True))
    json.dump({"counts": counts, "offenders": offenders}, open(os.path.join(V, "mutants", "IDIOM_RESULTS.json"), "w"), indent=1)
    sys.exit(1 if offenders else 0)


if __name__ == "__main__":
    main()
