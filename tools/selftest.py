#!/usr/bin/env python3
"""selftest.py [prop ...] — runs every catalogued variant against its property's
check on a scratch copy: breaking ⇒ the named rule must fire; benign ⇒ silence."""
import json, subprocess, sys, concurrent.futures as cf
subprocess.run(['/verif/tools/build.sh'], check=True)
cat = json.load(open('/verif/mutants/catalogue.json'))
want = set(sys.argv[1:])
def run(c):
    p = '/verif/mutants/%s/%s.patch' % (c['kind'], c['name'])
    r = subprocess.run(['/verif/tools/variant.sh', p, c['prop']], capture_output=True, text=True)
    out = r.stdout + r.stderr
    if 'PATCH-FAILED' in out:
        return c, 'PATCH-FAILED', out
    if c['kind'] == 'benign':
        ok = r.returncode == 0 and 'VIOLATION' not in out
    else:
        ok = r.returncode == 1 and ('rule=%s ' % c['expect_rule']) in out and 'UNDECIDED load failure' not in out
    return c, 'ok' if ok else 'WRONG', out
bad = 0
todo = [c for c in cat if not want or c['prop'] in want]
with cf.ThreadPoolExecutor(6) as ex:
    for c, st, out in ex.map(run, todo):
        print("%-8s %-4s %-9s %-45s %s" % (st, c['prop'], c['kind'], c['name'], c['expect_rule'] or ''))
        if st != 'ok':
            bad += 1
            print('    ' + '\n    '.join(out.strip().splitlines()[:8]))
print("%d variants, %d wrong" % (len(todo), bad))
sys.exit(1 if bad else 0)
