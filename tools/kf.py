#!/usr/bin/env python3
"""kf.py <property> <rule> <construct> <open|fixed> <commit|-> <what...>  — append an entry to known_findings.json"""
import json, sys
p, r, c, st, commit = sys.argv[1:6]
what = " ".join(sys.argv[6:])
f = json.load(open('/verif/known_findings.json'))
e = {"property": p, "rule": r, "construct": c, "status": st}
if commit != "-":
    e["commit"] = commit
    what = "fixed: property=%s %s %s" % (p, commit, what)
e["what"] = what
f["findings"] = [x for x in f["findings"] if not (x["property"] == p and x["rule"] == r and x["construct"] == c)] + [e]
s = json.dumps(f, indent=1)
open('/verif/known_findings.json', 'w').write(s + "\n")
