#!/usr/bin/env python3
"""Opacity audit of the model drivers: make ONE function of the library uninterpretable (and
nothing else) and require that no rule claims a violation.

For every top-level function and method in the non-test sources of the packages the checks
anchor in, a scratch copy of /repo gets
    if geomOpaque { panic("geom: opaque") }
as the first statement of that function, where geomOpaque is a package variable initialised
from the environment (always false when run, unknown to the interpreter).  Behaviour is
unchanged, the library still builds — but the interpreter cannot get past that statement, so
every model that runs through the function loses part of its scenario.  The only sound
verdicts are "discharged" (the function is not on the path) and "undecided"; a VIOLATED line
means a driver read the remains of an aborted run as the code's behaviour.

usage: opacity_check.py [-j N] [package-dir ...]        (default: all mapped packages)
Exit 1 and a list of offenders when any VIOLATED line appears."""
import os, re, shutil, subprocess, sys, tempfile, json
from concurrent.futures import ThreadPoolExecutor

V = os.path.dirname(os.path.dirname(os.path.abspath(__file__)))
REPO = os.environ.get("GEOM_REPO", "/repo")
BIN = os.environ.get("GEOMCHECK_BIN") or os.path.join(V, "bin/geomcheck")
# package directory -> properties whose checks interpret code of that package
PKGS = {
    ".": ["C01", "C02", "C03", "C04", "C10", "C13", "C14", "C15"],
    "op": ["C01", "C03", "C13", "C14", "C15"],
    "proj": ["C08", "C09", "C10", "C20"],
    "index/rtree": ["C11", "C12", "C19"],
    "encoding/wkb": ["C05", "C07"],
    "encoding/hex": ["C05", "C07"],
    "encoding/geojson": ["C06", "C07"],
    "encoding/shp": ["C16"],
    "encoding/wkt": ["C17"],
    "encoding/osm": ["C18"],
    "route": ["C19"],
}
BY_PROP = {}  # (pkg, file, func) -> properties whose check goes undecided when the function is opaque
GUARD = 'if geomOpaque { panic("geom: opaque") }'
ENV = dict(os.environ, GOFLAGS="", GOPROXY="off", GOSUMDB="off", GOTOOLCHAIN="local")
ENV.pop("GOWORK", None)


def functions(pkgdir):
    """(file, line index of the line that opens the body, name) for every top-level func."""
    out = []
    d = os.path.join(REPO, pkgdir)
    for fn in sorted(os.listdir(d)):
        if not fn.endswith(".go") or fn.endswith("_test.go") or fn.startswith("zz_opaque"):
            continue
        lines = open(os.path.join(d, fn)).read().split("\n")
        i = 0
        while i < len(lines):
            m = re.match(r"func\s+(\([^)]*\)\s*)?([A-Za-z_0-9]+)", lines[i])
            if m:
                j = i
                # the signature ends on the first line that ends with "{" (gofmt) or holds a one-line body
                while j < len(lines) and not lines[j].rstrip().endswith("{") and "{ " not in lines[j]:
                    j += 1
                    if j - i > 12:
                        break
                if j < len(lines) and j - i <= 12:
                    recv = (m.group(1) or "").strip()
                    out.append((fn, j, (recv + " " if recv else "") + m.group(2)))
                i = j
            i += 1
    return out


def variant(pkgdir, fn, idx, name):
    tmp = tempfile.mkdtemp(prefix="opq.", dir="/tmp")
    try:
        subprocess.run(["rsync", "-a", "--exclude=.git", REPO + "/", tmp + "/"], check=True)
        path = os.path.join(tmp, pkgdir, fn)
        lines = open(path).read().split("\n")
        l = lines[idx]
        if l.rstrip().endswith("{"):
            lines.insert(idx + 1, "\t" + GUARD)
        else:
            k = l.index("{ ")
            lines[idx] = l[: k + 2] + GUARD + "; " + l[k + 2:]
        open(path, "w").write("\n".join(lines))
        pkgname = next(re.match(r"package\s+(\w+)", x).group(1) for x in lines if x.startswith("package "))
        open(os.path.join(tmp, pkgdir, "zz_opaque.go"), "w").write(
            "package %s\n\nimport \"os\"\n\nvar geomOpaque = os.Getenv(\"GEOM_OPAQUE_NEVER_SET\") == \"\\x00never\"\n" % pkgname)
        r = subprocess.run(["go", "build", "./" + pkgdir], cwd=tmp, env=ENV, capture_output=True, text=True)
        if r.returncode != 0:
            return (pkgdir, fn, name, "skip", [r.stderr.strip().splitlines()[-1][:160] if r.stderr.strip() else "build"])
        bad, und = [], 0
        by_prop = {}
        for p in PKGS[pkgdir]:
            env = dict(os.environ, GEOM_REPO=tmp, VERIF_DIR=V)
            r = subprocess.run([BIN, "check", "-prop", p, "-tier", "quick", "-no-evidence"], env=env, capture_output=True, text=True)
            for ln in (r.stdout + r.stderr).splitlines():
                if re.match(r"\s+VIOLATED", ln):
                    bad.append(p + " " + ln.strip()[:420])
                elif re.match(r"\s+UNDECIDED", ln):
                    und += 1
                    by_prop[p] = by_prop.get(p, 0) + 1
        BY_PROP[(pkgdir, fn, name)] = sorted(by_prop)
        return (pkgdir, fn, name, "VIOLATED" if bad else ("undecided" if und else "untouched"), bad)
    finally:
        shutil.rmtree(tmp, ignore_errors=True)


def main():
    args = sys.argv[1:]
    j = 8
    if args[:1] == ["-j"]:
        j = int(args[1]); args = args[2:]
    only = None
    if args[:1] == ["--offenders"]:
        # re-run the functions listed as offenders by the last full run
        prev = json.load(open(os.path.join(V, "mutants", "OPACITY_RESULTS.json")))
        only = {(o["pkg"], o["file"], o["func"]) for o in prev.get("offenders", []) + prev.get("previous_offenders", [])}
        args = args[1:]
    pkgs = args or list(PKGS)
    work = [(p, fn, idx, name) for p in pkgs for fn, idx, name in functions(p) if only is None or (p, fn, name) in only]
    print(f"{len(work)} functions in {len(pkgs)} packages", flush=True)
    counts, offenders = {}, []
    with ThreadPoolExecutor(j) as ex:
        for pkgdir, fn, name, verdict, bad in ex.map(lambda w: variant(*w), work):
            counts[verdict] = counts.get(verdict, 0) + 1
            if verdict == "VIOLATED":
                offenders.append((pkgdir, fn, name, bad))
                print(f"VIOLATED  {pkgdir}/{fn} {name}", flush=True)
                for b in bad[:4]:
                    print("          " + b, flush=True)
            elif verdict == "skip":
                print(f"skip      {pkgdir}/{fn} {name}: {bad[0]}", flush=True)
    print(json.dumps(counts, sort_keys=True))
    res = {"counts": counts, "offenders": [{"pkg": p, "file": f, "func": n, "lines": b} for p, f, n, b in offenders],
           "on_model_path_of": [{"pkg": k[0], "file": k[1], "func": k[2], "props": v} for k, v in sorted(BY_PROP.items()) if v]}
    if only is not None:
        res["previous_offenders"] = [{"pkg": p, "file": f, "func": n} for p, f, n in sorted(only)]
    json.dump(res, open(os.path.join(V, "mutants", "OPACITY_RESULTS.json"), "w"), indent=1)
    sys.exit(1 if offenders else 0)


if __name__ == "__main__":
    main()
