#!/usr/bin/env python3
"""relabel.py <prop>... — for breaking variants whose expected rule no longer fires but another rule of the
same property does, set expect_rule to the first rule that fires (used after a rule set was reorganised)."""
import json, re, subprocess, sys
subprocess.run(['/verif/tools/build.sh'], check=True)
p = '/verif/mutants/catalogue.json'
cat = json.load(open(p))
for e in cat:
    if e['prop'] not in sys.argv[1:] or e['kind'] != 'breaking':
        continue
    r = subprocess.run(['/verif/tools/variant.sh', '/verif/mutants/breaking/%s.patch' % e['name'], e['prop']], capture_output=True, text=True)
    out = r.stdout + r.stderr
    rules = re.findall(r'(?:VIOLATED|UNDECIDED) rule=(\S+)', out)
    if r.returncode == 1 and rules and ('rule=%s ' % e['expect_rule']) not in out:
        print(e['name'], e['expect_rule'], '->', rules[0])
        e['expect_rule'] = rules[0]
    elif r.returncode != 1:
        print('NOT CAUGHT', e['name'])
json.dump(cat, open(p, 'w'), indent=1)
