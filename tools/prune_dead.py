import subprocess, re, os, sys
env=dict(os.environ, GOFLAGS='-mod=mod', GOPROXY='off', GOSUMDB='off', GOTOOLCHAIN='local')
def sh(cmd):
    return subprocess.run(cmd, shell=True, capture_output=True, text=True, env=env)
for rnd in range(12):
    out=sh('deadcode . 2>/dev/null').stdout
    items=[]
    for l in out.splitlines():
        m=re.match(r'([a-z0-9_]+\.go):(\d+):\d+: unreachable func: (\S+)', l)
        if m: items.append((m.group(1), int(m.group(2)), m.group(3)))
    if not items: break
    byfile={}
    for f,ln,name in items: byfile.setdefault(f,[]).append(ln)
    for f,lns in byfile.items():
        lines=open(f).read().split('\n')
        for ln in sorted(lns, reverse=True):
            i=ln-1
            if not lines[i].startswith('func '): continue
            # end
            if lines[i].rstrip().endswith('}') and lines[i].count('{')==lines[i].count('}'):
                j=i
            else:
                j=i
                while j < len(lines) and lines[j] != '}': j+=1
            # preceding comments
            k=i
            while k>0 and lines[k-1].startswith('//'): k-=1
            del lines[k:j+1]
            # collapse blank lines
        open(f,'w').write('\n'.join(lines))
    # fix imports / unused
    for it in range(30):
        r=sh('go build -o /dev/null . 2>&1')
        if r.returncode==0: break
        fixed=False
        for l in (r.stdout+r.stderr).splitlines():
            m=re.match(r'\./([a-z0-9_]+\.go):(\d+):\d+: "([^"]+)" imported and not used', l)
            if m:
                f=m.group(1); lines=open(f).read().split('\n')
                ln=int(m.group(2))-1
                if m.group(3) in lines[ln]:
                    del lines[ln]; open(f,'w').write('\n'.join(lines)); fixed=True; break
        if not fixed:
            print(r.stdout+r.stderr); sys.exit(1)
    print('round',rnd,'removed',len(items))
sh('gofmt -w *.go')
print(sh('go build -o ../bin/geomcheck . 2>&1').stdout)
print(sh('go vet . 2>&1').stdout[:500])
