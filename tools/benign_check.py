#!/usr/bin/env python3
"""Run property checks against the independently written BEHAVIOUR-PRESERVING refactors
under seeded/BN-*: any VIOLATION is a false alarm of the machinery.

usage: benign_check.py [-j N] [--all] [ids...]    --all runs all 20 property checks per refactor
Writes seeded/BENIGN_RESULTS.json when run without ids; with --all and ids it refreshes those entries."""
import json, os, re, shutil, subprocess, sys, tempfile
from concurrent.futures import ThreadPoolExecutor
V = os.path.dirname(os.path.dirname(os.path.abspath(__file__)))
PROPS = [f"C{i:02d}" for i in range(1, 21)]

def run_one(sid, allprops):
    own = [x for x in sid.split("-") if re.match(r"C\d\d$", x)][0]
    d = os.path.join(V, "seeded", sid)
    tmp = tempfile.mkdtemp(prefix="bnchk.", dir="/tmp")
    try:
        subprocess.run(["rsync", "-a", "--exclude=.git", "/repo/", tmp + "/"], check=True)
        subprocess.run(["git", "init", "-q", "."], cwd=tmp, stdout=subprocess.DEVNULL, stderr=subprocess.DEVNULL)
        r = subprocess.run(["git", "apply", os.path.join(d, "patch.diff")], cwd=tmp, capture_output=True, text=True)
        if r.returncode != 0:
            return sid, {"error": "patch does not apply: " + r.stderr[:200]}
        alarms = {}
        for p in (PROPS if allprops else [own]):
            env = dict(os.environ, GEOM_REPO=tmp, VERIF_DIR=V)
            r = subprocess.run([os.environ.get("GEOMCHECK_BIN") or os.path.join(V, "bin/geomcheck"), "check", "-prop", p, "-tier", "quick", "-no-evidence"], env=env, capture_output=True, text=True)
            if r.returncode != 0:
                out = r.stdout + r.stderr
                alarms[p] = [l.strip()[:400] for l in out.splitlines() if re.match(r"\s+(VIOLATED|UNDECIDED)", l)][:6]
        return sid, {"alarms": alarms}
    finally:
        shutil.rmtree(tmp, ignore_errors=True)

def main():
    args = sys.argv[1:]
    j, allp = 6, False
    if args[:1] == ["-j"]:
        j = int(args[1]); args = args[2:]
    if args[:1] == ["--all"]:
        allp = True; args = args[1:]
    ids = args or sorted(x for x in os.listdir(os.path.join(V, "seeded")) if x.startswith("BN"))
    res = {}
    with ThreadPoolExecutor(j) as ex:
        for sid, r in ex.map(lambda s: run_one(s, allp), ids):
            res[sid] = r
            if r.get("error"):
                print("ERROR ", sid, r["error"], flush=True)
            elif r["alarms"]:
                print("ALARM ", sid, flush=True)
                for p, ls in r["alarms"].items():
                    for l in ls:
                        print("      ", p, l[:330], flush=True)
            else:
                print("silent", sid, flush=True)
    path = os.path.join(V, "seeded", "BENIGN_RESULTS.json")
    if not args:
        json.dump(res, open(path, "w"), indent=1, sort_keys=True)
    elif allp and os.path.exists(path):
        # a partial --all run refreshes the entries of the refactors it ran
        old = json.load(open(path))
        old.update(res)
        json.dump(old, open(path, "w"), indent=1, sort_keys=True)
    n = sum(1 for r in res.values() if r.get("alarms"))
    print(f"{n}/{len(res)} refactors raise an alarm")

if __name__ == "__main__":
    import subprocess as _sp, os as _os
    if not _os.environ.get("GEOMCHECK_BIN"):
        _sp.run([_os.path.join(_os.path.dirname(_os.path.abspath(__file__)), "build.sh")], check=True)
    main()
