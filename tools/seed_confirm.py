#!/usr/bin/env python3
"""Confirm independently written changes end to end (what tools/seed_eval.sh does, in parallel).

usage: seed_confirm.py [-j N] [ids...]     ids like C11-2 or R2-C05-1; default: all without a CONFIRM entry

For each change, on a scratch copy of /repo under /tmp (removed afterwards):
  1. demo copied into its package directory passes WITHOUT the patch,
  2. the unedited suite (go test ./... minus carto) passes WITH the patch,
  3. the demo FAILS with the patch.
Results are merged into seeded/CONFIRM.json."""
import json, os, re, shutil, subprocess, sys, tempfile
from concurrent.futures import ThreadPoolExecutor
V = os.path.dirname(os.path.dirname(os.path.abspath(__file__)))
S = os.path.join(V, "seeded")
ENV = dict(os.environ, GOFLAGS="", GOPROXY="off", GOSUMDB="off", GOTOOLCHAIN="local")
ENV.pop("GOWORK", None)

def table():
    t = {}
    for line in open(os.path.join(S, "list.txt")):
        p, k, dest, rx = line.split(None, 3)
        t[f"{p}-{k}"] = (dest, rx.strip())
    return t

def tags_of(d):
    for f in os.listdir(os.path.join(d, "demo")):
        m = re.search(r"^//go:build\s+(\w+)", open(os.path.join(d, "demo", f)).read(), re.M)
        if m:
            return ["-tags", m.group(1)]
    return []

def run(cmd, cwd):
    r = subprocess.run(cmd, cwd=cwd, env=ENV, capture_output=True, text=True)
    return r.returncode, (r.stdout + r.stderr)

def confirm(sid, dest, rx):
    d = os.path.join(S, sid)
    tmp = tempfile.mkdtemp(prefix="seedconf.", dir="/tmp")
    try:
        subprocess.run(["rsync", "-a", "--exclude=.git", "/repo/", tmp + "/"], check=True)
        subprocess.run(["git", "init", "-q", "."], cwd=tmp, stdout=subprocess.DEVNULL, stderr=subprocess.DEVNULL)
        demos = [f for f in os.listdir(os.path.join(d, "demo")) if f.endswith(".go")]
        def put():
            for f in demos:
                shutil.copy(os.path.join(d, "demo", f), os.path.join(tmp, dest, f))
        def take():
            for f in demos:
                os.remove(os.path.join(tmp, dest, f))
        tags = tags_of(d)
        put()
        rc1, o1 = run(["go", "test", "-vet=off", "-count=1"] + tags + ["-run", rx, "./" + dest + "/"], tmp)
        take()
        r = subprocess.run(["git", "apply", os.path.join(d, "patch.diff")], cwd=tmp, capture_output=True, text=True)
        if r.returncode != 0:
            return sid, {"error": "patch does not apply: " + r.stderr[:200]}
        rc, pk = run(["go", "list", "./..."], tmp)
        pkgs = [p for p in pk.split() if "/carto" not in p and p.startswith("github.com")]
        rc2, o2 = run(["go", "test", "-vet=off", "-count=1"] + pkgs, tmp)
        put()
        rc3, o3 = run(["go", "test", "-vet=off", "-count=1"] + tags + ["-run", rx, "./" + dest + "/"], tmp)
        res = {"demo_without_patch": "pass" if rc1 == 0 else "FAIL", "suite_with_patch": "pass" if rc2 == 0 else "FAIL",
               "demo_with_patch": "fail" if rc3 != 0 else "PASSES", "confirmed": rc1 == 0 and rc2 == 0 and rc3 != 0}
        if rc1 != 0:
            res["detail"] = o1[-400:]
        elif rc2 != 0:
            res["detail"] = "\n".join(l for l in o2.splitlines() if not l.startswith("ok"))[-400:]
        elif rc3 == 0:
            res["detail"] = o3[-300:]
        else:
            res["failure"] = "\n".join(l for l in o3.splitlines() if l.strip())[:300]
        return sid, res
    finally:
        shutil.rmtree(tmp, ignore_errors=True)

def main():
    args = sys.argv[1:]
    j = 6
    if args[:1] == ["-j"]:
        j = int(args[1]); args = args[2:]
    t = table()
    cp = os.path.join(S, "CONFIRM.json")
    conf = json.load(open(cp)) if os.path.exists(cp) else {}
    ids = args or [s for s in sorted(t) if s not in conf and os.path.isdir(os.path.join(S, s))]
    with ThreadPoolExecutor(j) as ex:
        for sid, r in ex.map(lambda s: confirm(s, *t[s]), ids):
            conf[sid] = r
            print(("CONFIRMED " if r.get("confirmed") else "NOT-CONFIRMED ") + sid, {k: v for k, v in r.items() if k in ("demo_without_patch", "suite_with_patch", "demo_with_patch", "error")}, flush=True)
            if not r.get("confirmed"):
                print("   ", (r.get("detail") or "")[:400].replace("\n", "\n    "))
    json.dump(conf, open(cp, "w"), indent=1, sort_keys=True)

if __name__ == "__main__":
    main()
