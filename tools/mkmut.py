#!/usr/bin/env python3
"""mkmut.py <name> <breaking|benign> <prop> <expect-rule|-> <file> <old> <new> [<file> <old> <new> ...]
Creates mutants/<kind>/<name>.patch (unified diff against /repo's working tree)
by exact string replacement (old must occur exactly once; prefix old with '@N@' to
pick the N-th occurrence, 1-based) and registers it in mutants/catalogue.json."""
import sys, json, difflib, os
name, kind, prop, rule = sys.argv[1:5]
rest = sys.argv[5:]
assert len(rest) % 3 == 0 and rest
out = []
files = {}
for i in range(0, len(rest), 3):
    f, old, new = rest[i:i+3]
    s = files.get(f) or open('/repo/' + f).read()
    nth = None
    if old.startswith('@') and '@' in old[1:]:
        j = old.index('@', 1)
        nth = int(old[1:j]); old = old[j+1:]
    old = old.encode().decode('unicode_escape'); new = new.encode().decode('unicode_escape')
    cnt = s.count(old)
    if nth is None:
        assert cnt == 1, "%s: %d occurrences of %r" % (f, cnt, old)
        s = s.replace(old, new)
    else:
        assert cnt >= nth, "%s: only %d occurrences" % (f, cnt)
        pos = -1
        for _ in range(nth):
            pos = s.index(old, pos + 1)
        s = s[:pos] + new + s[pos+len(old):]
    files[f] = s
for f, s in files.items():
    a = open('/repo/' + f).read().splitlines(True)
    b = s.splitlines(True)
    out += difflib.unified_diff(a, b, 'a/' + f, 'b/' + f)
path = '/verif/mutants/%s/%s.patch' % (kind, name)
open(path, 'w').write(''.join(out))
catp = '/verif/mutants/catalogue.json'
cat = json.load(open(catp)) if os.path.exists(catp) else []
cat = [c for c in cat if c['name'] != name]
cat.append({'name': name, 'kind': kind, 'prop': prop, 'expect_rule': None if rule == '-' else rule})
cat.sort(key=lambda c: (c['prop'], c['kind'], c['name']))
json.dump(cat, open(catp, 'w'), indent=1)
print("wrote", path)
