#!/bin/bash
# usage: r7_import.sh <Cxx> <dest-pkg-dir> <test-regex>     imports /tmp/wt/r7-Cxx/MUTANT as seeded/R7-Cxx-1 and confirms it
set -u
p=$1; dest=$2; rx=$3
src=/tmp/wt/r7-$p/MUTANT
d=/verif/seeded/R7-$p-1
mkdir -p $d/demo
cp $src/patch.diff $d/patch.diff
cp $src/demo/*.go $d/demo/
cp $src/README.agent.md $d/README.agent.md
grep -q "^R7-$p 1 " /verif/seeded/list.txt || echo "R7-$p 1 $dest $rx" >> /verif/seeded/list.txt
/verif/tools/seed_eval.sh $p $d $dest "$rx"
