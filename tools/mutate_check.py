#!/usr/bin/env python3
"""Mechanical mutation of the library against the checks: a measure of what the models let
through, with no author in the loop.

For every line of every non-test source file of the mapped packages, each applicable operator
(relational flip, boundary shift, boolean connective, negation dropped, constant 0/1, index
shift, +/- swap, true/false, statement deleted) yields one variant on a scratch copy of /repo.
A variant is of interest when it still builds and the existing test suite (minus carto and the
slow osm extraction test, which no mutated package feeds) still passes.  The property checks
mapped to the package then run; the variant is
    reported   some check exits non-zero (violation or undecided)
    survivor   every check is silent
Survivors inside functions that the models actually run through (decided lazily with the
opacity guard of tools/opacity_check.py: the function made opaque turns some check undecided)
are listed for reading: each is either an equivalent mutant or a gap in a model's inputs.

usage: mutate_check.py [-j N] [--sample K] [package-dir ...]
Writes mutants/MUTATION_RESULTS.json."""
import os, re, shutil, subprocess, sys, tempfile, json, random, threading
from concurrent.futures import ThreadPoolExecutor

sys.path.insert(0, os.path.dirname(os.path.abspath(__file__)))
import opacity_check as oc

V, REPO, BIN = oc.V, oc.REPO, oc.BIN
ENV = oc.ENV

OPS = [
    ("rel<=to<", re.compile(r"(?<![<>=!])<=(?!=)"), "<"),
    ("rel<to<=", re.compile(r"(?<![<>=!\-])<(?![<=\-])"), "<="),
    ("rel>=to>", re.compile(r"(?<![<>=!])>=(?!=)"), ">"),
    ("rel>to>=", re.compile(r"(?<![<>=!\-])>(?![>=])"), ">="),
    ("eq-to-ne", re.compile(r"(?<![<>=!:])==(?!=)"), "!="),
    ("ne-to-eq", re.compile(r"!=(?!=)"), "=="),
    ("and-to-or", re.compile(r"&&"), "||"),
    ("or-to-and", re.compile(r"\|\|"), "&&"),
    ("drop-not", re.compile(r"!(?=[A-Za-z_(])"), ""),
    ("plus-to-minus", re.compile(r"(?<=[\w)\]]) \+ (?=[\w(])"), " - "),
    ("minus-to-plus", re.compile(r"(?<=[\w)\]]) - (?=[\w(])"), " + "),
    ("idx-minus-1", re.compile(r"(?<=[\w)\]])-1\b"), ""),
    ("idx-plus-1", re.compile(r"(?<=[\w)\]])\+1\b"), ""),
    ("zero-to-one", re.compile(r"(?<![\w.])0(?![\w.])"), "1"),
    ("one-to-zero", re.compile(r"(?<![\w.])1(?![\w.])"), "0"),
    ("true-to-false", re.compile(r"\btrue\b"), "false"),
    ("false-to-true", re.compile(r"\bfalse\b"), "true"),
]
SIMPLE_STMT = re.compile(r"^\t+(?!\t)(?!return\b|if\b|for\b|switch\b|case\b|default\b|func\b|defer\b|go\b|var\b|type\b|const\b|else\b|\}|//|select\b|package\b|import\b)[^{}]*[^{},(]$")


def func_ranges(pkgdir):
    """file -> list of (start, end, name, openidx): line indexes of each top-level function."""
    out = {}
    by = {}
    for fn, idx, name in oc.functions(pkgdir):
        by.setdefault(fn, []).append((idx, name))
    for fn, fs in by.items():
        lines = open(os.path.join(REPO, pkgdir, fn)).read().split("\n")
        rs = []
        for idx, name in fs:
            if not lines[idx].rstrip().endswith("{"):
                rs.append((idx, idx, name, idx))
                continue
            j = idx + 1
            while j < len(lines) and lines[j] != "}":
                j += 1
            rs.append((idx + 1, j - 1, name, idx))
        out[fn] = rs
    return out


def mutants(pkgdir):
    ms = []
    for fn, rs in sorted(func_ranges(pkgdir).items()):
        lines = open(os.path.join(REPO, pkgdir, fn)).read().split("\n")
        for (a, b, name, openidx) in rs:
            for i in range(a, b + 1):
                l = lines[i]
                code = l.split("//")[0]
                if not code.strip() or '"' in code or "`" in code or "'" in code:
                    continue
                for op, rx, rep in OPS:
                    for k, m in enumerate(rx.finditer(code)):
                        new = code[:m.start()] + rep + code[m.end():] + l[len(code):]
                        ms.append((pkgdir, fn, i, name, openidx, f"{op}#{k}", l, new))
                if SIMPLE_STMT.match(code) and not code.strip().startswith(("break", "continue", "fallthrough", "goto")):
                    ms.append((pkgdir, fn, i, name, openidx, "delete-stmt", l, "\t" * (len(l) - len(l.lstrip("\t"))) + "_ = 0"))
    return ms


_opq_cache, _opq_lock = {}, threading.Lock()


def on_model_path(pkgdir, fn, openidx, name):
    key = (pkgdir, fn, name)
    with _opq_lock:
        if key in _opq_cache:
            return _opq_cache[key]
    r = oc.variant(pkgdir, fn, openidx, name)[3]
    with _opq_lock:
        _opq_cache[key] = r
    return r


TEST_PKGS = None


def test_pkgs():
    global TEST_PKGS
    if TEST_PKGS is None:
        r = subprocess.run("go list ./... | grep -v '/carto'", shell=True, cwd=REPO, env=ENV, capture_output=True, text=True)
        TEST_PKGS = r.stdout.split()
    return TEST_PKGS


def run(m):
    pkgdir, fn, i, name, openidx, op, old, new = m
    tmp = tempfile.mkdtemp(prefix="mut.", dir="/tmp")
    try:
        subprocess.run(["rsync", "-a", "--exclude=.git", REPO + "/", tmp + "/"], check=True)
        path = os.path.join(tmp, pkgdir, fn)
        lines = open(path).read().split("\n")
        lines[i] = new
        open(path, "w").write("\n".join(lines))
        r = subprocess.run(["go", "build", "./" + pkgdir], cwd=tmp, env=ENV, capture_output=True, text=True)
        if r.returncode != 0:
            return m, "nobuild", []
        r = subprocess.run(["go", "vet", "./" + pkgdir], cwd=tmp, env=ENV, capture_output=True, text=True)
        # (vet is informative only)
        pk = [p for p in test_pkgs() if not (p.endswith("/encoding/osm") and pkgdir != "encoding/osm")]
        try:
            r = subprocess.run(["go", "test", "-vet=off", "-count=1", "-timeout", "120s"] + pk, cwd=tmp, env=ENV, capture_output=True, text=True, timeout=300)
        except subprocess.TimeoutExpired:
            return m, "killed", []
        if r.returncode != 0:
            return m, "killed", []
        alarms = []
        for p in oc.PKGS[pkgdir]:
            env = dict(os.environ, GEOM_REPO=tmp, VERIF_DIR=V)
            r = subprocess.run([BIN, "check", "-prop", p, "-tier", "quick", "-no-evidence"], env=env, capture_output=True, text=True)
            if r.returncode != 0:
                kinds = set(re.findall(r"^\s+(VIOLATED|UNDECIDED)", r.stdout + r.stderr, re.M))
                alarms.append(p + ":" + "+".join(sorted(kinds)))
        if alarms:
            return m, "reported", alarms
        return m, "survivor", []
    finally:
        shutil.rmtree(tmp, ignore_errors=True)


def main():
    args = sys.argv[1:]
    j, sample, complement = 8, 0, 0
    while args[:1] and args[0] in ("-j", "--sample", "--complement"):
        if args[0] == "-j":
            j = int(args[1])
        elif args[0] == "--sample":
            sample = int(args[1])
        else:
            complement = int(args[1])  # the variants the sample of that size (over ALL packages) left out
        args = args[2:]
    only = None
    if args[:1] == ["--survivors"]:
        # re-run the survivors (in modelled functions) of the last run
        prev = json.load(open(os.path.join(V, "mutants", "MUTATION_RESULTS.json")))
        only = {(x["pkg"], x["file"], x["line"], x["op"]) for x in prev["survivors"] if x.get("function_on_model_path")}
        args = args[1:]
    pkgs = args or list(oc.PKGS)
    work = [m for p in pkgs for m in mutants(p) if only is None or (m[0], m[1], m[2] + 1, m[5]) in only]
    if sample and sample < len(work):
        random.Random(1).shuffle(work)
        work = sorted(work[:sample])
    if complement:
        allw = [m for p in oc.PKGS for m in mutants(p)]
        random.Random(1).shuffle(allw)
        left = {(m[0], m[1], m[2], m[5]) for m in allw[complement:]}
        work = [m for m in work if (m[0], m[1], m[2], m[5]) in left]
    print(f"{len(work)} variants in {len(pkgs)} packages", flush=True)
    counts, survivors, reported = {}, [], []
    with ThreadPoolExecutor(j) as ex:
        for n, (m, verdict, alarms) in enumerate(ex.map(run, work)):
            counts[verdict] = counts.get(verdict, 0) + 1
            pkgdir, fn, i, name, openidx, op, old, new = m
            rec = {"pkg": pkgdir, "file": fn, "line": i + 1, "func": name, "op": op, "old": old.strip(), "new": new.strip()}
            if verdict == "survivor":
                rec["openidx"] = openidx
                survivors.append(rec)
            elif verdict == "reported":
                rec["alarms"] = alarms
                reported.append(rec)
            if (n + 1) % 100 == 0:
                print(f"  {n+1}/{len(work)} {json.dumps(counts, sort_keys=True)}", flush=True)
    # which survivors sit in functions the models run through?
    fkeys = sorted({(s["pkg"], s["file"], s["openidx"], s["func"]) for s in survivors})
    print(f"{len(survivors)} survivors in {len(fkeys)} functions; probing which of those the models run through", flush=True)
    with ThreadPoolExecutor(j) as ex:
        list(ex.map(lambda k: on_model_path(*k), fkeys))
    for s in survivors:
        s["function_on_model_path"] = on_model_path(s["pkg"], s["file"], s["openidx"], s["func"]) in ("undecided", "VIOLATED")
        del s["openidx"]
    covered = [s for s in survivors if s["function_on_model_path"]]
    counts["survivor_in_modelled_function"] = len(covered)
    print(json.dumps(counts, sort_keys=True))
    for s in covered:
        print(f"SURVIVOR {s['pkg']}/{s['file']}:{s['line']} {s['func']} [{s['op']}]  {s['old']}   =>   {s['new']}")
    out = "MUTATION_RESULTS.json" if only is None else "MUTATION_RERUN.json"
    if complement:
        out = "MUTATION_RESULTS_2.json"
    json.dump({"counts": counts, "survivors": survivors, "reported": reported},
              open(os.path.join(V, "mutants", out), "w"), indent=1)


if __name__ == "__main__":
    main()
