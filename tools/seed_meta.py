#!/usr/bin/env python3
"""Write seeded/<id>/meta.json for every independently written change and seeded/README.md.

The facts that cannot be derived (first-round verdicts, what was strengthened) live in the
tables below; the current verdicts are read from seeded/RESULTS.json (tools/seed_check.py)."""
import json, os, re
V = os.path.dirname(os.path.dirname(os.path.abspath(__file__)))
S = os.path.join(V, "seeded")

ROUND1 = {  # verdict of the checks as they stood when the change was first evaluated
 "C01-1": ("missed", ""), "C01-2": ("caught", "C01.R2"), "C02-1": ("caught", "C02.R2"), "C02-2": ("caught", "C02.R2"),
 "C03-1": ("missed", ""), "C03-2": ("missed", ""), "C04-1": ("caught", "C04.R2"), "C04-2": ("caught", "C04.R3"),
 "C05-1": ("caught", "C05.R1 (undecided layout)"), "C05-2": ("caught", "C05.R1 (undecided layout)"),
 "C06-1": ("caught", "C06.R3"), "C06-2": ("missed", ""), "C07-1": ("caught", "C07.R1"), "C07-2": ("caught", "C07.R2"),
 "C08-1": ("missed", ""), "C08-2": ("caught", "C08.R2"), "C09-1": ("missed", ""), "C09-2": ("missed", ""),
 "C10-1": ("caught by accident", "C10.R2 (length rule fired on the 3-element scratch array, not on the aliasing)"),
 "C10-2": ("caught", "C10.R4"), "C11-1": ("missed", ""), "C11-2": ("missed", ""), "C12-1": ("missed", ""), "C12-2": ("missed", ""),
 "C13-1": ("missed", ""), "C13-2": ("caught", "C13.R3"), "C14-1": ("missed", ""),
 "C14-2": ("caught by accident", "C14.R1 ('delegates to Intersection': the box test was mistaken for a delegation)"),
 "C15-1": ("missed", ""), "C15-2": ("missed", ""), "C16-1": ("missed", ""), "C16-2": ("missed", ""),
 "C17-1": ("caught", "C17.R1 (undecided emission) + C17.R2 floor"), "C17-2": ("caught", "C17.R3"),
 "C18-1": ("caught", "C18.R3, C18.R5"), "C18-2": ("caught", "C18.R3"), "C19-1": ("missed", ""), "C19-2": ("caught", "C19.R1"),
 "C20-1": ("caught", "C20.R2"), "C20-2": ("missed", ""),
 # ---- second batch (first evaluated against the checks as strengthened after the first batch)
 "R2-C01-1": ("caught", "C01.R3"), "R2-C01-2": ("caught", "C01.R4"), "R2-C02-1": ("caught", "C02.R1, C02.R5"), "R2-C02-2": ("caught", "C02.R4"),
 "R2-C03-1": ("missed", ""), "R2-C03-2": ("missed", ""), "R2-C04-1": ("missed", ""), "R2-C04-2": ("caught", "C04.R1"),
 "R2-C05-1": ("missed", ""), "R2-C05-2": ("caught", "C05.R1 (undecided header layout)"),
 "R2-C06-1": ("caught by accident", "C06.R4 (`json.Marshal is not called` — the Encoder form reports the same errors; the real defect is the pooled buffer)"),
 "R2-C06-2": ("caught", "C06.R3"), "R2-C07-1": ("caught", "C07.R2"), "R2-C07-2": ("missed", "(C05.R1 reports it, but the change was filed under C07)"),
 "R2-C08-1": ("missed", ""), "R2-C08-2": ("missed", ""), "R2-C09-1": ("missed", ""), "R2-C09-2": ("missed", ""),
 "R2-C10-1": ("caught", "C10.R1a"), "R2-C10-2": ("caught", "C10.R4"), "R2-C11-1": ("caught", "C11.R4"), "R2-C11-2": ("caught", "C11.R3, C11.R6"),
 "R2-C12-1": ("missed", ""), "R2-C12-2": ("missed", ""), "R2-C13-1": ("missed", ""), "R2-C13-2": ("caught", "C13.R2"),
 "R2-C14-1": ("missed", "(C01.R2 reports it, but the change was filed under C14)"), "R2-C14-2": ("caught", "C14.R2"),
 "R2-C15-1": ("missed", ""), "R2-C15-2": ("missed", ""), "R2-C16-1": ("missed", ""), "R2-C16-2": ("caught", "C16.R2"),
 "R2-C17-1": ("caught", "C17.R1"), "R2-C17-2": ("caught", "C17.R1 (undecided emission)"),
 "R2-C18-1": ("missed", ""), "R2-C18-2": ("missed", ""), "R2-C19-1": ("missed", ""), "R2-C19-2": ("missed", ""),
 "R2-C20-1": ("missed", ""), "R2-C20-2": ("missed", ""),
}
for _p in range(1, 21):
    _k = "C%02d" % _p
    ROUND1["R3-%s-1" % _k] = ("caught", "")
    ROUND1["R4-%s-1" % _k] = ("caught", "")
    ROUND1["R5-%s-1" % _k] = ("caught", "")
    ROUND1["R6-%s-1" % _k] = ("caught", "")
    ROUND1["R7-%s-1" % _k] = ("caught", "")
ROUND1.update({
 # third batch: first evaluated against the redesigned checker of DESIGN §10
 "R3-C07-1": ("missed", ""), "R3-C08-1": ("missed", ""), "R3-C09-1": ("missed", ""),
 "R3-C13-1": ("caught by accident", "C13.R1/R2 undecided: the deviation measure was renamed and squared, the oracle no longer recognised it"),
 "R3-C17-1": ("caught by accident", "C17.R1 undecided: the emission path was not interpretable"),
 # fourth batch: first evaluated against the checker as it stood after the BN2 corrections (DESIGN §11)
 "R4-C04-1": ("caught (as undecided)", "C04.R1: the changed test multiplies side lengths, which the order domain cannot follow; the defect itself (underflow / Inf·0) is outside exact arithmetic"),
 "R4-C13-1": ("caught (as undecided)", "C13.R5: 0/0 on a degenerate segment was ⊤ in the symbolic domain"),
 "R4-C17-1": ("caught (as undecided)", "C17.R1/R2: the integer fast path is not a float formatting the model knows; the defect itself (int64 overflow above 2^63) is a range matter"),
 "R4-C19-1": ("missed", "(C12.R4 reports it: the change is in the R-tree helper that C12 anchors; C19's model network is too small for that helper's pruning to run)"),
})
ROUND1.update({
 # seventh batch: 'break the least obvious clause of the statement'; first evaluated against the checker after BN5 (DESIGN §11.13)
 "R7-C04-1": ("caught (as undecided)", "C04.R1: the changed no-area test multiplies side lengths, which the order domain cannot follow"),
 "R7-C06-1": ("caught (as undecided)", "C06.R5: the package defines MarshalJSON; a hand-written number formatter is outside what the rules establish"),
 "R7-C17-1": ("caught (as undecided)", "C17.R1/R2: the whole-number fast path branches on math.Trunc of a symbolic ordinate"),
 "R7-C07-1": ("missed", "the hex decoder was only modelled on well-formed texts and one non-hexadecimal text of ordinary length"),
 "R7-C13-1": ("missed", "C13.R4 compared members under constant deviation answers, under which the simplicity test is never asked"),
})
STRENGTHENED = {
 "C01-1": "C01.R4 now covers Difference/Union/XOr/Intersection of *Bounds with an opaque polygon and answers every shape query (Within, point-in-polygon) in every possible way: a shortcut result must follow from the box relation alone",
 "C03-1": "new axis-discipline rule (C04.R5, premise C03.R5): no comparison relates an X ordinate to a Y ordinate",
 "C03-2": "new C03.R4/C13.R5: path facts at the division and at the foot point of the point-to-segment distance (divisor non-zero, 0 ≤ b ≤ 1)",
 "C06-2": "new C06.R5: the package defines no MarshalJSON/UnmarshalJSON/Text hooks (number formatting stays encoding/json's) — reported UNDECIDED, since a hand-written formatter is outside what the rules establish",
 "C08-1": "new C08.R5: conic family (inverse lon = atan2(…)/N + λ0): both atan2 arguments carry the ±1 factor that follows the sign of the cone constant",
 "C09-1": "new C09.R6: Helmert shift — SSA simultaneity of the three outputs, extracted linear form (antisymmetric couplings, translation index = axis), forward/inverse transposed",
 "C09-2": "new C09.R7: two-point type system e / e² over SR.E, SR.Es, sqrt, squares and 1−(B/A)²; every helper parameter gets one type at all call sites",
 "C10-1": "C10.R1b: dependence analysis follows slices of captured arrays (rootAddr through Slice) and loads see stores through the same root, so the second call's inputs are seen to depend on captured state",
 "C11-1": "C11.R3 now checks the upward pass itself: the root is recognised by identity, or by parent==nil only if every root store clears the parent link",
 "C11-2": "C11.R3 now checks the upward pass itself: loop `for n != root {…; n = n.parent}` has no break/return/continue and repairs the node's own entry each iteration",
 "C12-1": "new C12.R5: C11's envelope-maintenance obligations are a premise of the MINMAXDIST bound and are re-established under C12",
 "C12-2": "new C12.R4: squared/linear unit bits on every bound-derived value; no comparison mixes them",
 "C13-1": "new C13.R5 (= C03.R4): projection parameter bounded above by 1 at the foot point",
 "C14-1": "new C14.R4: a conditional return/skip ahead of the clipper call must be implied by disjoint closed boxes (!Overlaps) and return an empty result",
 "C14-2": "C14.R4 (as C14-1) now reports the skip for the right reason; the accidental delegation alarm was removed (nil-compared *Bounds ops are box tests)",
 "C15-2": "C15.R3 extended to the ring helper: at least len-1 steps, both cursors advanced by the same successor, no early exit",
 "C16-1": "C16.R3: the slice the closing vertex is appended to must own its backing array (not a 2-index window of a shared block); derivesFrom no longer counts len(x) as a use of x",
 "C16-2": "new C16.R5: decoder column index and lookups lower-cased; DecodeRow has one lookup keyed by the tag alone and one keyed by the field name alone",
 "C19-1": "C19.R2: every value the heuristic returns is 0, the straight-line distance (Distance option) or that distance over the running-maximum speed (Time option)",
 "C20-2": "new C20.R5: truth table of the Float64 case of Equal over (isNaN a, isNaN b, withinULP) with helper inlining; slice and pointer cases dominated by length / nil tests (this also exposed the Equal panic repaired in 4254d7b)",
}
STRENGTHENED.update({
 "R2-C03-1": "C03.R2: callee summaries are computed per ring when the caller is analysed per ring (Polygon.Centroid is even only under reversal of all rings)",
 "R2-C03-2": "C03.R2: recursion solved by fixpoint iteration instead of assuming 'even'; adding an orientation-odd value inside a loop over member geometries makes the accumulator mixed",
 "R2-C04-1": "C04.R1: the Extend enumeration includes operands that are empty because Max<Min on an axis with finite coordinates (every weak ordering), not only the canonical NewBounds() box",
 "R2-C05-1": "new C05.R5 (also C06.R6, C17.R4): SSA provenance of the value Encode returns — it must not share its backing array with a sync.Pool object or a package-level variable",
 "R2-C06-1": "C06.R6 (freshness) now reports it for the right reason; C06.R4 accepts the json.Encoder form when its error reaches the caller",
 "R2-C07-2": "new C07.R4: C05's writer/reader layout and table obligations are re-established under C07 (premise of the re-encode clause) through Ctx.Alias",
 "R2-C09-2": "C08.R2 gained `source-reference` (every source-side stage reads one *SR variable); new C09.R8 files the pipeline obligations under C09",
 "R2-C12-1": "C12.R3: a MINMAXDIST-derived value handed to a library function (sort.Search…) is UNDECIDED — the boundary case MINDIST = bound is hidden in that function's convention",
 "R2-C13-1": "new C13.R6: tolerance factors in the comparisons of the segment-intersection routine are the constant 0",
 "R2-C14-1": "new C14.R5: C01.R2/R3's obligations on the shared clipping helper are re-established under C14",
 "R2-C15-2": "C15.R3: both ring cursors start at anchors computed by one function of their own ring only",
 "R2-C16-1": "new C16.R6: path rule — every return with a record and no recorded error has incremented the attribute-row counter exactly once",
 "R2-C18-1": "new C18.R6 (dispatch): each process call is reached on the object's type alone; a pass-dependent guard is UNDECIDED",
 "R2-C18-2": "new C18.R6 (barrier): flow fact — every iteration of the pass loop ends after Wait joined the workers it started",
 "R2-C19-1": "new C19.R5: nothing reachable from ShortestRoute assigns to network or package state (UNDECIDED otherwise: the answer may depend on earlier queries)",
 "R2-C19-2": "C19.R3: the route and the two totals are assigned only inside the loop over the route's links",
 "R2-C20-1": "new C20.R7: every store of the datum-shift list is make(len(values)) filled by the parse loop, never re-sliced or replaced",
 "R2-C20-2": "new C20.R6: no parser loop that stores into the spatial reference ranges over a map",
})

REDESIGN = ("after the redesign (DESIGN.md §10) the rule that reports this change is decided by model evaluation: "
            "the repository source is interpreted on abstract inputs and the resulting values are compared with the specification")
STRENGTHENED.update({
 "C15-1": "C15.R1 is now a model evaluation of Similar on pairs of all eight types in both directions; a duplicated member standing against a different one must give false",
 "R2-C15-1": "C15.R1 model: members whose boxes are empty / equal go through the real pre-filter in the interpreter; the pair must still be similar",
 "R2-C12-2": "new C12.R6: each point-to-box function equals MINDIST² or MINMAXDIST² as a polynomial in symbolic coordinates for all 16 placements of the point",
 "R2-C16-2": "C16.R2 model: parts of 0 vertices in the middle of a multi-part shape",
 "C20-1": "C20.R2 model: the UNIT clause written before the PARAMETER clauses (EPSG clause order)",
 "R2-C13-2": "C13.R2 model: inputs with a repeated vertex; the input must come back untouched",
 "C13-2": "C13.R3 model: coverage of the simplicity test — kept output before the shortcut — on curves long enough to keep two vertices before a shortcut",
 "R2-C03-1": "C03.R2 model: MultiPolygon.Centroid of a single member with a hole under reversal of one ring",
 "R2-C03-2": "C03.R3 model: op.Area of a multi-polygon whose members are wound in opposite directions",
})

STRENGTHENED.update({
 "R3-C07-1": "interpreter: sized-integer wrap-around (uint32 products) and readers that report a remaining length; the C07 model then reaches the allocation sized by a wrapped product",
 "R3-C08-1": "new C08.R6: angle-normalising helpers found by behaviour and held to identity on the principal interval, period 2π, oddness",
 "R3-C09-1": "new C09.R9: classification and unit conversion of +towgs84 lists against proj4js, by model evaluation with symbolic values",
 "R3-C13-1": "the C13 deviation oracle recognises any (Point,Point,Point) float64 measure by signature and answers the comparison made with it, whatever its name or power",
 "R3-C17-1": "C17 model: emission through helper writers interpreted; reported as a violation of the text, not as undecided",
 "R4-C13-1": "symbolic domain: 0/0 is NaN (absorbing in products); the segment-distance model reports the degenerate segment as a violation under C13.R5 and C03.R4",
 "R3-C18-1": "C18.R7 gained the pass protocol with KeepBounds in file order on two documents (one where nothing selected reaches out of the box)",
 "R2-C16-1": "C16.R6 is decided by the file model alone now: a geometry-only read followed by an attribute read must see its own row",
 "R2-C20-1": "C20.R7 model: seven-value lists without rotations and without a scale, from both spellings",
 "R2-C09-2": "the pipeline model (C08.R2 / C09.R8) gained references with a prime meridian and a shifted datum on the same side, through WGS84 in two legs",
 "R2-C20-2": "C20.R6 is decided by parsing under both map orders",
})
STRENGTHENED.update({
 "R5-C02-1": "C02 model: polygons whose rings come in an unusual order — a ring away from the query point listed before the ring around it (a hole before its shell, disjoint rings, an empty first ring, a member away from the point first); rings whose box does not hold the point may be skipped, the others never",
 "R5-C20-1": "C20.R7 model: a WKT datum name that only resembles one the reader rewrites (WGS_1972, D_WGS_1972, World_Geodetic_System_1972 …) with an explicit TOWGS84 keeps the shift written in the text",
 "R5-C08-1": "interpreter: math.Copysign under the reference valuation; C08.R5 (cone sign) and C08.R7 (longitude round trip) now decide it as a violation",
 "R5-C12-1": "interpreter: sort.Search, SearchFloat64s/Ints/Strings, Float64s/Ints on decided comparisons; C12.R2/R3 now decide it as a violation (the pruned branch held the nearest object)",
 "R5-C18-1": "C18.R7 gained the extraction loop itself: extract is interpreted under one sequential schedule (goroutines run when waited for, channels as queues) with a scanner over the model documents in nine orders; the loop's own decisions — when to read again, what a pass may skip — are now evaluated, not only the per-object functions",
 "R2-C09-1": "new C09.R10: with a single standard parallel the cone constant of every conic (the coefficient of the longitude in the polar angle of the forward easting) is, as a term, the sine of the stored parallel",
 "R2-C08-1": "new C08.R7: for the projections whose longitude has a closed form, inverse∘forward of the longitude evaluated on the forward member's own terms must be the identity",
})
STRENGTHENED.update({
 "R6-C01-1": "premise rule C01.R6 (also C03.R6, C14.R6): C04's model of Len/Bounds/Points is re-established under every property whose shortcuts and pre-filters stand on Bounds()",
 "R6-C03-1": "premise rule C03.R6 (as R6-C01-1)",
 "R6-C14-1": "premise rule C14.R6 (as R6-C01-1)",
 "R6-C09-1": "premise rule C09.R13 (also C08.R8, C10.R5): C20's models of SR.Equal and of NewTransform's identity shortcut are re-established under every property that transforms between references",
 "R6-C10-1": "premise rule C10.R5 (as R6-C09-1)",
 "R6-C04-1": "C04 model: a *Bounds as the first, last and nested member of a collection, and every call must leave the geometry it is called on as it was",
 "R6-C08-1": "pipeline model (C08.R2 / C09.R8): references whose axis order names the axes the other way round, with none, the first or the second reversed — position by position as proj4js 2.3.12 reads them",
 "R6-C12-1": "C11 model (premise C12.R5): a history of points in a column and a row, whose envelopes have no area, with a delete at the far end of the column",
 "R4-C19-1": "premise rule C19.R6: C12's nearest-neighbour models are re-established under C19, whose routes start and end at the nodes the index returns",
})
STRENGTHENED.update({
 "R7-C07-1": "new C07.R5: hex.Decode interpreted on the empty text, one-character texts, texts that are not hexadecimal or of odd length, every truncation of the text of a Point message and texts with trailing characters — an error each time, no panic",
 "R7-C13-1": "C13.R4 gained a third answer pattern (one vertex may be skipped, two may not) under which the simplicity test is asked, and requires that a question about a shortcut inside member i is asked of member i's own curves only",
})
STRENGTHENED.update({
 "R7-C04-1": "C04.R1 box-box facet: differences and products of ordinates followed by sign under IEEE-754 (0·∞ is NaN), boxes reaching to infinity among the inputs: decided as a violation on two strips sharing an unbounded edge (was undecided)",
 "R4-C04-1": "as R7-C04-1: decided as a violation (was undecided)",
 "R7-C17-1": "C17.R1 float classes: the encoder followed in ten regions of the float64 line; decided as a violation for values beyond the int64 range (was undecided)",
 "R4-C17-1": "as R7-C17-1 (overflow beyond 2^63, `0` for negative zero): decided as a violation (was undecided)",
 "R5-C17-1": "as R7-C17-1: decided as a violation (was undecided)",
 "R3-C17-1": "as R7-C17-1: decided as a violation (was undecided)",
 "C17-1": "as R7-C17-1: decided as a violation (was undecided)",
})
NOT_CAUGHT = {
 "R2-C08-2": "still missed: spherical transverse Mercator takes the hemisphere from sign(y) instead of from the foot-point latitude — formula-level",
}

def needs_of(readme):
    m = re.search(r"(?is)(?:^|\n)(?:#+\s*|\*\*)(?:what it needs[^\n]*|needs[^\n]*?manifest[^\n*]*)(?:\*\*)?:?\s*\n?(.*?)(?:\n#+ |\n\*\*[A-Z][^\n]*\*\*|\Z)", readme)
    t = (m.group(1) if m else "").strip()
    t = re.sub(r"\s+", " ", t)
    return t[:900]

def main():
    res = json.load(open(os.path.join(S, "RESULTS.json")))
    demo_rx = {}
    for line in open(os.path.join(S, "list.txt")):
        p, k, dest, rx = line.split(None, 3)
        demo_rx[f"{p}-{k}"] = (dest, rx.strip())
    rows = []
    for sid in sorted(res):
        d = os.path.join(S, sid)
        readme = open(os.path.join(d, "README.agent.md")).read()
        title = next((l.lstrip("# ").strip() for l in readme.splitlines() if l.startswith("#")), sid)
        dest, rx = demo_rx[sid]
        now = res[sid]
        meta = {
            "id": sid, "property": re.search(r"C\d\d", sid).group(0), "title": title,
            "origin": "fresh sub-agent given only the property text and a scratch worktree of /repo (nothing from /verif)",
            "needs_to_manifest": needs_of(readme),
            "files": {"patch": "patch.diff", "demo": sorted(os.listdir(os.path.join(d, "demo"))), "agent_report": "README.agent.md"},
            "confirmed_by": [
                f"tools/seed_eval.sh {re.search(r'C[0-9][0-9]', sid).group(0)} seeded/{sid} {dest} '{rx}': on a scratch copy of /repo — demo passes without the patch; "
                "the unedited suite (go test ./... minus carto) passes with the patch; the demo fails with the patch",
                f"tools/seed_check.py {sid}: the property's quick check on the patched scratch copy",
            ],
            "first_evaluation": {"verdict": ROUND1[sid][0], "rules": ROUND1[sid][1]},
            "current": {"verdict": "caught" if now.get("caught") else "missed", "rules": now.get("rules", [])},
        }
        if sid in STRENGTHENED:
            meta["strengthened"] = STRENGTHENED[sid]
        if sid in NOT_CAUGHT:
            meta["note"] = NOT_CAUGHT[sid]
        json.dump(meta, open(os.path.join(d, "meta.json"), "w"), indent=1, ensure_ascii=False)
        rows.append(meta)
    with open(os.path.join(S, "README.md"), "w") as f:
        f.write("# Independently written breaking changes\n\n"
                "Each directory holds one change to ctessum/geom written by a fresh sub-agent that saw only the text of one property and a scratch\n"
                "worktree of /repo: `patch.diff` (never committed to /repo), `demo/` (a test that passes on /repo and fails with the patch),\n"
                "`README.agent.md` (the author's report) and `meta.json`.  All of them compile and pass the existing suite.\n"
                "`tools/seed_eval.sh` re-confirms a change end to end, `tools/seed_check.py` runs the checks against all of them\n"
                "(scratch copies under /tmp, removed afterwards) and rewrites `RESULTS.json`.\n\n"
                "| id | change | first evaluation | now | rule(s) |\n|---|---|---|---|---|\n")
        for m in rows:
            f.write(f"| {m['id']} | {m['title'][:90]} | {m['first_evaluation']['verdict']} | {m['current']['verdict']} | {'; '.join(r.split()[0] for r in m['current']['rules'][:3])} |\n")
        n1 = sum(1 for m in rows if m['first_evaluation']['verdict'].startswith('caught'))
        n2 = sum(1 for m in rows if m['current']['verdict'] == 'caught')
        r1 = [m for m in rows if not m['id'].startswith('R')]
        r2 = [m for m in rows if m['id'].startswith('R2-')]
        r3 = [m for m in rows if m['id'].startswith('R3-')]
        r4 = [m for m in rows if m['id'].startswith('R4-')]
        r5 = [m for m in rows if m['id'].startswith('R5-')]
        r6 = [m for m in rows if m['id'].startswith('R6-')]
        r7 = [m for m in rows if m['id'].startswith('R7-')]
        for nm, rr in (("first batch", r1), ("second batch (written after the first round of strengthening, so it measures generalisation)", r2),
                       ("third batch (one per property, first evaluated against the redesigned checker of DESIGN §10)", r3),
                       ("fourth batch (one per property, 'not the first idea that comes to mind'; first evaluated against the checker of DESIGN §11)", r4),
                       ("fifth batch (one per property, 'a well-meant improvement whose author did not think of an unusual but legal input'; first evaluated after the BN4 corrections, DESIGN §11.7)", r5),
                       ("sixth batch (one per property, 'in a helper or a caller: the break comes from the interplay of two places'; first evaluated after the mechanical audits, DESIGN §11.11)", r6),
                       ("seventh batch (one per property, 'break the least obvious clause of the statement while the headline behaviour stays right'; first evaluated after BN5, DESIGN §11.13)", r7)):
            a1 = sum(1 for m in rr if m['first_evaluation']['verdict'].startswith('caught'))
            a2 = sum(1 for m in rr if m['current']['verdict'] == 'caught')
            f.write(f"\n{nm}: first evaluation {a1}/{len(rr)} reported, now {a2}/{len(rr)}.\n")
        # behaviour-preserving refactors
        bn = os.path.join(S, "BENIGN_RESULTS.json")
        if os.path.exists(bn):
            br = json.load(open(bn))
            alarms = sum(1 for r in br.values() if r.get("alarms"))
            for bid, r in sorted(br.items()):
                bd = os.path.join(S, bid)
                if not os.path.isdir(bd):
                    continue
                rd = os.path.join(bd, "README.agent.md")
                title = bid
                if os.path.exists(rd):
                    title = next((l.lstrip("# ").strip() for l in open(rd).read().splitlines() if l.startswith("#")), bid)
                json.dump({
                    "id": bid, "property": bid.split("-")[1], "kind": "behaviour-preserving refactor (any alarm on it is a false alarm of the machinery)",
                    "title": title,
                    "origin": "fresh sub-agent given only the property text and a scratch worktree of /repo (nothing from /verif), asked to restructure the implementing code without changing behaviour; the unedited suite passes with the patch",
                    "files": {"patch": "patch.diff", "agent_report": "README.agent.md"},
                    "ran": ["tools/benign_check.py --all: all 20 quick checks on a scratch copy of /repo with the patch applied"],
                    "current": {"alarms": r.get("alarms", {})},
                }, open(os.path.join(bd, "meta.json"), "w"), indent=1, ensure_ascii=False)
            def cnt(prefix):
                ids = [b for b in br if b.startswith(prefix)]
                return sum(1 for b in ids if br[b].get("alarms")), len(ids)
            f.write("\n# Independently written behaviour-preserving refactors (BN-*, BN2-*, BN3-*, BN4-*, BN5-*, BN6-*)\n\n"
                    "Sixty refactors (three per property) written the same way, with the opposite brief: change the code that implements the\n"
                    "property as a maintainer would (extract helpers, change loop idioms, rename, merge or split functions, tables for switches)\n"
                    "without changing behaviour.  Each directory holds `patch.diff` and the author's `README.agent.md`.  Any alarm on one of them is a\n"
                    "false alarm of the machinery.  `tools/benign_check.py` runs the property's own check against each (`--all`: all 20 checks) and\n"
                    "rewrites `BENIGN_RESULTS.json`.\n\n"
                    f"First run: 43 of the first 53 alarmed (DESIGN.md §10.1).  Now: {alarms} of {len(br)} alarm.\n\n"
                    "Two further sets, one refactor per property each, were written later to re-measure (DESIGN.md §11): BN2-* with the same brief\n"
                    "(8 of the first 15 alarmed when first run; the last 5 were first run after those corrections: 0 of 5) and BN3-* with a brief asking\n"
                    "for energetic restructuring — state types with methods, method values, table dispatch, pipelines, code moved between files\n"
                    "(11 of 20 alarmed when first run).\n"
                    "A fourth set, BN4-*, asked for a swap of equivalents: the same behaviour through a different mechanism (raw bytes and\n"
                    "ByteOrder calls for binary.Read/Write, a hand-written loop for a library call, closures handed to a shared helper, atomics for a\n"
                    "mutex-guarded flag, bit tricks for arithmetic): 10 of 20 alarmed when first run, several with a rule claiming a violation (DESIGN.md §11.7).\n"
                    "A fifth set, BN5-*, refactors the support code instead of the function the property names first: helper signatures changed and\n"
                    "every caller adapted, helpers split, merged, moved between files or replaced by the standard-library equivalent, tables turned into\n"
                    "functions, package state initialised in var declarations instead of init functions: 8 of 20 alarmed when first run (DESIGN.md §11.11).\n"
                    "A sixth set, BN6-*, is the performance-minded commit: correct fast paths and early exits in front of the general code, preallocation,\n"
                    "fused passes, hoisted invariants, specialised inline code, each checked bit for bit by its author with a differential harness:\n"
                    "9 of 20 alarmed when first run, three with a rule claiming a violation; 4 still do, as undecided (inlined float arithmetic where the\n"
                    "models place their oracles, and a fast path that reproduces the external clipper's answer): DESIGN.md §11.14.\n"
                    f"Now: BN-* {cnt('BN-')[0]}/{cnt('BN-')[1]}, BN2-* {cnt('BN2-')[0]}/{cnt('BN2-')[1]}, BN3-* {cnt('BN3-')[0]}/{cnt('BN3-')[1]}, BN4-* {cnt('BN4-')[0]}/{cnt('BN4-')[1]}, BN5-* {cnt('BN5-')[0]}/{cnt('BN5-')[1]}, BN6-* {cnt('BN6-')[0]}/{cnt('BN6-')[1]} alarm.\n")
    print(len(rows), "meta files written")

if __name__ == "__main__":
    main()
